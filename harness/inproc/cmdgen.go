package inproc

// Command generator of C11: the list of command names is extracted at run time
// from the Register*("name", ...) calls of the checked-out tree; every name
// gets a valid argv template (a tiny DSL) which is then mutated.

import (
	"fmt"
	"io/ioutil"
	"math/rand"
	"os"
	"path/filepath"
	"regexp"
	"sort"
	"strconv"
	"strings"
)

// RepoDir is the checkout the binary was built from (./check exports
// VERIF_REPO for scratch checkouts).
func RepoDir() string {
	if d := os.Getenv("VERIF_REPO"); d != "" {
		return d
	}
	return "/repo"
}

// RegisteredCmd is one command name found in the tree.
type RegisteredCmd struct {
	Name  string   `json:"name"`
	Kinds []string `json:"kinds"` // read, write, merge, writemerge, internal, server
}

var regCallRe = regexp.MustCompile(`\.Register(Internal|Write|Read|Merge|WriteMerge)\(\s*"([^"]+)"`)
var caseRe = regexp.MustCompile(`case\s+((?:"[^"]+"\s*,?\s*)+):`)
var strRe = regexp.MustCompile(`"([^"]+)"`)

// ExtractRegisteredCommands parses node/node_cmd_reg.go (all Register* calls)
// and the command switch of server/redis_api.go serverRedis (server-level
// commands) of the current tree.
func ExtractRegisteredCommands(repo string) ([]RegisteredCmd, error) {
	kinds := map[string]map[string]bool{}
	add := func(name, kind string) {
		name = strings.ToLower(name)
		if kinds[name] == nil {
			kinds[name] = map[string]bool{}
		}
		kinds[name][kind] = true
	}
	files, _ := filepath.Glob(filepath.Join(repo, "node", "*.go"))
	found := false
	for _, f := range files {
		if strings.HasSuffix(f, "_test.go") {
			continue
		}
		b, err := ioutil.ReadFile(f)
		if err != nil {
			return nil, err
		}
		for _, m := range regCallRe.FindAllStringSubmatch(string(b), -1) {
			add(m[2], strings.ToLower(m[1]))
			found = true
		}
	}
	if !found {
		return nil, fmt.Errorf("no Register*(\"name\") call found under %s/node", repo)
	}
	b, err := ioutil.ReadFile(filepath.Join(repo, "server", "redis_api.go"))
	if err != nil {
		return nil, err
	}
	src := string(b)
	if i := strings.Index(src, "func (s *Server) serverRedis("); i >= 0 {
		body := src[i:]
		if j := strings.Index(body[1:], "\nfunc "); j >= 0 {
			body = body[:j+1]
		}
		for _, m := range caseRe.FindAllStringSubmatch(body, -1) {
			for _, s := range strRe.FindAllStringSubmatch(m[1], -1) {
				add(s[1], "server")
			}
		}
	}
	var out []RegisteredCmd
	for n, ks := range kinds {
		rc := RegisteredCmd{Name: n}
		for k := range ks {
			rc.Kinds = append(rc.Kinds, k)
		}
		sort.Strings(rc.Kinds)
		out = append(out, rc)
	}
	sort.Slice(out, func(i, j int) bool { return out[i].Name < out[j].Name })
	return out, nil
}

// skippedCommands are registered names that are NOT sent, with the reason.
var skippedCommands = map[string]string{
	"detach": "connection control (hands the socket over and closes it), not a data command",
	"quit":   "connection control (closes the connection), not a data command",
}

// ---- templates -------------------------------------------------------------

// Template DSL, tokens separated by blanks:
//
//	K:<type>  key of the pool of that data type      F field   FN numeric field   M member
//	V value   N integer   I index   SC score   TTL seconds (large)   BO bit offset   BIT 0|1
//	OFF byte offset   CNT count   CUR:<t> scan cursor (ns:table:)   CURF in-collection cursor
//	SMIN SMAX score bounds   LMIN LMAX lex bounds   LON LAT RAD UNIT   PATH JSON   TYPE   PAT
//	OLDV probable current value   TBL ns:table   COND index condition
//	lower-case words are literals; ( ... )? optional group; ( ... )+ repeated 1..3 times
var templates = map[string]string{
	// kv
	"get": "K:kv", "stale.get": "K:kv", "stale.getversion": "K:kv", "stale.getexpired": "K:kv",
	"strlen": "K:kv", "getrange": "K:kv I I", "getnolock": "K:kv", "getbit": "K:bit BO",
	"bitcount": "K:bit ( I I )?", "mget": "K:kv ( K:kv )+",
	"set": "K:kv V ( ex TTL )? ( nx )?", "append": "K:kv V", "setrange": "K:kv OFF V", "getset": "K:kv V",
	"setbit": "K:bit BO BIT", "setbitv2": "K:bit BO BIT", "setnx": "K:kv V",
	"setifeq": "K:kv OLDV V ( ex TTL )?", "delifeq": "K:kv OLDV",
	"incr": "K:cnt", "incrby": "K:cnt N", "pfadd": "K:hll ( M )+", "pfcount": "K:hll", "bitclear": "K:bit",
	"noopwrite": "K:kv V",
	// hash
	"hget": "K:hash F", "stale.hget.version": "K:hash F", "stale.hgetall.expired": "K:hash",
	"stale.hmget.expired": "K:hash ( F )+", "hgetall": "K:hash", "hkeys": "K:hash", "hvals": "K:hash",
	"hexists": "K:hash F", "hmget": "K:hash ( F )+", "hlen": "K:hash", "hset": "K:hash F V", "hsetnx": "K:hash F V",
	"hmset": "K:hash ( F V )+", "hdel": "K:hash ( F )+", "hincrby": "K:hash FN N", "hclear": "K:hash",
	// json
	"json.get": "K:json ( PATH )?", "json.keyexists": "K:json", "json.mkget": "K:json ( K:json )? PATH",
	"json.type": "K:json ( PATH )?", "json.arrlen": "K:json ( PATH )?", "json.objkeys": "K:json ( PATH )?",
	"json.objlen": "K:json ( PATH )?", "json.set": "K:json PATH JSON", "json.del": "K:json ( PATH )+",
	"json.arrappend": "K:json PATH ( JSON )+", "json.arrpop": "K:json ( PATH )?",
	// list
	"lindex": "K:list I", "llen": "K:list", "lrange": "K:list I I", "lfixkey": "K:list", "lpop": "K:list",
	"lpush": "K:list ( V )+", "lset": "K:list I V", "ltrim": "K:list I I", "rpop": "K:list", "rpush": "K:list ( V )+",
	"lclear": "K:list",
	// zset
	"zscore": "K:zset M", "zcount": "K:zset SMIN SMAX", "zcard": "K:zset", "zlexcount": "K:zset LMIN LMAX",
	"zrange": "K:zset I I ( withscores )?", "zrevrange": "K:zset I I ( withscores )?",
	"zrangebylex": "K:zset LMIN LMAX ( limit I CNT )?", "zrangebyscore": "K:zset SMIN SMAX ( withscores )? ( limit I CNT )?",
	"zrevrangebyscore": "K:zset SMAX SMIN ( withscores )? ( limit I CNT )?", "zrank": "K:zset M", "zrevrank": "K:zset M",
	"zfixkey": "K:zset", "zadd": "K:zset ( SC M )+", "zincrby": "K:zset SC M", "zrem": "K:zset ( M )+",
	"zremrangebyrank": "K:zset I I", "zremrangebyscore": "K:zset SMIN SMAX", "zremrangebylex": "K:zset LMIN LMAX",
	"zclear": "K:zset",
	// set
	"scard": "K:set", "sismember": "K:set M", "smembers": "K:set", "srandmember": "K:set ( CNT )?", "spop": "K:set ( CNT )?",
	"sadd": "K:set ( M )+", "srem": "K:set ( M )+", "sclear": "K:set",
	// ttl
	"ttl": "K:kv", "httl": "K:hash", "lttl": "K:list", "sttl": "K:set", "zttl": "K:zset", "bttl": "K:bit",
	"hkeyexist": "K:hash", "lkeyexist": "K:list", "skeyexist": "K:set", "zkeyexist": "K:zset", "bkeyexist": "K:bit",
	"setex": "K:kv TTL V", "expire": "K:kv TTL", "hexpire": "K:hash TTL", "lexpire": "K:list TTL", "sexpire": "K:set TTL",
	"zexpire": "K:zset TTL", "bexpire": "K:bit TTL",
	"persist": "K:kv", "hpersist": "K:hash", "lpersist": "K:list", "spersist": "K:set", "zpersist": "K:zset", "bpersist": "K:bit",
	// in-collection scans
	"hscan": "K:hash CURF ( match PAT )? ( count CNT )?", "sscan": "K:set CURF ( match PAT )? ( count CNT )?",
	"zscan": "K:zset CURF ( match PAT )? ( count CNT )?", "hrevscan": "K:hash CURF ( match PAT )? ( count CNT )?",
	"srevscan": "K:set CURF ( match PAT )? ( count CNT )?", "zrevscan": "K:zset CURF ( match PAT )? ( count CNT )?",
	// geo (stored as zset)
	"geoadd": "K:geo ( LON LAT M )+", "geohash": "K:geo ( M )+", "geodist": "K:geo M M ( UNIT )?", "geopos": "K:geo ( M )+",
	"georadius":         "K:geo LON LAT RAD UNIT ( withdist )? ( withcoord )? ( count CNT )? ( asc )?",
	"georadiusbymember": "K:geo M RAD UNIT ( withdist )? ( count CNT )? ( desc )?",
	// merge commands
	"scan": "CUR:kv ( match PAT )? ( count CNT )?", "revscan": "CUR:kv ( match PAT )? ( count CNT )?",
	"advscan": "CUR:any TYPE ( match PAT )? ( count CNT )?", "advrevscan": "CUR:any TYPE ( match PAT )? ( count CNT )?",
	"fullscan":  "CUR:any TYPE ( match PAT )? ( count CNT )?",
	"hidx.from": "TBL where COND ( limit I CNT )? ( hget $ F )?",
	"exists":    "K:kv ( K:kv )?", "del": "K:kv ( K:kv )?", "plset": "( K:kv V )+",
	// registered only as apply-side (internal) handlers: a client has no entry point, the server must say so
	"mset": "( K:kv V )+", "hmclear": "K:hash ( K:hash )?", "lmclear": "K:list ( K:list )?",
	"zmclear": "K:zset ( K:zset )?", "smclear": "K:set ( K:set )?",
	// registered only with the slow-limiter test switch
	"slowwrite1s_test": "K:kv V", "slowwrite100ms_test": "K:kv V", "slowwrite50ms_test": "K:kv V", "slowwrite5ms_test": "K:kv V",
	// server level
	"ping": "", "auth": "V", "info": "",
}

// volatileCmds set a TTL or dirty the HLL cache (flushed asynchronously): the
// engine content then changes on its own, so the raw-dump oracle is off in
// rounds that contain them.
var volatileCmds = map[string]bool{"setex": true, "expire": true, "hexpire": true, "lexpire": true, "sexpire": true,
	"zexpire": true, "bexpire": true, "pfadd": true, "set": true, "setifeq": true}

// cmdFamily groups commands so that twin rounds can focus on one data type.
func cmdFamily(name string) string {
	t := templates[name]
	switch {
	case volatileCmds[name] || name == "pfcount" || strings.HasSuffix(name, "ttl") || strings.HasSuffix(name, "persist"):
		return "volatile"
	case strings.Contains(t, "K:hash") || name == "hidx.from":
		return "hash"
	case strings.Contains(t, "K:list"):
		return "list"
	case strings.Contains(t, "K:zset") || strings.Contains(t, "K:geo"):
		return "zset"
	case strings.Contains(t, "K:set"):
		return "set"
	case strings.Contains(t, "K:json"):
		return "json"
	case strings.Contains(t, "K:bit"):
		return "bitmap"
	default:
		return "kv"
	}
}

// GenCmd is one generated command.
type GenCmd struct {
	Name string   // registered (lower-case) name this command was derived from
	Kind string   // mutation kind ("valid" = unmutated template)
	Args [][]byte // argv as sent
}

type slot struct {
	kind string // DSL token, "lit" for literals, "name" for argv[0]
}

// Gen produces commands. Not safe for concurrent use.
type Gen struct {
	R          *rand.Rand
	Namespaces []string // namespaces hosted by the target server
	Tables     []string
	KeysPerTab int
	forceReps  int      // >0: every ( ... )+ group is repeated exactly that often
	forceOpt   int      // 1: every ( ... )? group present, -1: absent, 0: random
	Dict       []string // dictionary for the "dict" mutation kind
	Delims     []string // operators / delimiters for the "grammar" mutation kind
	AvoidKinds map[string]bool
	// BigBudget bounds how many arguments above 16 KiB this generator still
	// produces (they dominate the WAL / engine / log volume); afterwards the
	// "big" kinds use 10241 bytes, just above the key and sub-key limits.
	BigBudget int
}

func NewGen(r *rand.Rand, namespaces []string) *Gen {
	return &Gen{R: r, Namespaces: namespaces, Tables: []string{"t0", "t1"}, KeysPerTab: 4, BigBudget: 60}
}

func (g *Gen) pick(xs ...string) string { return xs[g.R.Intn(len(xs))] }

func (g *Gen) key(typ string) string {
	ns := g.Namespaces[g.R.Intn(len(g.Namespaces))]
	tb := g.Tables[g.R.Intn(len(g.Tables))]
	prefix := "k"
	if typ == "cnt" {
		prefix = "c"
	}
	return ns + ":" + tb + ":" + prefix + strconv.Itoa(g.R.Intn(g.KeysPerTab))
}

var bigValue = strings.Repeat("0123456789abcdef", 20)

func (g *Gen) token(tok string) string {
	switch {
	case strings.HasPrefix(tok, "K:"):
		return g.key(tok[2:])
	case strings.HasPrefix(tok, "CUR:"):
		ns := g.Namespaces[g.R.Intn(len(g.Namespaces))]
		tb := g.Tables[g.R.Intn(len(g.Tables))]
		return ns + ":" + tb + ":" + g.pick("", "", "k1", "k")
	}
	switch tok {
	case "F":
		return g.pick("f0", "f1", "f2", "f3")
	case "FN":
		return g.pick("n0", "n1")
	case "M":
		return g.pick("m0", "m1", "m2", "m3", "m4", "m5")
	case "V":
		return g.pick("v", "", "value-with-some-length", "123456789", bigValue, "\x00\x01\xff")
	case "N":
		return g.pick("1", "7", "-3", "100000", "0")
	case "I":
		return g.pick("0", "1", "-1", "2", "-2", "100", "3")
	case "SC":
		return g.pick("1", "2.5", "-3", "0", "1000", "1")
	case "TTL":
		return "100000"
	case "BO":
		return g.pick("0", "7", "8", "100", "8191", "8192", "100000")
	case "BIT":
		return g.pick("0", "1", "1")
	case "OFF":
		return g.pick("0", "3", "10", "40")
	case "CNT":
		return g.pick("1", "2", "10", "100")
	case "CURF":
		return g.pick("", "", "f1", "m2")
	case "SMIN":
		return g.pick("-inf", "0", "(1", "-5", "1")
	case "SMAX":
		return g.pick("+inf", "5", "(1000", "2.5", "1000")
	case "LMIN":
		return g.pick("-", "[a", "(m1", "[m0")
	case "LMAX":
		return g.pick("+", "[z", "(m4", "[m5")
	case "LON":
		return g.pick("13.361389", "15.087269", "-122.4", "0")
	case "LAT":
		return g.pick("38.115556", "37.502669", "37.8", "0")
	case "RAD":
		return g.pick("200", "1", "100000")
	case "UNIT":
		return g.pick("m", "km", "mi", "ft")
	case "PATH":
		return g.pick(".", "a", "arr", "arr.0", "o.x", "s")
	case "JSON":
		return g.pick(`{"a":1,"arr":[1,2,3],"o":{"x":true},"s":"str"}`, `1`, `"str"`, `[1,2,3]`, `{"arr":[]}`, `null`)
	case "TYPE":
		return g.pick("KV", "HASH", "LIST", "SET", "ZSET")
	case "PAT":
		return g.pick("*", "k*", "?0", "f[01]", "m*")
	case "OLDV":
		return g.pick("v", "", "123456789", "value-with-some-length")
	case "TBL":
		return g.Namespaces[g.R.Intn(len(g.Namespaces))] + ":" + g.Tables[g.R.Intn(len(g.Tables))]
	case "COND":
		return g.pick(`"f0=v"`, `"n0>1"`, `"n0 > 1 and n0 < 100"`, `"n0<=100"`, `"f1=123456789"`, `"n0 >= 1 and n0 <= 5"`)
	}
	return tok // literal
}

// expand walks the DSL and returns argv (without name) and the slot kinds.
func (g *Gen) expand(t string) ([]string, []slot) {
	toks := strings.Fields(t)
	var out []string
	var kinds []slot
	var walk func(i int, emit bool) int
	walk = func(i int, emit bool) int {
		for i < len(toks) {
			tok := toks[i]
			switch {
			case tok == "(":
				// find the matching close to learn the suffix
				depth, j := 1, i+1
				for ; j < len(toks); j++ {
					if toks[j] == "(" {
						depth++
					} else if strings.HasPrefix(toks[j], ")") {
						depth--
						if depth == 0 {
							break
						}
					}
				}
				reps := 1
				if toks[j] == ")?" {
					reps = g.R.Intn(2)
					if g.forceOpt != 0 {
						reps = (g.forceOpt + 1) / 2
					}
				} else if toks[j] == ")+" {
					reps = 1 + g.R.Intn(3)
					if g.forceReps > 0 {
						reps = g.forceReps
					}
				}
				if !emit {
					reps = 0
				}
				for k := 0; k < reps; k++ {
					walk(i+1, true)
				}
				i = j + 1
			case strings.HasPrefix(tok, ")"):
				return i
			default:
				if emit {
					v := g.token(tok)
					out = append(out, v)
					if v == tok && tok == strings.ToLower(tok) && !strings.Contains(tok, ":") {
						kinds = append(kinds, slot{"lit"})
					} else {
						kinds = append(kinds, slot{tok})
					}
				}
				i++
			}
		}
		return i
	}
	walk(0, true)
	return out, kinds
}

// Valid returns the unmutated template instance of a command name.
func (g *Gen) Valid(name string) (GenCmd, []slot, bool) {
	t, ok := templates[name]
	if !ok {
		return GenCmd{}, nil, false
	}
	args, kinds := g.expand(t)
	argv := make([][]byte, 0, len(args)+1)
	argv = append(argv, []byte(name))
	for _, a := range args {
		argv = append(argv, []byte(a))
	}
	return GenCmd{Name: name, Kind: "valid", Args: argv}, append([]slot{{"name"}}, kinds...), true
}

var hostileNumbers = []string{"-1", "0", "1", "9223372036854775807", "9223372036854775808", "-9223372036854775808",
	"-9223372036854775809", "1e400", "-1e400", "1 ", " 1", "0x10", "NaN", "nan", "inf", "-inf", "+inf", "Infinity", "1.5", "1e3", "",
	"4294967295", "4294967296", "4294967294", "2147483647", "2147483648", "-2147483648", "-2147483649", "18446744073709551615",
	"16777215", "16777216", "16777217", "00000000000000000001", "+5", "--5", "1_000", "١٢٣"}

var hostileCounts = []string{"-1", "0", "-2147483648", "2147483647", "2147483648", "4294967296", "9223372036854775807", "-9223372036854775808", "1000000000", "5001"}

var optionWords = []string{"EX", "PX", "NX", "XX", "MATCH", "COUNT", "WITHSCORES", "LIMIT", "ex", "match", "count", "withscores", "limit",
	"WITHDIST", "WITHCOORD", "ASC", "DESC", "STORE", "where", "GET", "KEEPTTL"}

var sepKeys = []string{":", "::", ":::", "ns:", "ns::", ":t:k", "::k", "fz:", "fz::", "fz:t0", "fz:t0:", "fz::k", "one:", "one:t0:", "nokey", ""}

// "tailbad": a multi-element write whose LAST element is invalid while the
// earlier ones are fine (the shape that exposes partial writes: the earlier
// elements are already in the write batch when the command fails).
var mutationKinds = []string{"tailbad", "bintable", "dict", "grammar", "drop", "dropall", "dup", "swap", "shuffle", "empty", "nul", "ff", "crlf", "big64k", "big70k", "longkey", "longfield",
	"nons", "notable", "seps", "num", "numslot", "bitoff", "count", "opt", "case", "stale", "extra", "manyargs", "wrongns", "combo"}

func isNumericSlot(k string) bool {
	switch k {
	case "N", "I", "SC", "TTL", "BO", "BIT", "OFF", "CNT", "SMIN", "SMAX", "LON", "LAT", "RAD":
		return true
	}
	return false
}

// Mutate applies one named mutation to a valid command.
func (g *Gen) Mutate(c GenCmd, kinds []slot, kind string) GenCmd {
	args := make([][]byte, len(c.Args))
	for i, a := range c.Args {
		args[i] = append([]byte(nil), a...)
	}
	r := g.R
	pos := func() int { // a non-name position (0 if there is none)
		if len(args) <= 1 {
			return 0
		}
		return 1 + r.Intn(len(args)-1)
	}
	// npos prefers a position that is neither the name nor a key: leader-side
	// validation mostly looks at the key and the argument count, so that
	// value-level mutations are the ones that reach the apply handlers
	npos := func() int {
		var ks []int
		for i, s := range kinds {
			if i > 0 && i < len(args) && !strings.HasPrefix(s.kind, "K:") && !strings.HasPrefix(s.kind, "CUR:") && s.kind != "TBL" {
				ks = append(ks, i)
			}
		}
		if len(ks) == 0 || r.Intn(10) < 3 {
			return pos()
		}
		return ks[r.Intn(len(ks))]
	}
	keyPos := func() int {
		var ks []int
		for i, s := range kinds {
			if i < len(args) && (strings.HasPrefix(s.kind, "K:") || strings.HasPrefix(s.kind, "CUR:") || s.kind == "TBL") {
				ks = append(ks, i)
			}
		}
		if len(ks) == 0 {
			return pos()
		}
		return ks[r.Intn(len(ks))]
	}
	slotPos := func(pred func(string) bool) int {
		var ks []int
		for i, s := range kinds {
			if i < len(args) && i > 0 && pred(s.kind) {
				ks = append(ks, i)
			}
		}
		if len(ks) == 0 {
			return pos()
		}
		return ks[r.Intn(len(ks))]
	}
	set := func(i int, v []byte) {
		if i > 0 && i < len(args) {
			args[i] = v
		}
	}
	fill := func(n int, b byte) []byte {
		if n > 16<<10 {
			if g.BigBudget <= 0 {
				n = 10241
			} else {
				g.BigBudget--
			}
		}
		out := make([]byte, n)
		for i := range out {
			out[i] = b
		}
		return out
	}
	nsOf := func(k []byte) (string, string) {
		s := string(k)
		if i := strings.IndexByte(s, ':'); i >= 0 {
			return s[:i], s[i+1:]
		}
		return "", s
	}
	switch kind {
	case "tailbad":
		// corrupt the last element only
		done := false
		for i := len(args) - 1; i >= 1 && i >= len(args)-3 && !done; i-- {
			k := ""
			if i < len(kinds) {
				k = kinds[i].kind
			}
			switch {
			case k == "F" || k == "M" || k == "FN":
				set(i, fill(10241+r.Intn(3)*30000, 'f'))
				done = true
			case isNumericSlot(k):
				set(i, []byte(g.pick("x1", "", "1e400", "NaN", "9223372036854775808", "1 ")))
				done = true
			case k == "JSON":
				set(i, []byte(g.pick("{bad", "", "[1,", "nul")))
				done = true
			case strings.HasPrefix(k, "K:"):
				set(i, []byte(g.pick(string(args[i])+string(fill(10241, 'k')), "nokeysep", "fz:", string(args[i][:bytesIndexOrLen(args[i], ':')])+":notable")))
				done = true
			}
		}
		if !done {
			set(len(args)-1, fill(10241, 'f'))
		}
	case "grammar":
		// structure-aware: an argument that carries a small grammar, re-assembled
		// from its own operators and delimiters
		if i := slotPos(isGrammarSlot); i > 0 {
			vs := GrammarVariants(string(args[i]), g.delims())
			if len(vs) > 0 {
				v := vs[r.Intn(len(vs))]
				if r.Intn(12) == 0 {
					v = string(fill(20000, 'g')) + v // very long operand
				}
				set(i, []byte(v))
			}
		}
	case "dict":
		// a magic string of the tree's own sources, mostly where the server parses at apply time
		if len(g.Dict) > 0 {
			vs := dictVariants(g.Dict[r.Intn(len(g.Dict))])
			v := vs[r.Intn(len(vs))]
			i := pos()
			if r.Intn(10) < 6 {
				i = slotPos(func(k string) bool {
					return isNumericSlot(k) || k == "PATH" || k == "JSON" || k == "OLDV" || k == "TYPE" || k == "UNIT" || k == "lit"
				})
			}
			set(i, []byte(v))
		}
	case "bintable":
		// the table part of the key becomes bytes that are not valid UTF-8 (ns and key stay)
		i := keyPos()
		if i > 0 {
			ns, rest := nsOf(args[i])
			key := ""
			if j := strings.IndexByte(rest, ':'); j >= 0 {
				key = rest[j:]
			}
			set(i, []byte(ns+":"+g.pick("\xff\xfe", "t\xc3(", "\x80", "\xf0\x28\x8c\x28", "t0\xff")+key))
		}
	case "drop":
		if len(args) > 1 {
			i := pos()
			args = append(args[:i], args[i+1:]...)
		}
	case "dropall":
		args = args[:1]
	case "dup":
		if len(args) > 1 {
			i := pos()
			args = append(args[:i+1], args[i:]...)
		}
	case "swap":
		if len(args) > 2 {
			i, j := pos(), pos()
			args[i], args[j] = args[j], args[i]
		}
	case "shuffle":
		if len(args) > 2 {
			r.Shuffle(len(args)-1, func(i, j int) { args[i+1], args[j+1] = args[j+1], args[i+1] })
		}
	case "empty":
		set(npos(), []byte{})
	case "nul":
		i := npos()
		if i > 0 {
			switch r.Intn(3) {
			case 0:
				set(i, []byte{0})
			case 1:
				set(i, append(args[i], 0))
			default:
				set(i, append([]byte{0}, args[i]...))
			}
		}
	case "ff":
		i := npos()
		if i > 0 {
			switch r.Intn(3) {
			case 0:
				set(i, []byte{0xff})
			case 1:
				set(i, append(args[i], 0xff, 0xff))
			default:
				set(i, fill(9, 0xff))
			}
		}
	case "crlf":
		i := npos()
		if i > 0 {
			set(i, append(args[i], []byte(g.pick("\n", "\r\n", "\r\n+OK\r\n"))...))
		}
	case "big64k":
		set(npos(), fill(65536, 'x'))
	case "big70k":
		// larger than every sub-key limit, in a non-key position if there is one
		set(slotPos(func(k string) bool { return !strings.HasPrefix(k, "K:") && !strings.HasPrefix(k, "CUR:") }), fill(70000, 'y'))
	case "longkey":
		i := keyPos()
		if i > 0 {
			n := []int{10230, 10240, 10241, 10300, 70000}[r.Intn(5)]
			set(i, append(args[i], fill(n-len(args[i]), 'k')...))
		}
	case "longfield":
		i := slotPos(func(k string) bool { return k == "F" || k == "M" || k == "FN" || k == "PATH" || k == "CURF" })
		n := []int{10239, 10240, 10241, 20000}[r.Intn(4)]
		set(i, fill(n, 'f'))
	case "nons":
		i := keyPos()
		if i > 0 {
			_, rest := nsOf(args[i])
			set(i, []byte(rest))
		}
	case "notable":
		i := keyPos()
		if i > 0 {
			ns, rest := nsOf(args[i])
			if j := strings.IndexByte(rest, ':'); j >= 0 {
				rest = rest[j+1:]
			}
			set(i, []byte(ns+":"+rest))
		}
	case "seps":
		set(keyPos(), []byte(sepKeys[r.Intn(len(sepKeys))]))
	case "num":
		set(npos(), []byte(hostileNumbers[r.Intn(len(hostileNumbers))]))
	case "numslot":
		set(slotPos(isNumericSlot), []byte(hostileNumbers[r.Intn(len(hostileNumbers))]))
	case "bitoff":
		set(slotPos(func(k string) bool { return k == "BO" || k == "OFF" || k == "I" }),
			[]byte(g.pick("16777215", "16777216", "16777217", "4294967294", "4294967295", "4294967296", "134217727", "134217728", "2147483647", "536870911", "536870912")))
	case "count":
		set(slotPos(func(k string) bool { return k == "CNT" || k == "I" || k == "N" }), []byte(hostileCounts[r.Intn(len(hostileCounts))]))
	case "opt":
		w := []byte(optionWords[r.Intn(len(optionWords))])
		i := 1
		if len(args) > 1 {
			i = 1 + r.Intn(len(args))
		}
		ins := [][]byte{w}
		if r.Intn(2) == 0 {
			ins = append(ins, []byte(g.pick("1", "-1", "0", "x", "*", "100000")))
		}
		args = append(args[:i], append(ins, args[i:]...)...)
	case "case":
		n := []byte(strings.ToUpper(string(args[0])))
		if r.Intn(2) == 0 {
			for i := range n {
				if r.Intn(2) == 0 && n[i] >= 'A' && n[i] <= 'Z' {
					n[i] += 'a' - 'A'
				}
			}
		}
		args[0] = n
	case "stale":
		args[0] = append([]byte("stale."), args[0]...)
	case "extra":
		for k := 1 + r.Intn(3); k > 0; k-- {
			args = append(args, []byte(g.pick("x", "1", "", "f0", "count", "-1")))
		}
	case "manyargs":
		if len(args) > 1 && g.BigBudget > 0 {
			g.BigBudget--
			last := args[len(args)-1]
			for k := 0; k < 5003; k++ {
				args = append(args, last)
			}
		}
	case "wrongns":
		i := keyPos()
		if i > 0 {
			_, rest := nsOf(args[i])
			set(i, []byte(g.pick("nosuchns", "fz-0", "FZ", "fz ", "one-0")+":"+rest))
		}
	case "combo":
		k1 := mutationKinds[r.Intn(len(mutationKinds)-1)]
		for tries := 0; g.AvoidKinds[k1] && tries < 50; tries++ {
			k1 = mutationKinds[r.Intn(len(mutationKinds)-1)]
		}
		c1 := g.Mutate(GenCmd{Name: c.Name, Args: args}, kinds, k1)
		// slot kinds no longer line up after the first mutation: use positional ones only
		c2 := g.Mutate(c1, nil, g.pick("drop", "dup", "swap", "empty", "nul", "num", "opt", "case", "extra", "big64k"))
		return GenCmd{Name: c.Name, Kind: "combo", Args: c2.Args}
	}
	return GenCmd{Name: c.Name, Kind: kind, Args: args}
}

// value-level kinds are drawn more often than the key-destroying ones
var weightedKinds = func() []string {
	heavy := map[string]int{"tailbad": 4, "dict": 3, "grammar": 4, "num": 3, "numslot": 4, "bitoff": 2, "count": 3, "big70k": 2, "longfield": 2, "empty": 2, "nul": 2, "ff": 2, "dup": 2, "opt": 2, "extra": 2, "swap": 2, "combo": 2}
	var out []string
	for _, k := range mutationKinds {
		n := heavy[k]
		if n == 0 {
			n = 1
		}
		for i := 0; i < n; i++ {
			out = append(out, k)
		}
	}
	return out
}()

// Hostile returns a mutated instance of the named command.
func (g *Gen) Hostile(name string) (GenCmd, bool) {
	kind := weightedKinds[g.R.Intn(len(weightedKinds))]
	// bintable (table name not valid UTF-8) hits a listed known finding that
	// kills the server within seconds: keep it rare
	for tries := 0; (g.AvoidKinds[kind] || (kind == "bintable" && g.R.Intn(4) != 0)) && tries < 50; tries++ {
		kind = weightedKinds[g.R.Intn(len(weightedKinds))]
	}
	if kind == "grammar" && !templateHasGrammar(templates[name]) {
		for kind == "grammar" || kind == "tailbad" || g.AvoidKinds[kind] {
			kind = weightedKinds[g.R.Intn(len(weightedKinds))]
		}
	}
	if kind == "tailbad" {
		if !strings.Contains(templates[name], ")+") {
			for kind == "tailbad" || g.AvoidKinds[kind] {
				kind = weightedKinds[g.R.Intn(len(weightedKinds))]
			}
		} else {
			g.forceReps = 2 + g.R.Intn(2)
		}
	}
	v, kinds, ok := g.Valid(name)
	g.forceReps = 0
	if !ok {
		return GenCmd{}, false
	}
	return g.Mutate(v, kinds, kind), true
}

func templateHasGrammar(t string) bool {
	for _, tok := range strings.Fields(t) {
		if isGrammarSlot(tok) {
			return true
		}
	}
	return false
}

func (g *Gen) delims() []string {
	if len(g.Delims) > 0 {
		return g.Delims
	}
	return baseDelims
}

func bytesIndexOrLen(b []byte, c byte) int {
	for i, x := range b {
		if x == c {
			return i
		}
	}
	return len(b)
}

// stateBuilders are the valid writes that build up prior state of every type.
var stateBuilders = []string{"set", "setex", "incr", "incrby", "append", "setbitv2", "pfadd", "hset", "hmset", "hincrby", "lpush", "rpush",
	"sadd", "zadd", "zincrby", "geoadd", "json.set", "json.arrappend", "expire", "hexpire", "zexpire", "del", "hdel", "lpop", "srem", "zrem",
	"setrange", "getset", "setnx", "hsetnx", "lset", "ltrim", "spop", "persist", "sclear", "hclear", "lclear", "zclear", "bitclear"}

// isWriteKind tells whether the registration kinds contain a client-reachable write.
func isWriteKind(kinds []string) bool {
	for _, k := range kinds {
		if k == "write" || k == "writemerge" {
			return true
		}
	}
	return false
}

// PrePhase is the systematic part sent before the random phase:
// (1) argument counts, exhaustively: for every name, for a minimal and a
// maximal valid instance of its template, every proper prefix (1..n-1
// arguments) and the instance plus one extra argument, all other values valid;
// (2) the strict dictionary (literals of the tree's text classifiers) in every
// argument position of every client-reachable write command.
func (g *Gen) PrePhase(names []RegisteredCmd, strict []string, avoid func(string) bool) []GenCmd {
	var out []GenCmd
	seen := map[string]bool{}
	add := func(c GenCmd) {
		if g.AvoidKinds[c.Kind] {
			return // this systematic kind killed an earlier child of the run
		}
		k := c.Name
		for _, a := range c.Args {
			k += "\x00" + string(a)
		}
		if !seen[k] {
			seen[k] = true
			out = append(out, c)
		}
	}
	cp := func(a [][]byte) [][]byte { return append([][]byte(nil), a...) }
	for _, rc := range names {
		if _, skip := skippedCommands[rc.Name]; skip || avoid(rc.Name) {
			continue
		}
		if _, ok := templates[rc.Name]; !ok {
			continue
		}
		for _, mode := range []struct{ opt, reps int }{{-1, 1}, {1, 2}} {
			g.forceOpt, g.forceReps = mode.opt, mode.reps
			v, kinds, _ := g.Valid(rc.Name)
			g.forceOpt, g.forceReps = 0, 0
			for n := 1; n < len(v.Args); n++ {
				add(GenCmd{Name: rc.Name, Kind: "argc-prefix", Args: cp(v.Args[:n])})
			}
			extra := []byte("x")
			if len(v.Args) > 1 {
				extra = v.Args[len(v.Args)-1]
			}
			add(GenCmd{Name: rc.Name, Kind: "argc-extra", Args: append(cp(v.Args), extra)})
			// (3) grammar: every structure-aware variant once per grammar-bearing position
			{
				// (on the instance without and on the one with the optional groups:
				// an option can make an earlier layer refuse the command)
				g.forceOpt = mode.opt
				gv, gk, _ := g.Valid(rc.Name)
				g.forceOpt = 0
				doneSlot := map[string]bool{}
				for i := 1; i < len(gv.Args) && i < len(gk); i++ {
					if !isGrammarSlot(gk[i].kind) || doneSlot[gk[i].kind] {
						continue
					}
					doneSlot[gk[i].kind] = true
					vs := GrammarVariants(string(gv.Args[i]), g.delims())
					if gk[i].kind != "COND" && len(vs) > 45 {
						// the delimiter-only tail is long: keep the structural head and a spread of the rest
						head, rest := vs[:30], vs[30:]
						for j := 0; j < len(rest); j += maxInt(1, len(rest)/15) {
							head = append(head, rest[j])
						}
						vs = head
					}
					for _, x := range vs {
						a := cp(gv.Args)
						a[i] = []byte(x)
						add(GenCmd{Name: rc.Name, Kind: "grammar-sys", Args: a})
					}
				}
			}
			if !isWriteKind(rc.Kinds) {
				continue
			}
			for i := 1; i < len(v.Args) && i < len(kinds); i++ {
				k := kinds[i].kind
				parsed := isNumericSlot(k) || k == "PATH" || k == "JSON" || k == "OLDV"
				if strings.HasPrefix(k, "K:") && i == 1 {
					continue // the routing key: a dictionary string there is just an invalid key
				}
				for _, lit := range strict {
					vs := dictVariants(lit)
					if !parsed {
						vs = vs[:1]
					}
					for _, dv := range vs {
						a := cp(v.Args)
						a[i] = []byte(dv)
						add(GenCmd{Name: rc.Name, Kind: "dict-sys", Args: a})
					}
				}
			}
		}
	}
	return out
}
