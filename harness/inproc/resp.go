package inproc

// Minimal RESP client and an in-memory redcon.Conn recorder. The fuzzing
// checks need full control over the bytes of every argument, over commands
// that answer with zero or several replies (PLSET) and over timeouts, which
// the pooled client libraries do not give.

import (
	"bufio"
	"bytes"
	"errors"
	"fmt"
	"io"
	"net"
	"strconv"
	"strings"
	"time"

	"github.com/absolute8511/redcon"
)

// Reply is one decoded RESP value.
type Reply struct {
	Kind byte // '+' status, '-' error, ':' int, '$' bulk, '*' array, 'n' nil
	Str  []byte
	Int  int64
	Arr  []Reply
}

func (r Reply) IsErr() bool { return r.Kind == '-' }
func (r Reply) IsNil() bool { return r.Kind == 'n' }

// String renders a reply canonically (used for comparisons and witnesses).
func (r Reply) String() string {
	switch r.Kind {
	case '+':
		return "+" + string(r.Str)
	case '-':
		return "-" + string(r.Str)
	case ':':
		return ":" + strconv.FormatInt(r.Int, 10)
	case '$':
		return "$" + strconv.Quote(string(r.Str))
	case 'n':
		return "nil"
	case '*':
		var sb strings.Builder
		sb.WriteString("[")
		for i, e := range r.Arr {
			if i > 0 {
				sb.WriteString(" ")
			}
			sb.WriteString(e.String())
		}
		sb.WriteString("]")
		return sb.String()
	}
	return "?"
}

// Short is String() cut to n bytes.
func (r Reply) Short(n int) string {
	s := r.String()
	if len(s) > n {
		return s[:n] + fmt.Sprintf("...(%d bytes)", len(s))
	}
	return s
}

func readReply(br *bufio.Reader) (Reply, error) {
	line, err := br.ReadBytes('\n')
	if err != nil {
		return Reply{}, err
	}
	// The server echoes raw key bytes in error messages; a key containing a
	// lone '\n' therefore yields an error line with an embedded newline. Keep
	// reading until the CRLF terminator. (A key containing CRLF itself splits
	// the reply for good; callers treat the resulting parse error as a
	// protocol desync and reconnect.)
	for len(line) > 0 && line[0] == '-' && (len(line) < 2 || line[len(line)-2] != '\r') {
		more, err := br.ReadBytes('\n')
		if err != nil {
			return Reply{}, err
		}
		line = append(line, more...)
	}
	if len(line) < 3 || line[len(line)-2] != '\r' {
		return Reply{}, fmt.Errorf("resp: malformed line %q", line)
	}
	body := line[1 : len(line)-2]
	switch line[0] {
	case '+':
		return Reply{Kind: '+', Str: append([]byte(nil), body...)}, nil
	case '-':
		return Reply{Kind: '-', Str: append([]byte(nil), body...)}, nil
	case ':':
		n, err := strconv.ParseInt(string(body), 10, 64)
		if err != nil {
			return Reply{}, fmt.Errorf("resp: bad int %q", body)
		}
		return Reply{Kind: ':', Int: n}, nil
	case '$':
		n, err := strconv.Atoi(string(body))
		if err != nil {
			return Reply{}, fmt.Errorf("resp: bad bulk len %q", body)
		}
		if n < 0 {
			return Reply{Kind: 'n'}, nil
		}
		buf := make([]byte, n+2)
		if _, err := io.ReadFull(br, buf); err != nil {
			return Reply{}, err
		}
		return Reply{Kind: '$', Str: buf[:n]}, nil
	case '*':
		n, err := strconv.Atoi(string(body))
		if err != nil {
			return Reply{}, fmt.Errorf("resp: bad array len %q", body)
		}
		if n < 0 {
			return Reply{Kind: 'n'}, nil
		}
		r := Reply{Kind: '*', Arr: make([]Reply, 0, n)}
		for i := 0; i < n; i++ {
			e, err := readReply(br)
			if err != nil {
				return Reply{}, err
			}
			r.Arr = append(r.Arr, e)
		}
		return r, nil
	}
	return Reply{}, fmt.Errorf("resp: unknown type byte %q", line[0])
}

// EncodeCommand renders argv as a RESP array of bulk strings.
func EncodeCommand(args [][]byte) []byte {
	var b bytes.Buffer
	b.WriteByte('*')
	b.WriteString(strconv.Itoa(len(args)))
	b.WriteString("\r\n")
	for _, a := range args {
		b.WriteByte('$')
		b.WriteString(strconv.Itoa(len(a)))
		b.WriteString("\r\n")
		b.Write(a)
		b.WriteString("\r\n")
	}
	return b.Bytes()
}

// Conn is a client connection.
type Conn struct {
	c       net.Conn
	br      *bufio.Reader
	Timeout time.Duration
}

func Dial(addr string, timeout time.Duration) (*Conn, error) {
	c, err := net.DialTimeout("tcp", addr, 5*time.Second)
	if err != nil {
		return nil, err
	}
	return &Conn{c: c, br: bufio.NewReaderSize(c, 64<<10), Timeout: timeout}, nil
}

func (c *Conn) Close() {
	if c != nil && c.c != nil {
		c.c.Close()
	}
}

func (c *Conn) Send(args [][]byte) error {
	c.c.SetWriteDeadline(time.Now().Add(c.Timeout))
	_, err := c.c.Write(EncodeCommand(args))
	return err
}

func (c *Conn) SendRaw(b []byte) error {
	c.c.SetWriteDeadline(time.Now().Add(c.Timeout))
	_, err := c.c.Write(b)
	return err
}

func (c *Conn) Read() (Reply, error) {
	c.c.SetReadDeadline(time.Now().Add(c.Timeout))
	return readReply(c.br)
}

// Do sends one command and reads exactly one reply.
func (c *Conn) Do(args ...[]byte) (Reply, error) {
	if err := c.Send(args); err != nil {
		return Reply{}, err
	}
	return c.Read()
}

// DoS is Do with string arguments.
func (c *Conn) DoS(args ...string) (Reply, error) {
	return c.Do(B(args...)...)
}

var errTimeout = errors.New("timeout")

func isTimeout(err error) bool {
	if err == nil {
		return false
	}
	if ne, ok := err.(net.Error); ok && ne.Timeout() {
		return true
	}
	return false
}

// DoFramed sends the command followed by a PING in one write and returns all
// replies that arrive before the PONG. This frames commands that answer with
// zero replies (PLSET key) or with one reply per pair (PLSET k v k v): the
// server handles the commands of one connection strictly in order and no data
// command answers with the status string PONG.
func (c *Conn) DoFramed(args [][]byte) ([]Reply, error) {
	buf := EncodeCommand(args)
	buf = append(buf, "*1\r\n$4\r\nPING\r\n"...)
	if err := c.SendRaw(buf); err != nil {
		return nil, err
	}
	var out []Reply
	for {
		r, err := c.Read()
		if err != nil {
			return out, err
		}
		if r.Kind == '+' && string(r.Str) == "PONG" {
			return out, nil
		}
		out = append(out, r)
		if len(out) > 20000 {
			return out, errors.New("resp: no PONG sentinel after 20000 replies")
		}
	}
}

// B converts strings to argv.
func B(args ...string) [][]byte {
	out := make([][]byte, len(args))
	for i, a := range args {
		out[i] = []byte(a)
	}
	return out
}

// ---------------------------------------------------------------------------

// recConn records what a handler writes; it implements redcon.Conn so that the
// real read / merge handlers of one partition's KVNode can be invoked
// in-process.
type recConn struct {
	buf    bytes.Buffer
	closed bool
	ctx    interface{}
}

func (r *recConn) RemoteAddr() string { return "verif-inproc" }
func (r *recConn) Close() error       { r.closed = true; return nil }
func (r *recConn) WriteError(msg string) {
	r.buf.WriteByte('-')
	r.buf.WriteString(strings.NewReplacer("\r", " ", "\n", " ").Replace(msg))
	r.buf.WriteString("\r\n")
}
func (r *recConn) WriteString(str string) {
	r.buf.WriteByte('+')
	r.buf.WriteString(strings.NewReplacer("\r", " ", "\n", " ").Replace(str))
	r.buf.WriteString("\r\n")
}
func (r *recConn) WriteBulk(bulk []byte) {
	r.buf.WriteByte('$')
	r.buf.WriteString(strconv.Itoa(len(bulk)))
	r.buf.WriteString("\r\n")
	r.buf.Write(bulk)
	r.buf.WriteString("\r\n")
}
func (r *recConn) WriteBulkString(bulk string) { r.WriteBulk([]byte(bulk)) }
func (r *recConn) WriteInt(num int)            { r.WriteInt64(int64(num)) }
func (r *recConn) WriteInt64(num int64) {
	r.buf.WriteByte(':')
	r.buf.WriteString(strconv.FormatInt(num, 10))
	r.buf.WriteString("\r\n")
}
func (r *recConn) WriteArray(count int) {
	r.buf.WriteByte('*')
	r.buf.WriteString(strconv.Itoa(count))
	r.buf.WriteString("\r\n")
}
func (r *recConn) WriteNull()                     { r.buf.WriteString("$-1\r\n") }
func (r *recConn) WriteRaw(data []byte)           { r.buf.Write(data) }
func (r *recConn) Context() interface{}           { return r.ctx }
func (r *recConn) SetContext(v interface{})       { r.ctx = v }
func (r *recConn) SetReadBuffer(bytes int)        {}
func (r *recConn) Detach() redcon.DetachedConn    { return nil }
func (r *recConn) ReadPipeline() []redcon.Command { return nil }
func (r *recConn) PeekPipeline() []redcon.Command { return nil }
func (r *recConn) NetConn() net.Conn              { return nil }
func (r *recConn) Flush() error                   { return nil }

// replies decodes everything the handler wrote.
func (r *recConn) replies() ([]Reply, error) {
	br := bufio.NewReader(bytes.NewReader(r.buf.Bytes()))
	var out []Reply
	for {
		if _, err := br.Peek(1); err != nil {
			return out, nil
		}
		rp, err := readReply(br)
		if err != nil {
			return out, err
		}
		out = append(out, rp)
	}
}

// buildRedconCommand makes the redcon.Command a handler expects (fresh copies:
// handlers rewrite Args in place).
func buildRedconCommand(args [][]byte) redcon.Command {
	cp := make([][]byte, len(args))
	for i, a := range args {
		cp[i] = append([]byte(nil), a...)
	}
	return redcon.Command{Raw: EncodeCommand(cp), Args: cp}
}

// DoLone sends the command alone in one write (nothing pipelined behind it:
// the server refuses an explicit PLSET that has pipelined followers), waits
// for the first reply (or for quiet milliseconds without any: a command may
// legitimately be answered by nothing, e.g. PLSET with one argument), then
// frames the rest with a PING sentinel.
func (c *Conn) DoLone(args [][]byte, quiet time.Duration) ([]Reply, error) {
	if err := c.Send(args); err != nil {
		return nil, err
	}
	var out []Reply
	c.c.SetReadDeadline(time.Now().Add(quiet))
	if _, err := c.br.Peek(1); err != nil {
		if !isTimeout(err) {
			return nil, err
		}
	} else {
		r, err := c.Read()
		if err != nil {
			return out, err
		}
		out = append(out, r)
	}
	if err := c.SendRaw([]byte("*1\r\n$4\r\nPING\r\n")); err != nil {
		return out, err
	}
	for {
		r, err := c.Read()
		if err != nil {
			return out, err
		}
		if r.Kind == '+' && string(r.Str) == "PONG" {
			return out, nil
		}
		out = append(out, r)
		if len(out) > 20000 {
			return out, errors.New("resp: no PONG sentinel after 20000 replies")
		}
	}
}

// DoPipelinedSets writes k "SET key value" commands in ONE write, which is
// what makes the server fold them into its internal PLSET merge command
// (server/util.go pipelineCommand), and reads the k replies.
func (c *Conn) DoPipelinedSets(kv [][]byte) ([]Reply, error) {
	var buf []byte
	n := 0
	for i := 0; i+1 < len(kv); i += 2 {
		buf = append(buf, EncodeCommand([][]byte{[]byte("SET"), kv[i], kv[i+1]})...)
		n++
	}
	if err := c.SendRaw(buf); err != nil {
		return nil, err
	}
	out := make([]Reply, 0, n)
	for i := 0; i < n; i++ {
		r, err := c.Read()
		if err != nil {
			return out, err
		}
		out = append(out, r)
	}
	return out, nil
}

// DoPipelinedSetsFramed is DoPipelinedSets for pipelines the server may answer
// with fewer replies than SETs (a refused fold into PLSET is answered by one
// error): the SETs go out in one write, the first reply (or quiet ms of
// silence) is awaited, then a PING sentinel frames the rest.
func (c *Conn) DoPipelinedSetsFramed(kv [][]byte, quiet time.Duration) ([]Reply, error) {
	var buf []byte
	for i := 0; i+1 < len(kv); i += 2 {
		buf = append(buf, EncodeCommand([][]byte{[]byte("SET"), kv[i], kv[i+1]})...)
	}
	if err := c.SendRaw(buf); err != nil {
		return nil, err
	}
	var out []Reply
	c.c.SetReadDeadline(time.Now().Add(quiet))
	if _, err := c.br.Peek(1); err != nil {
		if !isTimeout(err) {
			return nil, err
		}
	} else {
		r, err := c.Read()
		if err != nil {
			return out, err
		}
		out = append(out, r)
	}
	if err := c.SendRaw([]byte("*1\r\n$4\r\nPING\r\n")); err != nil {
		return out, err
	}
	for {
		r, err := c.Read()
		if err != nil {
			return out, err
		}
		if r.Kind == '+' && string(r.Str) == "PONG" {
			return out, nil
		}
		out = append(out, r)
		if len(out) > 20000 {
			return out, errors.New("resp: no PONG sentinel after 20000 replies")
		}
	}
}
