package inproc

// Child process of C11 ("vcheck --child c11-server <conf.json>"): hosts real
// servers, generates the hostile commands and sends them to itself over TCP,
// so that the parent only supervises. Modes:
//   fuzz    liveness workload: K concurrent clients, command log written before each send
//   twin    no-partial-write differential on two identical servers
//   batch   candidate defect #2: failing batchable command vs concurrent SETs
//   canary  (re)start on an existing data directory and answer the canaries
//   replay  send a recorded command list, then the canaries

import (
	"bufio"
	"encoding/hex"
	"encoding/json"
	"fmt"
	"io/ioutil"
	"os"
	"path/filepath"
	"regexp"
	"runtime/pprof"
	"sort"
	"strconv"
	"strings"
	"sync"
	"sync/atomic"
	"time"

	zanredisdb "github.com/youzan/go-zanredisdb"

	"github.com/youzan/ZanRedisDB/node"

	"verif/harness/vc"
)

func init() {
	vc.RegisterChild("c11-server", c11ChildMain)
}

type childConf struct {
	Mode       string           `json:"mode"`
	Dir        string           `json:"dir"` // work dir of this child: data/, cmdlog-*.jsonl, result.json
	Seed       int64            `json:"seed"`
	Index      int              `json:"index"`
	Engine     string           `json:"engine"`
	Names      []RegisteredCmd  `json:"names"`
	Clients    int              `json:"clients,omitempty"`
	PerConn    int              `json:"cmds_per_client,omitempty"`
	Workers    int              `json:"twin_workers,omitempty"`
	Rounds     int              `json:"twin_rounds,omitempty"`
	Cases      int              `json:"twin_cases,omitempty"`
	Replay     [][]string       `json:"replay,omitempty"` // encoded argv list
	BatchN     int              `json:"batch_rounds,omitempty"`
	SnapCnt    int              `json:"snap_count,omitempty"`
	ExpPol     string           `json:"exp_policy,omitempty"`
	DataVer    string           `json:"data_version,omitempty"`
	Canaries   map[string]int64 `json:"canaries,omitempty"`
	ReplayNS   string           `json:"replay_ns,omitempty"`
	Avoid      []string         `json:"avoid,omitempty"`       // command names left out (they killed an earlier child)
	AvoidKinds []string         `json:"avoid_kinds,omitempty"` // mutation kinds left out
	Dict       Dictionary       `json:"dict"`
	Delims     []string         `json:"delims,omitempty"`
	HoldS      int              `json:"hold_s,omitempty"` // replay: keep the server running that long before the final canaries (periodic loops: metrics every 10 s)
	BadIndex   int              `json:"bad_index,omitempty"`
}

type childViolation struct {
	Signature string      `json:"signature"`
	Summary   string      `json:"summary"`
	Witness   interface{} `json:"witness"`
}

type childResult struct {
	Done         bool             `json:"done"`
	Mode         string           `json:"mode"`
	Counters     map[string]int64 `json:"counters"`
	PerName      map[string]int64 `json:"per_name"`
	ErrClasses   map[string]int64 `json:"err_classes"` // "name|class"
	Applied      map[string]int64 `json:"applied"`     // "name|kind" that reached the apply path
	ConnClosed   map[string]int64 `json:"conn_closed"` // by command name: connection closed by the server, process alive
	Violations   []childViolation `json:"violations"`
	Inconclusive []string         `json:"inconclusive"`
	Canaries     map[string]int64 `json:"canaries"`
	Samples      []interface{}    `json:"samples"`
	WallS        float64          `json:"wall_s"`
	MemBomb      *stallInfo       `json:"mem_bomb,omitempty"`
	Stall        *stallInfo       `json:"stall,omitempty"`
	MaxRSSMiB    int64            `json:"max_rss_mib"`
	SlowCmds     []string         `json:"slow_cmds,omitempty"` // not answered within cmdTimeout, answered later (server recovered)
}

type childState struct {
	start time.Time
	conf  childConf
	mu    sync.Mutex
	res   childResult
}

func (s *childState) avoided(name string) bool {
	for _, a := range s.conf.Avoid {
		if a == name {
			return true
		}
	}
	return false
}

func (s *childState) avoidKinds() map[string]bool {
	m := map[string]bool{}
	for _, k := range s.conf.AvoidKinds {
		m[k] = true
	}
	return m
}

func (s *childState) count(k string, n int64) {
	s.mu.Lock()
	s.res.Counters[k] += n
	s.mu.Unlock()
}
func (s *childState) inc(m map[string]int64, k string) {
	s.mu.Lock()
	m[k]++
	s.mu.Unlock()
}
func (s *childState) violation(sig, summary string, w interface{}) {
	s.mu.Lock()
	n := 0
	for _, v := range s.res.Violations {
		if v.Signature == sig {
			n++
		}
	}
	if n < 2 && len(s.res.Violations) < 12 {
		s.res.Violations = append(s.res.Violations, childViolation{sig, summary, w})
	}
	s.res.Counters["violations/"+sig]++
	s.mu.Unlock()
}
func (s *childState) inconclusive(why string) {
	s.mu.Lock()
	if len(s.res.Inconclusive) < 20 {
		s.res.Inconclusive = append(s.res.Inconclusive, why)
	}
	s.res.Counters["inconclusive"]++
	s.mu.Unlock()
}
func (s *childState) sample(max int, v interface{}) {
	s.mu.Lock()
	if len(s.res.Samples) < max {
		s.res.Samples = append(s.res.Samples, v)
	}
	s.mu.Unlock()
}

func (s *childState) writeResult(done bool, start time.Time) {
	s.mu.Lock()
	s.res.Done = done
	s.res.WallS = time.Since(start).Seconds()
	s.res.MaxRSSMiB = atomic.LoadInt64(&maxRSS) >> 20
	b, _ := json.MarshalIndent(&s.res, "", " ")
	s.mu.Unlock()
	tmp := filepath.Join(s.conf.Dir, "result.json.tmp")
	ioutil.WriteFile(tmp, b, 0644)
	os.Rename(tmp, filepath.Join(s.conf.Dir, "result.json"))
}

func c11ChildMain(args []string) int {
	if len(args) < 1 {
		fmt.Fprintln(os.Stderr, "c11-server: need a config file")
		return 2
	}
	b, err := ioutil.ReadFile(args[0])
	if err != nil {
		fmt.Fprintln(os.Stderr, "c11-server:", err)
		return 2
	}
	var conf childConf
	if err := json.Unmarshal(b, &conf); err != nil {
		fmt.Fprintln(os.Stderr, "c11-server:", err)
		return 2
	}
	st := &childState{conf: conf}
	st.res = childResult{Mode: conf.Mode, Counters: map[string]int64{}, PerName: map[string]int64{}, ErrClasses: map[string]int64{},
		Applied: map[string]int64{}, ConnClosed: map[string]int64{}, Canaries: map[string]int64{}}
	start := time.Now()
	os.Remove(filepath.Join(conf.Dir, "result.json"))
	// The repo loggers write to this process's stdout, which the parent
	// redirected to a file; only levels are set here.
	node.SetLogLevel(1)
	st.startMemGuard(start)
	st.start = start
	stopTick := make(chan struct{})
	tickDone := make(chan struct{})
	go func() {
		defer close(tickDone)
		t := time.NewTicker(2 * time.Second)
		defer t.Stop()
		for {
			select {
			case <-t.C:
				st.writeResult(false, start)
			case <-stopTick:
				return
			}
		}
	}()
	switch conf.Mode {
	case "fuzz", "canary", "replay", "batch":
		err = st.runSingleServerModes()
	case "twin":
		err = st.runTwin()
	case "twinreplay":
		err = st.runTwinReplay()
	default:
		err = fmt.Errorf("unknown mode %q", conf.Mode)
	}
	if err != nil {
		st.inconclusive("child: " + err.Error())
	}
	close(stopTick)
	<-tickDone
	st.writeResult(true, start)
	return 0
}

// ---- command log ------------------------------------------------------------

// encodeArg keeps the log small: long runs of one byte are run-length encoded.
func encodeArg(a []byte) string {
	n := len(a)
	if n >= 128 {
		j := n
		for j > 0 && a[j-1] == a[n-1] {
			j--
		}
		if n-j >= 64 {
			return fmt.Sprintf("r:%s:%02x:%d", hex.EncodeToString(a[:j]), a[n-1], n-j)
		}
	}
	return "h:" + hex.EncodeToString(a)
}

func decodeArg(s string) ([]byte, error) {
	switch {
	case strings.HasPrefix(s, "h:"):
		return hex.DecodeString(s[2:])
	case strings.HasPrefix(s, "r:"):
		p := strings.Split(s[2:], ":")
		if len(p) != 3 {
			return nil, fmt.Errorf("bad rle arg")
		}
		pre, err := hex.DecodeString(p[0])
		if err != nil {
			return nil, err
		}
		bb, err := hex.DecodeString(p[1])
		if err != nil || len(bb) != 1 {
			return nil, fmt.Errorf("bad rle byte")
		}
		n, err := strconv.Atoi(p[2])
		if err != nil {
			return nil, err
		}
		out := append([]byte(nil), pre...)
		for i := 0; i < n; i++ {
			out = append(out, bb[0])
		}
		return out, nil
	}
	return nil, fmt.Errorf("bad arg encoding %q", cut(s, 20))
}

// EncodeArgv encodes argv; runs of identical arguments become "<arg>*<n>".
func EncodeArgv(args [][]byte) []string {
	var out []string
	for i := 0; i < len(args); {
		j := i
		for j < len(args) && string(args[j]) == string(args[i]) {
			j++
		}
		e := encodeArg(args[i])
		if j-i >= 8 {
			out = append(out, fmt.Sprintf("%s*%d", e, j-i))
			i = j
		} else {
			out = append(out, e)
			i++
		}
	}
	return out
}

func DecodeArgv(enc []string) ([][]byte, error) {
	var out [][]byte
	for _, e := range enc {
		rep := 1
		if i := strings.LastIndexByte(e, '*'); i > 0 {
			n, err := strconv.Atoi(e[i+1:])
			if err == nil {
				rep = n
				e = e[:i]
			}
		}
		a, err := decodeArg(e)
		if err != nil {
			return nil, err
		}
		for k := 0; k < rep; k++ {
			out = append(out, a)
		}
	}
	return out, nil
}

// HumanArgv renders argv for summaries.
func HumanArgv(args [][]byte) string {
	var parts []string
	for i, a := range args {
		if i >= 12 {
			parts = append(parts, fmt.Sprintf("...(%d args)", len(args)))
			break
		}
		if len(a) > 48 {
			parts = append(parts, strconv.Quote(string(a[:32]))+fmt.Sprintf("...(%d bytes)", len(a)))
		} else {
			parts = append(parts, strconv.Quote(string(a)))
		}
	}
	return strings.Join(parts, " ")
}

type logLine struct {
	T      string   `json:"t,omitempty"`
	Seq    int64    `json:"seq"`
	Client int      `json:"c"`
	Name   string   `json:"name"`
	Kind   string   `json:"kind"`
	How    string   `json:"how,omitempty"` // "", "lone", "plsets"
	Argv   []string `json:"argv"`
}

var globalSeq int64

type cmdLogger struct {
	f      *os.File
	client int
}

func newCmdLogger(dir string, client int) (*cmdLogger, error) {
	f, err := os.OpenFile(filepath.Join(dir, fmt.Sprintf("cmdlog-%d.jsonl", client)), os.O_CREATE|os.O_WRONLY|os.O_APPEND, 0644)
	if err != nil {
		return nil, err
	}
	return &cmdLogger{f: f, client: client}, nil
}

// log appends the command BEFORE it is sent (a plain write(2): the page cache
// survives the death of this process).
func (l *cmdLogger) log(c GenCmd, how string) {
	ll := logLine{T: time.Now().Format("15:04:05.000"), Seq: atomic.AddInt64(&globalSeq, 1), Client: l.client, Name: c.Name, Kind: c.Kind, How: how, Argv: EncodeArgv(c.Args)}
	b, _ := json.Marshal(&ll)
	l.f.Write(append(b, '\n'))
}

// ---- helpers ----------------------------------------------------------------

var digitsRe = regexp.MustCompile(`[0-9]+`)
var nsNameRe = regexp.MustCompile(`^w[0-9]+r[0-9]+$`)

// errClass reduces an error message to a stable class.
func errClass(msg string) string {
	for _, sep := range []string{" : ERR handle command", " : Err handle command", " : Err handle"} {
		if i := strings.Index(msg, sep); i >= 0 {
			msg = msg[:i]
		}
	}
	if i := strings.IndexAny(msg, "'\""); i >= 0 {
		msg = msg[:i]
	}
	msg = digitsRe.ReplaceAllString(msg, "#")
	clean := make([]byte, 0, len(msg))
	for i := 0; i < len(msg) && len(clean) < 70; i++ {
		c := msg[i]
		if c < 32 || c > 126 {
			c = '?'
		}
		clean = append(clean, c)
	}
	return strings.TrimSpace(string(clean))
}

func isPlset(args [][]byte) bool {
	return len(args) > 0 && strings.EqualFold(string(args[0]), "plset")
}

// sendOne sends one generated command the way its kind requires.
func sendOne(conn *Conn, c GenCmd, how string) ([]Reply, error) {
	switch how {
	case "plsets":
		return conn.DoPipelinedSets(c.Args[1:])
	case "lone":
		return conn.DoLone(c.Args, 250*time.Millisecond)
	}
	if len(c.Args) > 0 && strings.EqualFold(string(c.Args[0]), "ping") {
		// PING cannot be framed by a PING sentinel; it always answers exactly once
		r, err := conn.Do(c.Args...)
		if err != nil {
			return nil, err
		}
		return []Reply{r}, nil
	}
	return conn.DoFramed(c.Args)
}

func howToSend(c GenCmd, coin int) string {
	if isPlset(c.Args) {
		if c.Kind == "valid" && coin%2 == 0 && len(c.Args) >= 3 && len(c.Args)%2 == 1 {
			return "plsets"
		}
		return "lone"
	}
	return ""
}

// canaryKeys finds one key per partition of every namespace in a reserved table.
func canaryKeys(specs []NSSpec) []string {
	var out []string
	for _, ns := range specs {
		found := map[int]bool{}
		for i := 0; len(found) < ns.PartNum && i < 100000; i++ {
			k := "verifcanary:c" + strconv.Itoa(i)
			pid := zanredisdb.GetHashedPartitionID([]byte(k), ns.PartNum)
			if !found[pid] {
				found[pid] = true
				out = append(out, ns.Name+":"+k)
			}
		}
	}
	sort.Strings(out)
	return out
}

// ---- fuzz / canary / replay / batch -----------------------------------------

func fuzzSpecs(conf childConf) []NSSpec {
	snap := conf.SnapCnt
	if snap == 0 {
		snap = 3000
	}
	return []NSSpec{
		{Name: "fz", PartNum: 2, SnapCount: snap, ExpPolicy: conf.ExpPol, DataVersion: conf.DataVer},
		{Name: "one", PartNum: 1, SnapCount: snap, ExpPolicy: conf.ExpPol, DataVersion: conf.DataVer},
	}
}

func (s *childState) runSingleServerModes() error {
	conf := s.conf
	specs := fuzzSpecs(conf)
	if conf.Mode == "replay" || conf.Mode == "canary" {
		// also host the namespaces the recorded commands address (twin rounds use their own)
		have := map[string]bool{"fz": true, "one": true}
		for _, enc := range conf.Replay {
			argv, err := DecodeArgv(enc)
			if err != nil {
				continue
			}
			for _, a := range argv[1:] {
				if i := strings.IndexByte(string(a), ':'); i > 0 && i <= 12 && nsNameRe.MatchString(string(a[:i])) && !have[string(a[:i])] && len(have) < 12 {
					have[string(a[:i])] = true
					specs = append(specs, NSSpec{Name: string(a[:i]), PartNum: 1, ExpPolicy: conf.ExpPol, DataVersion: conf.DataVer})
				}
			}
		}
	}
	h, err := StartHost(HostConf{Dir: filepath.Join(conf.Dir, "data"), Engine: conf.Engine, NodeID: 1, ClusterID: "verif-c11", Namespaces: specs})
	if err != nil {
		return fmt.Errorf("start server: %v", err)
	}
	if err := h.WaitLeaders(90 * time.Second); err != nil {
		return err
	}
	s.count("server_started", 1)
	cans := canaryKeys(specs)
	canary := &canaryProbe{addr: h.Addr(), keys: cans, last: map[string]int64{}, pending: map[string]int64{}, s: s}
	switch conf.Mode {
	case "canary":
		// restart on an existing directory: whatever the log replays must not
		// stop the server from answering
		canary.strict = false
		if !canary.probe("restart") {
			return nil
		}
		// a few reads of fuzzed keys through every type's read path
		conn, err := Dial(h.Addr(), 20*time.Second)
		if err == nil {
			g := NewGen(newRand(conf.Seed, 99), []string{"fz", "one"})
			for _, n := range []string{"get", "hgetall", "lrange", "smembers", "zrange", "bitcount", "json.get", "pfcount", "exists", "scan", "advscan"} {
				c, _, ok := g.Valid(n)
				if ok {
					conn.DoFramed(c.Args)
				}
			}
			conn.Close()
		}
		time.Sleep(time.Duration(conf.HoldS) * time.Second)
		canary.probe("restart-after-reads")
		return nil
	case "replay":
		conn, err := Dial(h.Addr(), 30*time.Second)
		if err != nil {
			return err
		}
		lg, _ := newCmdLogger(conf.Dir, 0)
		for _, enc := range conf.Replay {
			argv, err := DecodeArgv(enc)
			if err != nil || len(argv) == 0 {
				continue
			}
			c := GenCmd{Name: strings.ToLower(string(argv[0])), Kind: "replay", Args: argv}
			how := howToSend(c, 1)
			lg.log(c, how)
			inFlight.begin(0, c)
			rs, err := sendOne(conn, c, how)
			if err == nil || !isTimeout(err) {
				inFlight.endWith(0, rs, err)
			} else {
				// not answered: wait for the memory guard or the parent's watchdog to decide
				s.noteStall(s.start)
				s.waitUnstall(canary, s.start, 4*time.Minute)
				inFlight.end(0)
			}
			s.sample(40, map[string]interface{}{"cmd": HumanArgv(argv), "replies": cut(renderReplies(rs), 200), "err": fmt.Sprint(err)})
			if err != nil {
				conn.Close()
				conn, err = Dial(h.Addr(), 30*time.Second)
				if err != nil {
					return err
				}
			}
		}
		canary.strict = false
		time.Sleep(time.Duration(conf.HoldS) * time.Second)
		if !canary.quickProbe() {
			// the apply loop is busy (a command answered "deadline exceeded" is still being applied): give the guards time
			s.noteStall(s.start)
			s.waitUnstall(canary, s.start, 4*time.Minute)
		}
		canary.probe("after-replay")
		return nil
	case "batch":
		s.runBatchAbort(h)
		canary.probe("after-batch")
		s.runBatchRound(h)
		canary.probe("after-batch-round")
		s.runDirected(h, canary)
		return nil
	}
	// fuzz
	var names []string
	for _, rc := range conf.Names {
		if _, skip := skippedCommands[rc.Name]; skip || s.avoided(rc.Name) {
			continue
		}
		if _, ok := templates[rc.Name]; ok {
			names = append(names, rc.Name)
		}
	}
	if len(names) == 0 {
		return fmt.Errorf("no command names")
	}
	var wg sync.WaitGroup
	canary.strict = true
	appliedBefore := s.appliedSum(h, specs)
	for ci := 0; ci < conf.Clients; ci++ {
		wg.Add(1)
		go func(ci int) {
			defer wg.Done()
			s.fuzzClient(h, ci, names, canary)
		}(ci)
	}
	wg.Wait()
	s.count("raft_entries_applied", int64(s.appliedSum(h, specs)-appliedBefore))
	canary.probe("final")
	s.mu.Lock()
	for k, v := range canary.last {
		s.res.Canaries[k] = v
	}
	s.mu.Unlock()
	return nil
}

func (s *childState) appliedSum(h *Host, specs []NSSpec) uint64 {
	var sum uint64
	for _, ns := range specs {
		for p := 0; p < ns.PartNum; p++ {
			if kvn := h.Node(ns.Name, p); kvn != nil {
				sum += kvn.GetAppliedIndex()
			}
		}
	}
	return sum
}

type canaryProbe struct {
	mu      sync.Mutex
	addr    string
	keys    []string
	last    map[string]int64
	pending map[string]int64 // INCRs whose outcome is unknown (error / no reply): each may add one
	strict  bool
	s       *childState
}

// probe sends PING and INCRs every canary key (one per partition, i.e. one per
// apply loop). In strict mode the counters must advance by exactly one.
func (cp *canaryProbe) probe(when string) bool {
	cp.mu.Lock()
	defer cp.mu.Unlock()
	var lastErr string
	for attempt := 0; attempt < 5; attempt++ {
		conn, err := Dial(cp.addr, 30*time.Second)
		if err != nil {
			lastErr = err.Error()
			time.Sleep(200 * time.Millisecond)
			continue
		}
		ok := true
		r, err := conn.DoS("PING")
		if err != nil || string(r.Str) != "PONG" {
			lastErr = fmt.Sprintf("PING: %v %s", err, r.Short(80))
			ok = false
		}
		for _, k := range cp.keys {
			if !ok {
				break
			}
			r, err := conn.DoS("INCR", k)
			if err != nil || r.Kind != ':' {
				// an INCR answered with an error (propose timeout) or not at all may still be applied later
				cp.pending[k]++
				lastErr = fmt.Sprintf("INCR %s: %v %s", k, err, r.Short(120))
				ok = false
				break
			}
			if prev, seen := cp.last[k]; cp.strict && seen && (r.Int < prev+1 || r.Int > prev+1+cp.pending[k]) {
				cp.s.violation("canary-corrupted", fmt.Sprintf("canary counter %s answered %d after %d (%s): a key no generated command addresses was changed", k, r.Int, prev, when),
					map[string]interface{}{"key": k, "got": r.Int, "previous": prev, "when": when})
			}
			cp.last[k] = r.Int
		}
		conn.Close()
		if ok {
			cp.s.count("canary_probes_ok", 1)
			return true
		}
		time.Sleep(300 * time.Millisecond)
	}
	cp.s.count("canary_probes_failed", 1)
	cp.s.inconclusive("canary not answered (" + when + "): " + lastErr)
	return false
}

func (s *childState) fuzzClient(h *Host, ci int, names []string, canary *canaryProbe) {
	conf := s.conf
	stallWatchdog := 90 * time.Second
	r := newRand(conf.Seed, int64(conf.Index*1000+ci))
	g := NewGen(r, []string{"fz", "fz", "one"})
	g.AvoidKinds = s.avoidKinds()
	g.Dict = append(append([]string(nil), conf.Dict.Strict...), conf.Dict.Loose...)
	// systematic phase first (the same list in every client, each takes its share)
	pg := NewGen(newRand(conf.Seed, int64(conf.Index*1000+900)), []string{"fz", "one"})
	pg.AvoidKinds = s.avoidKinds()
	pg.Delims = conf.Delims
	g.Delims = conf.Delims
	pre := pg.PrePhase(conf.Names, conf.Dict.Strict, s.avoided)
	var mine []GenCmd
	for i, c := range pre {
		if i%maxInt(1, conf.Clients) == ci {
			mine = append(mine, c)
		}
	}
	s.count("systematic_commands", int64(len(mine)))
	lg, err := newCmdLogger(conf.Dir, ci)
	if err != nil {
		s.inconclusive(err.Error())
		return
	}
	var conn *Conn
	dial := func() bool {
		for a := 0; a < 20; a++ {
			c, err := Dial(h.Addr(), cmdTimeout)
			if err == nil {
				conn = c
				return true
			}
			time.Sleep(100 * time.Millisecond)
		}
		s.inconclusive("fuzz client cannot connect")
		return false
	}
	if !dial() {
		return
	}
	defer func() { conn.Close() }()
	for i := -len(mine); i < conf.PerConn; i++ {
		var c GenCmd
		if i < 0 {
			c = mine[len(mine)+i]
		} else if r.Intn(100) < 30 {
			c, _, _ = g.Valid(stateBuilders[r.Intn(len(stateBuilders))])
		} else {
			c, _ = g.Hostile(names[r.Intn(len(names))])
		}
		if atomic.LoadInt32(&stalled) == 1 {
			s.waitUnstall(canary, s.start, stallWatchdog)
		}
		how := howToSend(c, r.Intn(4))
		lg.log(c, how)
		inFlight.begin(ci, c)
		rs, err := sendOne(conn, c, how)
		if err == nil || !isTimeout(err) {
			inFlight.endWith(ci, rs, err)
		}
		s.inc(s.res.PerName, c.Name)
		s.count("commands", 1)
		s.count("kind/"+c.Kind, 1)
		if err != nil {
			if isTimeout(err) {
				// the command stays registered as in flight: it is the suspect
				s.count("timeouts", 1)
				s.noteStall(s.start)
				s.waitUnstall(canary, s.start, stallWatchdog)
				inFlight.end(ci)
				s.mu.Lock()
				if len(s.res.SlowCmds) < 20 {
					s.res.SlowCmds = append(s.res.SlowCmds, fmt.Sprintf("[%s/%s] %s", c.Name, c.Kind, HumanArgv(c.Args)))
				}
				s.mu.Unlock()
			} else if strings.HasPrefix(err.Error(), "resp:") {
				s.count("protocol_desync", 1) // reply split by echoed CR LF bytes
			} else {
				// connection closed by the server while the process lives: the
				// recover() of the connection path (known by design) — counted
				s.inc(s.res.ConnClosed, c.Name)
			}
			conn.Close()
			if !dial() {
				return
			}
			continue
		}
		if len(rs) == 0 {
			s.count("no_reply/"+c.Name, 1)
		}
		allErr := len(rs) > 0
		for _, rp := range rs {
			if rp.IsErr() {
				s.inc(s.res.ErrClasses, c.Name+"|"+errClass(string(rp.Str)))
			} else {
				allErr = false
			}
		}
		if !allErr && len(rs) > 0 {
			s.count("answered_without_error", 1)
			for _, rc := range conf.Names {
				if rc.Name == c.Name && isWriteKind(rc.Kinds) {
					s.inc(s.res.Applied, c.Name+"|"+c.Kind)
					break
				}
			}
		}
		if ci == 0 && i >= 0 && i < 5 {
			s.sample(5, map[string]interface{}{"cmd": HumanArgv(c.Args), "kind": c.Kind, "reply": cut(renderReplies(rs), 120)})
		}
		if i >= 0 && (i+1)%200 == 0 && atomic.LoadInt32(&stalled) == 0 {
			if !canary.probe(fmt.Sprintf("client %d after %d commands", ci, i+1)) {
				s.noteStall(s.start)
				s.waitUnstall(canary, s.start, stallWatchdog)
			}
		}
	}
}

// ---- candidate defect #2 ------------------------------------------------------

// runBatchAbort: several connections send single SETs (batchable at apply)
// while another sends HMSET with a 70000-byte field, which passes the
// leader-side check and fails at apply. Every SET must be answered OK and be
// readable afterwards; the failing HMSET may only fail itself.
func (s *childState) runBatchAbort(h *Host) {
	rounds := s.conf.BatchN
	if rounds == 0 {
		rounds = 300
	}
	const setters = 6
	type obs struct {
		key, val, reply string
	}
	for _, bad := range []struct {
		name string
		argv [][]byte
	}{
		{"hmset", [][]byte{[]byte("HMSET"), []byte("one:t0:bh"), []byte(strings.Repeat("f", 70000)), []byte("v")}},
	} {
		var wg sync.WaitGroup
		results := make([][]obs, setters)
		stop := int32(0)
		var badReplies int64
		var badSent int64
		wg.Add(1)
		go func() {
			defer wg.Done()
			conn, err := Dial(h.Addr(), 30*time.Second)
			if err != nil {
				return
			}
			defer conn.Close()
			for atomic.LoadInt32(&stop) == 0 {
				rp, err := conn.Do(bad.argv...)
				if err != nil {
					return
				}
				atomic.AddInt64(&badSent, 1)
				if rp.IsErr() {
					atomic.AddInt64(&badReplies, 1)
				}
			}
		}()
		var swg sync.WaitGroup
		for si := 0; si < setters; si++ {
			swg.Add(1)
			go func(si int) {
				defer swg.Done()
				conn, err := Dial(h.Addr(), 30*time.Second)
				if err != nil {
					return
				}
				defer conn.Close()
				for i := 0; i < rounds; i++ {
					k := fmt.Sprintf("one:t0:ba-%d-%d", si, i)
					v := fmt.Sprintf("val-%d-%d", si, i)
					rp, err := conn.DoS("SET", k, v)
					if err != nil {
						return
					}
					results[si] = append(results[si], obs{k, v, rp.String()})
				}
			}(si)
		}
		swg.Wait()
		atomic.StoreInt32(&stop, 1)
		wg.Wait()
		s.count("batch_bad_sent", badSent)
		s.count("batch_bad_error_replies", badReplies)
		conn, err := Dial(h.Addr(), 30*time.Second)
		if err != nil {
			s.inconclusive("batch: " + err.Error())
			return
		}
		var lostAcked, spuriousErr, okSets int64
		var firstLost, firstSpurious *obs
		for si := range results {
			for i := range results[si] {
				o := results[si][i]
				s.count("batch_sets", 1)
				got, err := conn.DoS("GET", o.key)
				if err != nil {
					s.inconclusive("batch: " + err.Error())
					return
				}
				switch {
				case o.reply == "+OK" && (got.IsNil() || string(got.Str) != o.val):
					lostAcked++
					if firstLost == nil {
						firstLost = &results[si][i]
					}
				case o.reply == "+OK":
					okSets++
				case strings.HasPrefix(o.reply, "-"):
					spuriousErr++
					if firstSpurious == nil {
						firstSpurious = &results[si][i]
					}
				}
			}
		}
		conn.Close()
		s.count("batch_sets_ok", okSets)
		s.count("batch_sets_acked_but_lost", lostAcked)
		s.count("batch_sets_answered_with_foreign_error", spuriousErr)
		if lostAcked > 0 || spuriousErr > 0 {
			w := map[string]interface{}{
				"scenario":      fmt.Sprintf("%d connections each send %d single 'SET one:t0:ba-<conn>-<i> val-<conn>-<i>' commands; concurrently one connection repeats the failing command", setters, rounds),
				"failing_cmd":   HumanArgv(bad.argv),
				"failing_argv":  EncodeArgv(bad.argv),
				"sets_total":    okSets + lostAcked + spuriousErr,
				"sets_ok":       okSets,
				"acked_lost":    lostAcked,
				"foreign_error": spuriousErr,
			}
			var what string
			if firstSpurious != nil {
				w["first_set_answered_with_error"] = map[string]string{"cmd": "SET " + firstSpurious.key + " " + firstSpurious.val, "reply": firstSpurious.reply}
				what = fmt.Sprintf("%d of %d valid SETs of OTHER connections were answered with the failing command's error (first: SET %s -> %s) and not applied", spuriousErr, okSets+lostAcked+spuriousErr, firstSpurious.key, cut(firstSpurious.reply, 80))
			}
			if firstLost != nil {
				w["first_acked_set_lost"] = map[string]string{"cmd": "SET " + firstLost.key + " " + firstLost.val, "reply": firstLost.reply}
				what += fmt.Sprintf(" %d SETs were acknowledged OK but their value is missing (first: %s)", lostAcked, firstLost.key)
			}
			s.violation("batch-abort-drops-earlier/"+bad.name, "a command that fails at apply ("+HumanArgv(bad.argv)+") aborts the shared write batch: "+what, w)
		}
	}
}

// readTail returns the last n lines of a file.
func readTail(path string, n int) []string {
	f, err := os.Open(path)
	if err != nil {
		return nil
	}
	defer f.Close()
	st, _ := f.Stat()
	const max = 1 << 20
	if st != nil && st.Size() > max {
		f.Seek(st.Size()-max, 0)
	}
	sc := bufio.NewScanner(f)
	sc.Buffer(make([]byte, 1<<20), 8<<20)
	var lines []string
	for sc.Scan() {
		lines = append(lines, sc.Text())
		if len(lines) > 4*n {
			lines = lines[len(lines)-n:]
		}
	}
	if len(lines) > n {
		lines = lines[len(lines)-n:]
	}
	return lines
}

var dumpOnce sync.Once

// dumpGoroutinesOnce writes all goroutine stacks of this process to a file the
// first time a command is not answered within the watchdog (diagnosis of a
// wedged server; the parent attaches the file's head to its report).
func dumpGoroutinesOnce(dir string) {
	dumpOnce.Do(func() {
		f, err := os.Create(filepath.Join(dir, "stall-goroutines.txt"))
		if err != nil {
			return
		}
		defer f.Close()
		fmt.Fprintf(f, "goroutine dump at %s\n", time.Now().Format("15:04:05.000"))
		pprof.Lookup("goroutine").WriteTo(f, 2)
	})
}

// directedScenarios are scripted sequences that random generation cannot reach
// because they need real time to pass (expiry). Liveness oracle only: the
// commands are logged before they are sent, the canaries are probed after
// each scenario, a death is handled by the parent like any other.
var directedScenarios = []struct {
	name  string
	steps []string // "sleep <ms>" or a command with blank-separated arguments
}{
	// repaired by 024994a: SETBITV2 on an expired bitmap whose key also has a kv value
	{"bitmap-expired-then-kv", []string{"setbitv2 one:t0:dbm 8200 1", "bexpire one:t0:dbm 1", "sleep 2300", "set one:t0:dbm 0", "setbitv2 one:t0:dbm 9 1", "bitcount one:t0:dbm", "getbit one:t0:dbm 9"}},
	{"kv-expired-then-bitmap", []string{"setex one:t0:dkv 1 abc", "sleep 2300", "setbitv2 one:t0:dkv 3 1", "append one:t0:dkv x", "setrange one:t0:dkv 2 yy", "incr one:t0:dkv"}},
	{"collections-expired-then-write", []string{"hset one:t0:dh f v", "hexpire one:t0:dh 1", "rpush one:t0:dl a b", "lexpire one:t0:dl 1", "sadd one:t0:ds m", "sexpire one:t0:ds 1",
		"zadd one:t0:dz 1 m", "zexpire one:t0:dz 1", "sleep 2300",
		"hincrby one:t0:dh f 1", "hdel one:t0:dh f g", "lset one:t0:dl 0 x", "ltrim one:t0:dl 0 0", "lpop one:t0:dl", "srem one:t0:ds m x", "spop one:t0:ds", "zincrby one:t0:dz 1 m", "zremrangebyrank one:t0:dz 0 -1", "zrem one:t0:dz m"}},
}

func (s *childState) runDirected(h *Host, canary *canaryProbe) {
	lg, err := newCmdLogger(s.conf.Dir, 90)
	if err != nil {
		return
	}
	conn, err := Dial(h.Addr(), 30*time.Second)
	if err != nil {
		s.inconclusive("directed: " + err.Error())
		return
	}
	defer func() { conn.Close() }()
	for _, sc := range directedScenarios {
		for _, st := range sc.steps {
			f := strings.Fields(st)
			if f[0] == "sleep" {
				ms, _ := strconv.Atoi(f[1])
				time.Sleep(time.Duration(ms) * time.Millisecond)
				continue
			}
			c := GenCmd{Name: f[0], Kind: "directed/" + sc.name, Args: B(f...)}
			lg.log(c, "")
			inFlight.begin(90, c)
			rs, err := conn.DoFramed(c.Args)
			inFlight.endWith(90, rs, err)
			s.count("directed_commands", 1)
			if err != nil {
				s.inc(s.res.ConnClosed, c.Name)
				conn.Close()
				if conn, err = Dial(h.Addr(), 30*time.Second); err != nil {
					return
				}
			}
		}
		s.count("directed_scenarios", 1)
		canary.probe("after directed scenario " + sc.name)
	}
}

// runBatchRound: several connections send, back to back (pipelines of 2-4),
// streams of unique-valued SETs, INCRs of an own counter, two SETs of the same
// key in a row, and now and then a batchable command that fails at apply
// (SETEX k notanumber v, HMSET with an over-long field), all into ONE
// partition, so that apply rounds mix batchable writes, intermediate commits
// and aborts. Afterwards, for EVERY command: answered with an error => its
// effect is absent; answered OK => present. (On the unchanged tree the listed
// batch-abort finding makes innocent commands receive a foreign error, but
// they are then not applied either, so this oracle is sound there.)
func (s *childState) runBatchRound(h *Host) {
	groups := s.conf.BatchN / 2
	if groups < 60 {
		groups = 60
	}
	const conns = 8
	type sent struct {
		name, key, val string
		reply          string
		unknown        bool // propose timeout / connection error: outcome not known
	}
	all := make([][]sent, conns)
	var wg sync.WaitGroup
	for ci := 0; ci < conns; ci++ {
		wg.Add(1)
		go func(ci int) {
			defer wg.Done()
			r := newRand(s.conf.Seed, int64(770+ci))
			conn, err := Dial(h.Addr(), 30*time.Second)
			if err != nil {
				return
			}
			defer func() { conn.Close() }()
			seq := 0
			cnt := fmt.Sprintf("one:br:c%d-cnt", ci)
			for g := 0; g < groups; g++ {
				var grp []sent
				n := 2 + r.Intn(3)
				for len(grp) < n {
					seq++
					k := fmt.Sprintf("one:br:c%d-k%d", ci, seq)
					v := fmt.Sprintf("v%d-%d", ci, seq)
					switch x := r.Intn(20); {
					case x < 8:
						grp = append(grp, sent{name: "set", key: k, val: v})
					case x < 13:
						grp = append(grp, sent{name: "incr", key: cnt})
					case x < 16: // the same key twice in a row: the second forces an intermediate commit
						grp = append(grp, sent{name: "set", key: k, val: v}, sent{name: "set", key: k, val: v + "b"})
					case x < 18:
						grp = append(grp, sent{name: "setex-bad", key: k, val: v})
					case x < 19:
						grp = append(grp, sent{name: "hmset-bad", key: k})
					default:
						grp = append(grp, sent{name: "del", key: fmt.Sprintf("one:br:c%d-k%d", ci, 1+r.Intn(seq))})
					}
				}
				allSet := true
				for _, c := range grp {
					if c.name != "set" {
						allSet = false
					}
				}
				if allSet {
					grp = append(grp, sent{name: "incr", key: cnt}) // a pipeline of plain SETs only would be folded into PLSET
				}
				var buf []byte
				for _, c := range grp {
					switch c.name {
					case "set":
						buf = append(buf, EncodeCommand(B("SET", c.key, c.val))...)
					case "incr":
						buf = append(buf, EncodeCommand(B("INCR", c.key))...)
					case "setex-bad":
						buf = append(buf, EncodeCommand(B("SETEX", c.key, "notanumber", c.val))...)
					case "hmset-bad":
						buf = append(buf, EncodeCommand(B("HMSET", c.key, strings.Repeat("f", 70000), "v"))...)
					case "del":
						buf = append(buf, EncodeCommand(B("DEL", c.key))...)
					}
				}
				if err := conn.SendRaw(buf); err != nil {
					return
				}
				broken := false
				for i := range grp {
					if broken {
						grp[i].unknown = true
						continue
					}
					rp, err := conn.Read()
					if err != nil {
						grp[i].unknown = true
						broken = true
						continue
					}
					grp[i].reply = rp.String()
					if rp.IsErr() && isTimeoutClass(string(rp.Str)) {
						grp[i].unknown = true
					}
				}
				all[ci] = append(all[ci], grp...)
				if broken {
					conn.Close()
					if conn, err = Dial(h.Addr(), 30*time.Second); err != nil {
						return
					}
				}
			}
		}(ci)
	}
	wg.Wait()
	conn, err := Dial(h.Addr(), 30*time.Second)
	if err != nil {
		s.inconclusive("batch-round: " + err.Error())
		return
	}
	defer conn.Close()
	fired := map[string]bool{}
	violate := func(cmd, msg string, w interface{}) {
		sig := "error-left-effect/batch-round/" + cmd
		s.count("batch_round_violations", 1)
		if !fired[sig] {
			fired[sig] = true
			s.violation(sig, msg, w)
		}
	}
	for ci := range all {
		// per key: the ordered writes of this connection (keys are private to a connection)
		type write struct {
			idx     int
			val     string // "" = delete
			ok, unk bool
			reply   string
		}
		perKey := map[string][]write{}
		var order []string
		incrOK, incrErr, incrUnk := int64(0), int64(0), false
		firstIncrErr := ""
		for i, c := range all[ci] {
			s.count("batch_round_commands", 1)
			isErr := strings.HasPrefix(c.reply, "-")
			if isErr && !c.unknown {
				s.count("batch_round_error_replies", 1)
			}
			switch c.name {
			case "incr":
				switch {
				case c.unknown:
					incrUnk = true
				case isErr:
					incrErr++
					if firstIncrErr == "" {
						firstIncrErr = c.reply
					}
				default:
					incrOK++
				}
			case "set", "del", "setex-bad":
				if _, ok := perKey[c.key]; !ok {
					order = append(order, c.key)
				}
				v := c.val
				if c.name == "del" {
					v = ""
				}
				perKey[c.key] = append(perKey[c.key], write{i, v, !isErr && !c.unknown, c.unknown, c.reply})
			}
		}
		cnt := fmt.Sprintf("one:br:c%d-cnt", ci)
		if !incrUnk {
			rp, err := conn.DoS("GET", cnt)
			if err == nil {
				got := int64(0)
				if !rp.IsNil() {
					fmt.Sscanf(string(rp.Str), "%d", &got)
				}
				s.count("batch_round_counters_checked", 1)
				if got != incrOK {
					violate("incr", fmt.Sprintf("connection %d: %d INCR %s were answered OK and %d with an error (first: %s), but the counter is %d: an INCR answered with an error was applied (or an acknowledged one lost)", ci, incrOK, cnt, incrErr, cut(firstIncrErr, 80), got),
						map[string]interface{}{"scenario": "8 connections, pipelines of 2-4 of SET / INCR / SET same key twice / SETEX k notanumber v / over-long HMSET / DEL into one partition", "counter": cnt, "incr_ok": incrOK, "incr_error": incrErr, "counter_value": got, "first_error_reply": firstIncrErr})
				}
			}
		}
		for _, k := range order {
			ws := perKey[k]
			unk := false
			for _, w := range ws {
				if w.unk {
					unk = true
				}
			}
			if unk {
				continue
			}
			want := "" // value of the last write answered OK
			for _, w := range ws {
				if w.ok {
					want = w.val
				}
			}
			rp, err := conn.DoS("GET", k)
			if err != nil {
				s.inconclusive("batch-round: " + err.Error())
				return
			}
			got := ""
			if !rp.IsNil() {
				got = string(rp.Str)
			}
			s.count("batch_round_keys_checked", 1)
			if got == want {
				continue
			}
			// whose value is it?
			culprit, reply := "set", ""
			for _, w := range ws {
				if w.val == got && got != "" && !w.ok {
					reply = w.reply
				}
			}
			var hist []string
			for _, w := range ws {
				op := "SET " + k + " " + w.val
				if w.val == "" {
					op = "DEL " + k
				}
				hist = append(hist, op+" -> "+cut(w.reply, 70))
			}
			what := fmt.Sprintf("key %s holds %q, the last write answered OK gives %q", k, got, want)
			if reply != "" {
				what = fmt.Sprintf("SET %s %s was answered %s but the value is stored", k, got, cut(reply, 80))
			}
			violate(culprit, fmt.Sprintf("connection %d: %s (writes of this key in order: %v)", ci, what, hist),
				map[string]interface{}{"scenario": "8 connections, pipelines of 2-4 of SET / INCR / SET same key twice / SETEX k notanumber v / over-long HMSET / DEL into one partition", "key": k, "stored": got, "expected": want, "writes": hist})
		}
	}
}
