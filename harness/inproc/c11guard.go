package inproc

// Guards of the C11 children: a registry of the commands in flight, a memory
// guard (a 40-byte command that makes the apply loop allocate gigabytes would
// otherwise end in the kernel's OOM killer and endanger the other checks
// running on this machine) and the handling of a stalled apply loop.

import (
	"fmt"
	"io/ioutil"
	"os"
	"sort"
	"strconv"
	"strings"
	"sync"
	"sync/atomic"
	"time"
)

type flightEntry struct {
	Client int      `json:"client"`
	Name   string   `json:"name"`
	Kind   string   `json:"kind"`
	Argv   []string `json:"argv"`
	Human  string   `json:"human"`
	Start  string   `json:"start"`
	Reply  string   `json:"reply,omitempty"`
	start  time.Time
}

type flightTable struct {
	mu     sync.Mutex
	m      map[int]*flightEntry
	recent []flightEntry // completed commands that were answered with a propose-timeout class error (newest last)
}

var inFlight = &flightTable{m: map[int]*flightEntry{}}

func (t *flightTable) begin(client int, c GenCmd) {
	e := &flightEntry{Client: client, Name: c.Name, Kind: c.Kind, Argv: EncodeArgv(c.Args), Human: HumanArgv(c.Args), start: time.Now()}
	e.Start = e.start.Format("15:04:05.000")
	t.mu.Lock()
	t.m[client] = e
	t.mu.Unlock()
}

func (t *flightTable) end(client int) { t.endWith(client, nil, nil) }

// isTimeoutClass: the server gave up waiting for the apply result; the entry
// is still in the raft log and is (or will be) applied.
func isTimeoutClass(msg string) bool {
	// the server appends "... : ERR handle command <name>, <key echo>": client bytes do not count
	for _, sep := range []string{" : ERR handle command", " : Err handle command"} {
		if i := strings.Index(msg, sep); i >= 0 {
			msg = msg[:i]
		}
	}
	return strings.Contains(msg, "deadline exceeded") || strings.Contains(msg, "raft proposal") || strings.Contains(msg, "timeout")
}

// endWith unregisters the command; one that was answered "deadline exceeded"
// is remembered: its apply may still be running.
func (t *flightTable) endWith(client int, rs []Reply, err error) {
	t.mu.Lock()
	e := t.m[client]
	delete(t.m, client)
	if e != nil {
		for _, r := range rs {
			if r.IsErr() && isTimeoutClass(string(r.Str)) {
				cp := *e
				cp.Reply = cut(string(r.Str), 80)
				t.recent = append(t.recent, cp)
				if len(t.recent) > 64 {
					t.recent = t.recent[1:]
				}
				break
			}
		}
	}
	t.mu.Unlock()
}

func (t *flightTable) timedOut() []flightEntry {
	t.mu.Lock()
	defer t.mu.Unlock()
	return append([]flightEntry(nil), t.recent...)
}

// oldestFirst lists the commands in flight, longest-running first.
func (t *flightTable) oldestFirst() []flightEntry {
	t.mu.Lock()
	var out []flightEntry
	for _, e := range t.m {
		out = append(out, *e)
	}
	t.mu.Unlock()
	sort.Slice(out, func(i, j int) bool { return out[i].start.Before(out[j].start) })
	return out
}

// stallInfo / memBombInfo are written into the (partial) result file before
// the child ends itself.
type stallInfo struct {
	What     string        `json:"what"`
	Oldest   *flightEntry  `json:"oldest_in_flight"`
	InFlight []flightEntry `json:"in_flight"`
	// TimedOut: commands the server answered with a propose-timeout class error
	// (their apply took longer than the server waits): the prime suspects
	TimedOut []flightEntry `json:"answered_with_propose_timeout"`
	RSSMiB   int64         `json:"rss_mib"`
	AfterS   float64       `json:"after_s"`
}

// setOldest picks the prime suspect: the first command answered with a propose
// timeout, else the command in flight longest.
func (si *stallInfo) setOldest() {
	switch {
	case len(si.TimedOut) > 0:
		si.Oldest = &si.TimedOut[0]
	case len(si.InFlight) > 0:
		si.Oldest = &si.InFlight[0]
	}
}

// candidates lists up to n suspects in order of suspicion.
func (si *stallInfo) candidates(n int) []flightEntry {
	var out []flightEntry
	seen := map[string]bool{}
	for _, l := range [][]flightEntry{si.TimedOut, si.InFlight} {
		for _, e := range l {
			k := strings.Join(e.Argv, " ")
			if !seen[k] && len(out) < n {
				seen[k] = true
				out = append(out, e)
			}
		}
	}
	return out
}

func rssBytes() int64 {
	b, err := ioutil.ReadFile("/proc/self/statm")
	if err != nil {
		return 0
	}
	f := strings.Fields(string(b))
	if len(f) < 2 {
		return 0
	}
	pages, _ := strconv.ParseInt(f[1], 10, 64)
	return pages * int64(os.Getpagesize())
}

const memGuardBytes = 6 << 30

var maxRSS int64

// startMemGuard ends the child (exit 3, after writing the partial result with
// the commands in flight) when its resident set exceeds memGuardBytes.
func (s *childState) startMemGuard(start time.Time) {
	go func() {
		for {
			time.Sleep(200 * time.Millisecond)
			rss := rssBytes()
			if rss > atomic.LoadInt64(&maxRSS) {
				atomic.StoreInt64(&maxRSS, rss)
			}
			if rss > memGuardBytes {
				fl := inFlight.oldestFirst()
				info := &stallInfo{What: fmt.Sprintf("resident set %d MiB exceeded the guard of %d MiB", rss>>20, int64(memGuardBytes)>>20), InFlight: fl, TimedOut: inFlight.timedOut(), RSSMiB: rss >> 20, AfterS: time.Since(start).Seconds()}
				info.setOldest()
				s.mu.Lock()
				s.res.MemBomb = info
				s.mu.Unlock()
				s.writeResult(false, start)
				fmt.Fprintf(os.Stderr, "verif memory guard: %s; ending the child\n", info.What)
				os.Exit(3)
			}
		}
	}()
}

// stall handling ------------------------------------------------------------------

var stalled int32 // 1 while some client saw a command unanswered for cmdTimeout

const cmdTimeout = 20 * time.Second

// waitUnstall is entered by every fuzz client while the stall flag is up. The
// first caller (the one whose command timed out) records the commands in
// flight; all wait until every canary answers again. If that does not happen
// within the stall watchdog the child ends itself (exit 4): the parent
// relaunches it without the command that is in flight longest.
func (s *childState) waitUnstall(canary *canaryProbe, start time.Time, stallWatchdog time.Duration) {
	t0 := time.Now()
	for atomic.LoadInt32(&stalled) == 1 {
		if canary.quickProbe() {
			atomic.StoreInt32(&stalled, 0)
			s.count("stalls_recovered", 1)
			return
		}
		if time.Since(t0) > stallWatchdog {
			s.mu.Lock()
			if s.res.Stall != nil {
				s.res.Stall.What += fmt.Sprintf("; canaries still unanswered %.0f s later", time.Since(t0).Seconds())
			}
			s.mu.Unlock()
			s.writeResult(false, start)
			fmt.Fprintf(os.Stderr, "verif stall watchdog: apply loop not answering for %.0f s; ending the child\n", time.Since(t0).Seconds())
			os.Exit(4)
		}
		time.Sleep(time.Second)
	}
}

func (s *childState) noteStall(start time.Time) {
	if !atomic.CompareAndSwapInt32(&stalled, 0, 1) {
		return
	}
	fl := inFlight.oldestFirst()
	info := &stallInfo{What: fmt.Sprintf("a command was not answered within %v", cmdTimeout), InFlight: fl, TimedOut: inFlight.timedOut(), RSSMiB: rssBytes() >> 20, AfterS: time.Since(start).Seconds()}
	info.setOldest()
	s.mu.Lock()
	if s.res.Stall == nil {
		s.res.Stall = info
	}
	s.res.Counters["stalls"]++
	s.mu.Unlock()
	dumpGoroutinesOnce(s.conf.Dir)
}

// quickProbe: do all canaries answer within 3 s? (no verdict, no counters)
func (cp *canaryProbe) quickProbe() bool {
	cp.mu.Lock() // all canary traffic is serialized: the counters are compared with their last value
	defer cp.mu.Unlock()
	conn, err := Dial(cp.addr, 3*time.Second)
	if err != nil {
		return false
	}
	defer conn.Close()
	for _, k := range cp.keys {
		r, err := conn.DoS("INCR", k)
		if err != nil || r.Kind != ':' {
			cp.pending[k]++
			return false
		}
		cp.last[k] = r.Int
	}
	return true
}
