package inproc

// C15 — every key is served by exactly one partition, the one clients compute.
//
// (a) function comparison server vs SDK, (b) placement observed in every
// partition's store after writes through the protocol, (c) a node that does
// not host the owner partition rejects instead of executing, (d) multi-key
// DEL/EXISTS/MGET/PLSET over partitions vs the same command on one store.

import (
	"bytes"
	"encoding/hex"
	"encoding/json"
	"fmt"
	"io/ioutil"
	"math/rand"
	"path/filepath"
	"sort"
	"strconv"
	"strings"
	"sync"
	"sync/atomic"
	"time"
	"unicode/utf8"

	"github.com/absolute8511/redcon"
	zanredisdb "github.com/youzan/go-zanredisdb"

	"github.com/youzan/ZanRedisDB/common"
	"github.com/youzan/ZanRedisDB/node"
	"github.com/youzan/ZanRedisDB/server"

	"verif/harness/vc"
)

func init() {
	vc.Register("C15", "exploration", runC15)
}

type c15Witness struct {
	Part     string      `json:"part"`
	Engine   string      `json:"engine,omitempty"`
	N        int         `json:"partitions,omitempty"`
	KeyHex   string      `json:"key_hex,omitempty"`
	Key      string      `json:"key_quoted,omitempty"`
	Commands [][]string  `json:"commands_quoted,omitempty"` // strconv.Quote'd argv of the commands to re-run
	Detail   interface{} `json:"detail,omitempty"`
}

func qargv(args [][]byte) []string {
	out := make([]string, len(args))
	for i, a := range args {
		if len(a) > 200 {
			out[i] = strconv.Quote(string(a[:200])) + fmt.Sprintf("...(%d bytes)", len(a))
		} else {
			out[i] = strconv.Quote(string(a))
		}
	}
	return out
}

// genPK generates (table, pk) byte strings of the classes named in DESIGN C15.
func genPK(r *rand.Rand) (string, []byte, string) {
	randBytes := func(n int) []byte {
		b := make([]byte, n)
		for i := range b {
			b[i] = byte(r.Intn(256))
		}
		return b
	}
	ascii := func(n int, alphabet string) []byte {
		b := make([]byte, n)
		for i := range b {
			b[i] = alphabet[r.Intn(len(alphabet))]
		}
		return b
	}
	tables := []string{"t", "tab", "t1", "tt", "T", "my_table", "t-x", "0"}
	table := tables[r.Intn(len(tables))]
	switch r.Intn(10) {
	case 0: // random bytes
		return table, randBytes(1 + r.Intn(40)), "random"
	case 1: // ASCII with separators
		return table, ascii(1+r.Intn(30), "ab:c:-_ :"), "ascii-sep"
	case 2: // long
		return table, ascii(200+r.Intn(12000), "abcdefghij0123456789"), "long"
	case 3: // empty pk
		return table, []byte{}, "empty-pk"
	case 4: // table itself contains separators
		return table + ":" + string(ascii(1+r.Intn(4), "xy:")), ascii(1+r.Intn(10), "abc"), "table-with-sep"
	case 5: // only separators
		return table, ascii(1+r.Intn(5), ":"), "only-sep"
	case 6: // bytes 0x00 / 0xff
		return table, ascii(1+r.Intn(12), "\x00\xffa"), "nul-ff"
	case 7: // decimal counters (what applications use)
		return table, []byte(strconv.Itoa(r.Intn(1000000))), "decimal"
	case 8: // random bytes as table as well
		t := randBytes(1 + r.Intn(6))
		return string(t), randBytes(r.Intn(20)), "random-table"
	default:
		return table, ascii(1+r.Intn(16), "abcdefghijklmnopqrstuvwxyz0123456789"), "plain"
	}
}

// serverPartition is what the server computes for a full key and n
// partitions: namespace extraction (common.ExtractNamesapce via
// server.GetPKAndHashSum), node.HashedKey, and the modulo that
// NamespaceMgr.GetNamespaceNodeWithPrimaryKeySum applies.
func serverPartition(rawKey []byte, n int) (ns string, pk []byte, pid int, err error) {
	cmd := redcon.Command{Args: [][]byte{[]byte("get"), rawKey}}
	ns, pk, sum, err := server.GetPKAndHashSum("get", cmd)
	if err != nil {
		return ns, pk, -1, err
	}
	return ns, pk, sum % n, nil
}

func runC15(c *vc.Ctx) error {
	c.Ev.Rule = "(a) one case = (full key, n): server-side extraction+hash (server.GetPKAndHashSum, node.GetHashedPartitionID, live NamespaceMgr lookup for hosted n) vs SDK PKey.ShardingKey+GetHashedPartitionID; " +
		"(b) one case = a key written through the redis protocol on an n-partition namespace and then read with the real read handler of EVERY partition's KVNode; " +
		"(c) one case = a command sent to a server that does not host the owner partition; (d) one case = a multi-key DEL/EXISTS/MGET/PLSET whose keys span >= 2 partitions, compared with the same command on a real 1-partition namespace and a Go map. " +
		"(d2) one case = a multi-key DEL/EXISTS/PLSET or a pipeline of SETs naming keys of TWO namespaces with different partition counts, every partition store of both namespaces read before and after; " +
		"(e) one case = a key written after a namespace was deleted and created again under the same name with another partition count, its local partitions replaced one by one (Destroy old, InitNamespaceNode+Start new, interleaved). " +
		"non-trivial+distinct: (a) distinct (key class, n); (b,c) distinct (n, data type, owner partition); (d) distinct (command, n, number of partitions spanned, has duplicates); (d2) distinct (command, namespace pair, key count); (e) distinct (p1->p2, order, data type, owner, owner hosted)."
	c.Ev.Assume("engines mem and pebble only (RocksDB build is a link shim, DESIGN 1.2)")
	c.Ev.Assume("namespace names are valid names without ':' (the server rejects others at namespace creation); table and key bytes are arbitrary")
	c.Ev.Assume("live partition lookup is exercised for hosted n only (quick 1,2,3,8; thorough also 5,16); n up to 1024 is covered through the exported hash functions and the modulo on the pk sum")
	c.Ev.Assume("every partition is a single-replica raft group hosted in this process")
	c.Ev.Assume("(b),(c): table names written through the protocol are valid UTF-8 (others crash the server via its metrics labels, a C11 finding); key parts are arbitrary bytes; (a) covers arbitrary table bytes")

	if err := RouteLogs(filepath.Join(c.Scratch, "servers.log")); err != nil {
		return err
	}
	if c.Replay != "" {
		return replayC15(c)
	}

	engines := []string{"mem", "pebble"}
	eng := engines[int(c.Seed)%2]
	if c.Thorough() {
		eng = "pebble"
	}
	liveNs := []int{1, 2, 3, 8}
	if c.Thorough() {
		liveNs = []int{1, 2, 3, 5, 8, 16}
	}
	c.Ev.Set("engine", eng)
	c.Ev.Set("live_partition_counts", liveNs)

	// S0 hosts all partitions of p<n>; S1/S2 split the partitions of sp3 and sp8.
	var specs []NSSpec
	for _, n := range liveNs {
		specs = append(specs, NSSpec{Name: "p" + strconv.Itoa(n), PartNum: n})
	}
	t0 := time.Now()
	s0, err := StartHost(HostConf{Dir: filepath.Join(c.Scratch, "s0"), Engine: eng, NodeID: 1, ClusterID: "verif-c15-a", Namespaces: specs})
	if err != nil {
		return fmt.Errorf("start s0: %v", err)
	}
	split := map[string][2][]int{
		"sp3": {{0, 2}, {1}},
		"sp8": {{0, 2, 4, 6}, {1, 3, 5, 7}},
	}
	otherEng := engines[(int(c.Seed)+1)%2]
	s1, err := StartHost(HostConf{Dir: filepath.Join(c.Scratch, "s1"), Engine: otherEng, NodeID: 2, ClusterID: "verif-c15-b", Namespaces: []NSSpec{
		{Name: "sp3", PartNum: 3, Parts: split["sp3"][0]}, {Name: "sp8", PartNum: 8, Parts: split["sp8"][0]}}})
	if err != nil {
		return fmt.Errorf("start s1: %v", err)
	}
	s2, err := StartHost(HostConf{Dir: filepath.Join(c.Scratch, "s2"), Engine: otherEng, NodeID: 3, ClusterID: "verif-c15-b", Namespaces: []NSSpec{
		{Name: "sp3", PartNum: 3, Parts: split["sp3"][1]}, {Name: "sp8", PartNum: 8, Parts: split["sp8"][1]}}})
	if err != nil {
		return fmt.Errorf("start s2: %v", err)
	}

	// (a) runs while the raft groups elect themselves.
	var wgA sync.WaitGroup
	wgA.Add(1)
	go func() {
		defer wgA.Done()
		c15FunctionCompare(c)
	}()

	for _, h := range []*Host{s0, s1, s2} {
		if err := h.WaitLeaders(30 * time.Second); err != nil {
			wgA.Wait()
			return fmt.Errorf("servers not ready: %v", err)
		}
	}
	c.Ev.Set("servers_ready_s", float64(int(time.Since(t0).Seconds()*10))/10)
	wgA.Wait()
	fmt.Printf("C15 (a) done: %d evaluations so far, servers ready\n", c.Ev.Evals())

	c15LiveLookup(c, s0, liveNs)
	c15Placement(c, s0, liveNs, eng)
	fmt.Printf("C15 (b) done: %d evaluations so far\n", c.Ev.Evals())
	c15NonOwner(c, []*Host{s1, s2}, split, otherEng)
	fmt.Printf("C15 (c) done: %d evaluations so far\n", c.Ev.Evals())
	c15MultiKey(c, s0, liveNs, eng)
	c15CrossNamespace(c, s0, liveNs, eng)
	fmt.Printf("C15 (d) done: %d evaluations so far\n", c.Ev.Evals())
	c15Recreate(c, s0, eng)
	fmt.Printf("C15 (e) done: %d evaluations so far\n", c.Ev.Evals())
	c.Ev.Set("peak_scratch_mib", dirSize(c.Scratch)>>20)
	return nil
}

// ---- (a) ------------------------------------------------------------------

func c15FunctionCompare(c *vc.Ctx) {
	pairs := c.Pick(200000, 10000000)
	perKey := 10
	nKeys := pairs / perKey
	chunk := 500
	chunks := (nKeys + chunk - 1) / chunk
	nsNames := []string{"default", "ns1", "a", "yz_ns-2", "N"}
	var fired int32
	c.ParallelFor(chunks, func(ci int) {
		r := c.Rand(int64(1000 + ci))
		for k := 0; k < chunk && ci*chunk+k < nKeys; k++ {
			table, pk, class := genPK(r)
			ns := nsNames[r.Intn(len(nsNames))]
			pkey := zanredisdb.NewPKey(ns, table, pk)
			sdkShard := pkey.ShardingKey()
			// server-side extraction of the hashed part from the full key
			sns, spk, err := common.ExtractNamesapce(pkey.RawKey)
			if err != nil || sns != ns || !bytes.Equal(spk, sdkShard) {
				if atomic.AddInt32(&fired, 1) <= 3 {
					c.Violation("hash-mismatch-sdk", fmt.Sprintf("primary key extraction differs: full key %q: server ns=%q pk=%q err=%v, SDK ns=%q sharding key=%q", pkey.RawKey, sns, spk, err, ns, sdkShard),
						c15Witness{Part: "a-extract", KeyHex: hex.EncodeToString(pkey.RawKey), Key: strconv.Quote(string(pkey.RawKey))})
				}
				continue
			}
			for j := 0; j < perKey; j++ {
				var n int
				switch j {
				case 0:
					n = 1 + r.Intn(16)
				case 1:
					n = []int{1, 2, 3, 1023, 1024, 512, 7}[r.Intn(7)]
				default:
					n = 1 + r.Intn(1024)
				}
				sdkPid := zanredisdb.GetHashedPartitionID(sdkShard, n)
				nodePid := node.GetHashedPartitionID(spk, n)
				_, _, srvPid, err := serverPartition(pkey.RawKey, n)
				c.Ev.Eval()
				c.Ev.Nontrivial(fmt.Sprintf("a/%s/%d", class, n))
				bad := ""
				switch {
				case err != nil:
					bad = fmt.Sprintf("server.GetPKAndHashSum error %v", err)
				case nodePid < 0 || nodePid >= n || srvPid < 0 || srvPid >= n:
					if atomic.AddInt32(&fired, 1) <= 3 {
						c.Violation("partition-out-of-range", fmt.Sprintf("key %q n=%d: node.GetHashedPartitionID=%d server(pkSum%%n)=%d not in [0,%d)", pkey.RawKey, n, nodePid, srvPid, n),
							c15Witness{Part: "a-hash", N: n, KeyHex: hex.EncodeToString(pkey.RawKey), Key: strconv.Quote(string(pkey.RawKey))})
					}
					continue
				case nodePid != sdkPid:
					bad = fmt.Sprintf("node.GetHashedPartitionID=%d SDK=%d", nodePid, sdkPid)
				case srvPid != sdkPid:
					bad = fmt.Sprintf("server GetPKAndHashSum%%n=%d SDK=%d", srvPid, sdkPid)
				}
				if bad != "" && atomic.AddInt32(&fired, 1) <= 3 {
					c.Violation("hash-mismatch-sdk", fmt.Sprintf("key %q n=%d: %s", pkey.RawKey, n, bad),
						c15Witness{Part: "a-hash", N: n, KeyHex: hex.EncodeToString(pkey.RawKey), Key: strconv.Quote(string(pkey.RawKey))})
				}
			}
			if ci == 0 && k < 3 {
				c.Ev.Sample(12, map[string]interface{}{"part": "a", "class": class, "full_key": strconv.Quote(string(pkey.RawKey)), "sdk_pid_n8": zanredisdb.GetHashedPartitionID(sdkShard, 8)})
			}
		}
	})
	c.Ev.Count("a_pairs", int64(nKeys*perKey))
}

func pidOfFullName(full string) int {
	_, pid := common.GetNamespaceAndPartition(full)
	return pid
}

// c15LiveLookup asks the running namespace manager (the function the redis
// path uses) for the partition of generated keys.
func c15LiveLookup(c *vc.Ctx, s0 *Host, liveNs []int) {
	keys := c.Pick(20000, 400000)
	var fired int32
	c.ParallelFor(len(liveNs), func(i int) {
		n := liveNs[i]
		ns := "p" + strconv.Itoa(n)
		r := c.Rand(int64(2000 + n))
		for k := 0; k < keys/len(liveNs); k++ {
			table, pk, class := genPK(r)
			pkey := zanredisdb.NewPKey(ns, table, pk)
			want := zanredisdb.GetHashedPartitionID(pkey.ShardingKey(), n)
			sns, spk, err := common.ExtractNamesapce(pkey.RawKey)
			if err != nil {
				continue
			}
			nn, err := s0.Srv.GetNamespace(sns, spk)
			c.Ev.Eval()
			c.Ev.Nontrivial(fmt.Sprintf("a-live/%s/%d", class, n))
			c.Ev.Count("a_live_lookups", 1)
			if err != nil {
				if atomic.AddInt32(&fired, 1) <= 3 {
					c.Violation("partition-out-of-range", fmt.Sprintf("live lookup of key %q on %d partitions (all hosted) failed: %v (SDK partition %d)", pkey.RawKey, n, err, want),
						c15Witness{Part: "a-live", N: n, KeyHex: hex.EncodeToString(pkey.RawKey), Key: strconv.Quote(string(pkey.RawKey))})
				}
				continue
			}
			got := pidOfFullName(nn.FullName())
			if got != want && atomic.AddInt32(&fired, 1) <= 3 {
				c.Violation("hash-mismatch-sdk", fmt.Sprintf("live lookup: key %q on %d partitions is served by %s, SDK computes partition %d", pkey.RawKey, n, nn.FullName(), want),
					c15Witness{Part: "a-live", N: n, KeyHex: hex.EncodeToString(pkey.RawKey), Key: strconv.Quote(string(pkey.RawKey))})
			}
		}
	})
}

// ---- (b) ------------------------------------------------------------------

type typeOps struct {
	name  string
	write func(key []byte, val string) [][]byte
	// read returns the read command and a predicate "this reply shows the key"
	read    func(key []byte) [][]byte
	present func(r Reply, val string) bool
	absent  func(r Reply) bool
}

var c15Types = []typeOps{
	{"kv", func(k []byte, v string) [][]byte { return [][]byte{[]byte("SET"), k, []byte(v)} },
		func(k []byte) [][]byte { return [][]byte{[]byte("get"), k} },
		func(r Reply, v string) bool { return r.Kind == '$' && string(r.Str) == v },
		func(r Reply) bool { return r.IsNil() }},
	{"hash", func(k []byte, v string) [][]byte { return [][]byte{[]byte("HSET"), k, []byte("f"), []byte(v)} },
		func(k []byte) [][]byte { return [][]byte{[]byte("hget"), k, []byte("f")} },
		func(r Reply, v string) bool { return r.Kind == '$' && string(r.Str) == v },
		func(r Reply) bool { return r.IsNil() }},
	{"list", func(k []byte, v string) [][]byte { return [][]byte{[]byte("RPUSH"), k, []byte(v)} },
		func(k []byte) [][]byte { return [][]byte{[]byte("lrange"), k, []byte("0"), []byte("-1")} },
		func(r Reply, v string) bool { return r.Kind == '*' && len(r.Arr) == 1 && string(r.Arr[0].Str) == v },
		func(r Reply) bool { return r.Kind == '*' && len(r.Arr) == 0 }},
	{"set", func(k []byte, v string) [][]byte { return [][]byte{[]byte("SADD"), k, []byte(v)} },
		func(k []byte) [][]byte { return [][]byte{[]byte("smembers"), k} },
		func(r Reply, v string) bool { return r.Kind == '*' && len(r.Arr) == 1 && string(r.Arr[0].Str) == v },
		func(r Reply) bool { return r.Kind == '*' && len(r.Arr) == 0 }},
	{"zset", func(k []byte, v string) [][]byte { return [][]byte{[]byte("ZADD"), k, []byte("1"), []byte(v)} },
		func(k []byte) [][]byte { return [][]byte{[]byte("zrange"), k, []byte("0"), []byte("-1")} },
		func(r Reply, v string) bool { return r.Kind == '*' && len(r.Arr) == 1 && string(r.Arr[0].Str) == v },
		func(r Reply) bool { return r.Kind == '*' && len(r.Arr) == 0 }},
}

// genUserKey makes keys that are accepted by the write path (non-empty key
// part, total below the key size limit) but otherwise hostile.
func genUserKey(r *rand.Rand, uniq int) (string, []byte) {
	for {
		table, pk, _ := genPK(r)
		if len(pk) == 0 || len(pk) > 2000 || len(table) == 0 || strings.Contains(table, ":") || !utf8.ValidString(table) {
			// tables that are not valid UTF-8 crash the server through its metrics labels
			// (reported under C11: process-died/server.metricLoop); the key part stays arbitrary
			continue
		}
		if bytes.IndexByte([]byte(table), ':') >= 0 {
			continue
		}
		// make keys unique so that a key is written once per type
		pk = append(pk, []byte("#"+strconv.Itoa(uniq))...)
		return table, pk
	}
}

// whoHolds reads the key with the real read handler of every hosted partition
// of the namespace on every host and returns the list of partitions (as
// "host/pid") whose store shows it.
func whoHolds(hosts []*Host, ns string, n int, t typeOps, full []byte, val string) (holders []string, unclear []string) {
	for hi, h := range hosts {
		for pid := 0; pid < n; pid++ {
			kvn := h.Node(ns, pid)
			if kvn == nil {
				continue
			}
			rs, err := CallRead(kvn, t.read(full))
			tag := fmt.Sprintf("s%d/%s-%d", hi, ns, pid)
			if err != nil || len(rs) != 1 {
				unclear = append(unclear, fmt.Sprintf("%s: err=%v replies=%d", tag, err, len(rs)))
				continue
			}
			switch {
			case t.present(rs[0], val):
				holders = append(holders, tag)
			case t.absent(rs[0]):
			default:
				unclear = append(unclear, fmt.Sprintf("%s: %s", tag, rs[0].Short(80)))
			}
		}
	}
	return
}

func c15Placement(c *vc.Ctx, s0 *Host, liveNs []int, eng string) {
	perN := c.Pick(150, 1200) // keys per n; each written once per data type
	var fired int32
	c.ParallelFor(len(liveNs), func(i int) {
		n := liveNs[i]
		ns := "p" + strconv.Itoa(n)
		r := c.Rand(int64(3000 + n))
		conn, err := Dial(s0.Addr(), 20*time.Second)
		if err != nil {
			c.Inconclusive("b: dial: " + err.Error())
			return
		}
		defer conn.Close()
		for k := 0; k < perN; k++ {
			table, pk := genUserKey(r, k)
			pkey := zanredisdb.NewPKey(ns, table, pk)
			owner := zanredisdb.GetHashedPartitionID(pkey.ShardingKey(), n)
			for ti, t := range c15Types {
				val := fmt.Sprintf("v-%d-%d-%d", n, k, ti)
				wcmd := t.write(pkey.RawKey, val)
				rp, err := conn.Do(wcmd...)
				if err != nil {
					c.Inconclusive(fmt.Sprintf("b: %s on %s: %v", t.name, ns, err))
					conn.Close()
					conn, _ = Dial(s0.Addr(), 20*time.Second)
					if conn == nil {
						return
					}
					continue
				}
				if rp.IsErr() {
					// a rejected write is not a placement case (e.g. key limits)
					c.Ev.Count("b_write_rejected", 1)
					continue
				}
				holders, unclear := whoHolds([]*Host{s0}, ns, n, t, pkey.RawKey, val)
				c.Ev.Eval()
				c.Ev.Count("b_placements", 1)
				c.Ev.Nontrivial(fmt.Sprintf("b/%d/%s/%d", n, t.name, owner))
				want := fmt.Sprintf("s0/%s-%d", ns, owner)
				ok := len(holders) == 1 && holders[0] == want && len(unclear) == 0
				if !ok && atomic.AddInt32(&fired, 1) <= 3 {
					c.Violation("key-on-wrong-partition", fmt.Sprintf("%s key %q written through the protocol on %d partitions: SDK owner %s, readable from %v (unclear: %v)", t.name, pkey.RawKey, n, want, holders, unclear),
						c15Witness{Part: "b", Engine: eng, N: n, KeyHex: hex.EncodeToString(pkey.RawKey), Key: strconv.Quote(string(pkey.RawKey)), Commands: [][]string{qargv(wcmd)},
							Detail: map[string]interface{}{"owner": want, "holders": holders, "unclear": unclear}})
				}
				if k == 0 && ti == 0 {
					c.Ev.Sample(12, map[string]interface{}{"part": "b", "n": n, "cmd": qargv(wcmd), "owner": want, "holders": holders})
				}
			}
		}
	})
}

// ---- (c) ------------------------------------------------------------------

func c15NonOwner(c *vc.Ctx, hosts []*Host, split map[string][2][]int, eng string) {
	perNs := c.Pick(150, 1500)
	var fired int32
	names := []string{"sp3", "sp8"}
	c.ParallelFor(len(names), func(i int) {
		ns := names[i]
		n := 3
		if ns == "sp8" {
			n = 8
		}
		hostOf := map[int]int{}
		for hi := 0; hi < 2; hi++ {
			for _, p := range split[ns][hi] {
				hostOf[p] = hi
			}
		}
		r := c.Rand(int64(4000 + n))
		conns := make([]*Conn, 2)
		for hi := range conns {
			cn, err := Dial(hosts[hi].Addr(), 20*time.Second)
			if err != nil {
				c.Inconclusive("c: dial: " + err.Error())
				return
			}
			defer cn.Close()
			conns[hi] = cn
		}
		report := func(sig, msg string, key []byte, cmds [][][]byte, detail interface{}) {
			if atomic.AddInt32(&fired, 1) <= 3 {
				var qs [][]string
				for _, cm := range cmds {
					qs = append(qs, qargv(cm))
				}
				c.Violation(sig, msg, c15Witness{Part: "c", Engine: eng, N: n, KeyHex: hex.EncodeToString(key), Key: strconv.Quote(string(key)), Commands: qs, Detail: detail})
			}
		}
		var lastKV [2][]byte // per host: a kv key that exists in a partition hosted there
		for k := 0; k < perNs; k++ {
			table, pk := genUserKey(r, k)
			pkey := zanredisdb.NewPKey(ns, table, pk)
			owner := zanredisdb.GetHashedPartitionID(pkey.ShardingKey(), n)
			right := hostOf[owner]
			wrong := 1 - right
			t := c15Types[k%len(c15Types)]
			val := fmt.Sprintf("w-%d-%d", n, k)
			wcmd := t.write(pkey.RawKey, val)
			// 1. write addressed to the server that does not host the owner
			rp, err := conns[wrong].Do(wcmd...)
			if err != nil {
				c.Inconclusive(fmt.Sprintf("c: %v", err))
				return
			}
			holders, unclear := whoHolds(hosts, ns, n, t, pkey.RawKey, val)
			c.Ev.Eval()
			c.Ev.Count("c_wrong_server_writes", 1)
			c.Ev.Nontrivial(fmt.Sprintf("c/%d/%s/%d", n, t.name, owner))
			if !rp.IsErr() || len(holders) != 0 || len(unclear) != 0 {
				report("executed-on-non-owner", fmt.Sprintf("%s for key %q (owner partition %d hosted by s%d) sent to s%d: reply %s, afterwards readable from %v (unclear %v)", wcmd[0], pkey.RawKey, owner, right, wrong, rp.Short(120), holders, unclear),
					pkey.RawKey, [][][]byte{wcmd}, map[string]interface{}{"sent_to": wrong, "owner_host": right, "reply": rp.Short(200), "holders": holders})
				continue
			}
			if k == 0 {
				c.Ev.Sample(12, map[string]interface{}{"part": "c", "n": n, "cmd": qargv(wcmd), "sent_to": fmt.Sprintf("s%d", wrong), "owner": fmt.Sprintf("s%d/%s-%d", right, ns, owner), "reply": rp.Short(120)})
			}
			// 2. the same write addressed to the owner's server
			rp, err = conns[right].Do(wcmd...)
			if err != nil {
				c.Inconclusive(fmt.Sprintf("c: %v", err))
				return
			}
			if rp.IsErr() {
				c.Ev.Count("c_write_rejected", 1)
				continue
			}
			holders, unclear = whoHolds(hosts, ns, n, t, pkey.RawKey, val)
			want := fmt.Sprintf("s%d/%s-%d", right, ns, owner)
			c.Ev.Eval()
			if len(holders) != 1 || holders[0] != want || len(unclear) != 0 {
				report("key-on-wrong-partition", fmt.Sprintf("%s key %q on split namespace %s: owner %s, readable from %v (unclear %v)", t.name, pkey.RawKey, ns, want, holders, unclear),
					pkey.RawKey, [][][]byte{wcmd}, map[string]interface{}{"owner": want, "holders": holders})
				continue
			}
			// 3. read addressed to the wrong server: must be an error, not "no such key"
			rcmd := t.read(pkey.RawKey)
			rp, err = conns[wrong].Do(rcmd...)
			if err != nil {
				c.Inconclusive(fmt.Sprintf("c: %v", err))
				return
			}
			c.Ev.Eval()
			c.Ev.Count("c_wrong_server_reads", 1)
			if !rp.IsErr() {
				report("executed-on-non-owner", fmt.Sprintf("read %s of key %q (owner on s%d) answered by s%d with %s instead of an error", rcmd[0], pkey.RawKey, right, wrong, rp.Short(120)),
					pkey.RawKey, [][][]byte{wcmd, rcmd}, map[string]interface{}{"sent_to": wrong, "owner_host": right, "reply": rp.Short(200)})
			}
			// 4. multi-key command containing a key of a partition the server does not host
			if t.name == "kv" {
				if foreign := lastKV[wrong]; foreign != nil {
					for _, name := range []string{"EXISTS", "DEL"} {
						mc := [][]byte{[]byte(name), pkey.RawKey, foreign}
						rp, err = conns[right].Do(mc...)
						if err != nil {
							c.Inconclusive(fmt.Sprintf("c: %v", err))
							return
						}
						c.Ev.Eval()
						c.Ev.Count("c_multikey_foreign", 1)
						// whatever the reply is, the key of the partition hosted elsewhere must be untouched,
						// and a success reply must not pretend to have looked at it
						pk2, _ := zanredisdb.ParsePKey(string(foreign))
						own2 := zanredisdb.GetHashedPartitionID(pk2.ShardingKey(), n)
						got, _ := CallRead1(hosts[hostOf[own2]].Node(ns, own2), "get", string(foreign))
						if got.IsNil() || !rp.IsErr() {
							report("executed-on-non-owner", fmt.Sprintf("%s %q %q sent to s%d which does not host the second key's partition %d: reply %s (expected an error), second key afterwards %s", name, pkey.RawKey, foreign, right, own2, rp.Short(100), got.Short(60)),
								pkey.RawKey, [][][]byte{mc}, nil)
						}
					}
				}
				g, _ := CallRead1(hosts[right].Node(ns, owner), "get", string(pkey.RawKey))
				if !g.IsNil() {
					lastKV[right] = append([]byte(nil), pkey.RawKey...)
				}
			}
		}
	})
}

// ---- (d) ------------------------------------------------------------------

type mkOp struct {
	Name string
	Keys []string // user keys (table:key part), PLSET: key,val,key,val
}

func (o mkOp) argv(ns string) [][]byte {
	out := [][]byte{[]byte(o.Name)}
	for i, k := range o.Keys {
		if (o.Name == "PLSET" || o.Name == "SET") && i%2 == 1 {
			out = append(out, []byte(k))
		} else {
			out = append(out, []byte(ns+":"+k))
		}
	}
	return out
}

func (o mkOp) keyList() []string {
	if o.Name == "SET" {
		return o.Keys[:1]
	}
	if o.Name != "PLSET" {
		return o.Keys
	}
	var ks []string
	for i := 0; i < len(o.Keys); i += 2 {
		ks = append(ks, o.Keys[i])
	}
	return ks
}

// modelApply is the one-store reference: Redis semantics on a Go map.
func modelApply(m map[string]string, o mkOp) string {
	switch o.Name {
	case "SET":
		m[o.Keys[0]] = o.Keys[1]
		return "+OK"
	case "PLSET":
		n := 0
		for i := 0; i+1 < len(o.Keys); i += 2 {
			m[o.Keys[i]] = o.Keys[i+1]
			n++
		}
		return strings.TrimSpace(strings.Repeat("+OK ", n))
	case "DEL":
		cnt := 0
		for _, k := range o.Keys {
			if _, ok := m[k]; ok {
				delete(m, k)
				cnt++
			}
		}
		return ":" + strconv.Itoa(cnt)
	case "EXISTS":
		cnt := 0
		for _, k := range o.Keys {
			if _, ok := m[k]; ok {
				cnt++
			}
		}
		return ":" + strconv.Itoa(cnt)
	case "MGET":
		var parts []string
		for _, k := range o.Keys {
			if v, ok := m[k]; ok {
				parts = append(parts, "$"+strconv.Quote(v))
			} else {
				parts = append(parts, "nil")
			}
		}
		return "[" + strings.Join(parts, " ") + "]"
	}
	return "?"
}

func renderReplies(rs []Reply) string {
	parts := make([]string, len(rs))
	for i, r := range rs {
		parts[i] = r.String()
	}
	return strings.Join(parts, " ")
}

func genMkOps(r *rand.Rand, count int) []mkOp {
	pool := make([]string, 24)
	for i := range pool {
		pool[i] = fmt.Sprintf("mk:k%02d", i)
	}
	pool[3] = "mk:k:with:sep"
	pool[7] = "mk2:k07"
	pool[11] = "mk:\x00\xff"
	var ops []mkOp
	vseq := 0
	pick := func(max int, dup bool) []string {
		n := 1 + r.Intn(max)
		ks := make([]string, 0, n+2)
		for i := 0; i < n; i++ {
			ks = append(ks, pool[r.Intn(len(pool))])
		}
		if dup && len(ks) > 0 {
			ks = append(ks, ks[r.Intn(len(ks))])
			r.Shuffle(len(ks), func(i, j int) { ks[i], ks[j] = ks[j], ks[i] })
		}
		return ks
	}
	for len(ops) < count {
		dup := r.Intn(3) == 0
		switch x := r.Intn(10); {
		case x < 3:
			ks := pick(8, dup)
			var kv []string
			for _, k := range ks {
				vseq++
				kv = append(kv, k, "val"+strconv.Itoa(vseq))
			}
			ops = append(ops, mkOp{"PLSET", kv})
		case x < 5:
			ops = append(ops, mkOp{"DEL", pick(6, dup)})
		case x < 7:
			ops = append(ops, mkOp{"EXISTS", pick(10, dup)})
		case x < 9:
			ops = append(ops, mkOp{"MGET", pick(10, dup)})
		default:
			vseq++
			ops = append(ops, mkOp{"SET", []string{pool[r.Intn(len(pool))], "val" + strconv.Itoa(vseq)}})
		}
	}
	return ops
}

// explainFirstPartitionOnly renders what MGET returns if the whole command is
// executed by the partition of its first key only (candidate defect #5).
func explainFirstPartitionOnly(m map[string]string, o mkOp, n int) string {
	first := zanredisdb.GetHashedPartitionID([]byte(o.Keys[0]), n)
	var parts []string
	for _, k := range o.Keys {
		v, ok := m[k]
		if ok && zanredisdb.GetHashedPartitionID([]byte(k), n) == first {
			parts = append(parts, "$"+strconv.Quote(v))
		} else {
			parts = append(parts, "nil")
		}
	}
	return "[" + strings.Join(parts, " ") + "]"
}

// c15DirectedMulti: the smallest multi-key cases, one per command and n: two
// keys of different partitions. They double as minimal witnesses.
func c15DirectedMulti(c *vc.Ctx, s0 *Host, liveNs []int, eng string) map[string]bool {
	firedSig := map[string]bool{}
	conn, err := Dial(s0.Addr(), 20*time.Second)
	if err != nil {
		c.Inconclusive("d: dial: " + err.Error())
		return firedSig
	}
	defer conn.Close()
	for _, n := range liveNs {
		if n < 2 {
			continue
		}
		ns := "p" + strconv.Itoa(n)
		// two user keys in different partitions
		ka, kb := "", ""
		for i := 0; i < 1000 && kb == ""; i++ {
			k := fmt.Sprintf("mkd:w%d", i)
			if ka == "" {
				ka = k
			} else if zanredisdb.GetHashedPartitionID([]byte(k), n) != zanredisdb.GetHashedPartitionID([]byte(ka), n) {
				kb = k
			}
		}
		fa, fb := ns+":"+ka, ns+":"+kb
		type step struct {
			cmd  []string
			want string
			name string
		}
		steps := []step{
			{[]string{"SET", fb, "vb"}, "+OK", "SET"},
			{[]string{"MGET", fa, fb}, `[nil $"vb"]`, "MGET"},
			{[]string{"MGET", fb, fa}, `[$"vb" nil]`, "MGET"},
			{[]string{"EXISTS", fa, fb}, ":1", "EXISTS"},
			{[]string{"SET", fa, "va"}, "+OK", "SET"},
			{[]string{"EXISTS", fa, fb}, ":2", "EXISTS"},
			{[]string{"MGET", fa, fb}, `[$"va" $"vb"]`, "MGET"},
			{[]string{"DEL", fa, fb}, ":2", "DEL"},
			{[]string{"EXISTS", fa, fb}, ":0", "EXISTS"},
			{[]string{"MGET", fa, fb}, `[nil nil]`, "MGET"},
		}
		var hist [][]string
		for _, st := range steps {
			rs, err := conn.DoFramed(B(st.cmd...))
			if err != nil {
				c.Inconclusive("d: " + err.Error())
				return firedSig
			}
			hist = append(hist, qargv(B(st.cmd...)))
			got := renderReplies(rs)
			c.Ev.Eval()
			c.Ev.Count("d_directed_two_key_cases", 1)
			c.Ev.Nontrivial(fmt.Sprintf("d-directed/%s/%d", st.name, n))
			if got == st.want {
				continue
			}
			sig := "multikey-mismatch/" + st.name
			if st.name == "MGET" {
				sig = "multikey-not-merged/MGET"
			}
			if !firedSig[sig] {
				firedSig[sig] = true
				c.Violation(sig, fmt.Sprintf("%d partitions, keys %q (partition %d) and %q (partition %d): %v answers %s, one store answers %s", n, fa, zanredisdb.GetHashedPartitionID([]byte(ka), n), fb, zanredisdb.GetHashedPartitionID([]byte(kb), n), st.cmd, got, st.want),
					c15Witness{Part: "d", Engine: eng, N: n, Commands: append([][]string(nil), hist...), Detail: map[string]interface{}{"reply": got, "one_store_reply": st.want}})
			}
			if st.name != "MGET" && st.name != "EXISTS" {
				break // later steps depend on this write
			}
		}
	}
	return firedSig
}

// c15MalformedKey: a multi-key EXISTS / DEL that names a malformed key (no
// table separator) next to good ones. One store: a key that cannot exist is
// never counted; the command may also be refused as a whole.
func c15MalformedKey(c *vc.Ctx, s0 *Host, liveNs []int, eng string) {
	conn, err := Dial(s0.Addr(), 20*time.Second)
	if err != nil {
		c.Inconclusive("d: dial: " + err.Error())
		return
	}
	defer conn.Close()
	fired := map[string]bool{}
	for _, n := range liveNs {
		ns := "p" + strconv.Itoa(n)
		good, absent := ns+":mkbad:good", ns+":mkbad:absent"
		for _, bad := range []string{ns + ":badkey", ns + ":", ns + ":mkbad"} {
			if rp, err := conn.DoS("SET", good, "v"); err != nil || rp.IsErr() {
				c.Inconclusive(fmt.Sprintf("d: SET %s: %v %s", good, err, rp.Short(60)))
				return
			}
			for _, st := range []struct {
				cmd  []string
				want string // the count when the command is not refused
			}{
				{[]string{"EXISTS", good, bad}, ":1"},
				{[]string{"EXISTS", bad, good}, ":1"},
				{[]string{"EXISTS", absent, bad}, ":0"},
				{[]string{"EXISTS", bad, bad, good}, ":1"},
				{[]string{"DEL", absent, bad}, ":0"},
				{[]string{"DEL", bad, good}, ":1"},
			} {
				rs, err := conn.DoFramed(B(st.cmd...))
				if err != nil {
					c.Inconclusive("d: " + err.Error())
					return
				}
				got := renderReplies(rs)
				c.Ev.Eval()
				c.Ev.Count("d_malformed_key_cases", 1)
				c.Ev.Nontrivial(fmt.Sprintf("d-malformed/%s/%d/%d", st.cmd[0], n, len(st.cmd)))
				if n == liveNs[0] || n == 3 {
					c.Ev.Sample(40, map[string]interface{}{"part": "d-malformed", "cmd": qargv(B(st.cmd...)), "reply": cut(got, 100)})
				}
				if (len(rs) == 1 && rs[0].IsErr()) || got == st.want {
					continue
				}
				sig := "multikey-malformed-key-counted/" + st.cmd[0]
				if !fired[sig] {
					fired[sig] = true
					c.Violation(sig, fmt.Sprintf("%v on %d partition(s) answers %s: the malformed key %q (no table / key part) is counted; one store answers %s or refuses the command", st.cmd, n, got, bad, st.want),
						c15Witness{Part: "d", Engine: eng, N: n, Commands: [][]string{qargv(B("SET", good, "v")), qargv(B(st.cmd...))}, Detail: map[string]interface{}{"reply": got, "one_store_reply": st.want}})
				}
			}
		}
	}
}

// c15PartialFailure: PLSET / a pipeline of SETs spanning partitions in which
// one pair must fail at the node (key longer than the 10240-byte limit, which
// only the apply side checks). One reply per pair, OK for the pairs that were
// written and an error for the others, the stores agree with the replies, and
// the connection stays in step (the PING sentinel is answered +PONG right
// after the replies of the command).
func c15PartialFailure(c *vc.Ctx, s0 *Host, liveNs []int, eng string) {
	conn, err := Dial(s0.Addr(), 20*time.Second)
	if err != nil {
		c.Inconclusive("d: dial: " + err.Error())
		return
	}
	defer func() { conn.Close() }()
	fired := map[string]bool{}
	r := c.Rand(5300)
	cases := c.Pick(6, 40)
	seq := 0
	for _, n := range liveNs {
		if n < 2 {
			continue
		}
		ns := "p" + strconv.Itoa(n)
		for cs := 0; cs < cases; cs++ {
			name := []string{"PLSET", "SET-PIPELINE"}[cs%2]
			pairs := 3 + r.Intn(3)
			badAt := r.Intn(pairs)
			bad := "mkpf:" + strings.Repeat("k", 10300+r.Intn(50)) + strconv.Itoa(seq)
			badPid := zanredisdb.GetHashedPartitionID([]byte(bad), n)
			var keys, vals []string
			other := false
			for i := 0; i < pairs; i++ {
				seq++
				if i == badAt {
					keys = append(keys, bad)
					vals = append(vals, "vbad")
					continue
				}
				k := fmt.Sprintf("mkpf:g%d", seq)
				// make sure at least one good key lives in another partition than the bad one
				for !other && zanredisdb.GetHashedPartitionID([]byte(k), n) == badPid {
					seq++
					k = fmt.Sprintf("mkpf:g%d", seq)
				}
				if zanredisdb.GetHashedPartitionID([]byte(k), n) != badPid {
					other = true
				}
				keys = append(keys, k)
				vals = append(vals, fmt.Sprintf("v%d", seq))
			}
			argv := [][]byte{[]byte("PLSET")}
			for i := range keys {
				argv = append(argv, []byte(ns+":"+keys[i]), []byte(vals[i]))
			}
			var rs []Reply
			if name == "PLSET" {
				rs, err = conn.DoLone(argv, 500*time.Millisecond)
			} else {
				rs, err = conn.DoPipelinedSetsFramed(argv[1:], 500*time.Millisecond)
			}
			shown := qargv(argv)
			if name == "SET-PIPELINE" {
				shown = append([]string{"(pipeline of SET key value, sent in one write:)"}, shown[1:]...)
			}
			if err != nil {
				// no PONG in step: the connection is out of sync (or closed)
				if !fired["multikey-partial-failure/"+name] {
					fired["multikey-partial-failure/"+name] = true
					c.Violation("multikey-partial-failure/"+name, fmt.Sprintf("%d partitions: after %v the connection does not answer the PING sentinel: %v (replies so far: %s)", n, cutList(shown, 9), err, cut(renderReplies(rs), 200)),
						c15Witness{Part: "d-partial", Engine: eng, N: n, Commands: [][]string{shown}})
				}
				conn.Close()
				if conn, err = Dial(s0.Addr(), 20*time.Second); err != nil {
					return
				}
				continue
			}
			oks, errs := 0, 0
			for _, rp := range rs {
				if rp.IsErr() {
					errs++
				} else {
					oks++
				}
			}
			// stores: which pairs were written
			written := 0
			badWritten := false
			for i, k := range keys {
				g, gerr := conn.DoS("GET", ns+":"+k)
				if gerr != nil {
					c.Inconclusive("d: " + gerr.Error())
					return
				}
				if !g.IsErr() && !g.IsNil() && string(g.Str) == vals[i] {
					written++
					if i == badAt {
						badWritten = true
					}
				}
			}
			c.Ev.Eval()
			c.Ev.Count("d_partial_failure_cases", 1)
			c.Ev.Nontrivial(fmt.Sprintf("d-partial/%s/%d/%d/%d", name, n, pairs, errs))
			if cs == 0 {
				c.Ev.Sample(40, map[string]interface{}{"part": "d-partial", "n": n, "cmd": cutList(shown, 9), "replies": cut(renderReplies(rs), 200), "pairs_written": written})
			}
			problem := ""
			switch {
			case len(rs) != pairs:
				problem = fmt.Sprintf("%d replies for %d pairs", len(rs), pairs)
			case oks != written:
				problem = fmt.Sprintf("%d OK replies but %d pairs are stored", oks, written)
			case badWritten || errs == 0:
				problem = "the pair with the over-long key was not refused"
			}
			if problem != "" && !fired["multikey-partial-failure/"+name] {
				fired["multikey-partial-failure/"+name] = true
				c.Violation("multikey-partial-failure/"+name, fmt.Sprintf("%d partitions, %d pairs of which #%d has a %d-byte key (refused at the node): %s; replies before the PING sentinel: %s; command %v", n, pairs, badAt, len(bad), problem, cut(renderReplies(rs), 300), cutList(shown, 9)),
					c15Witness{Part: "d-partial", Engine: eng, N: n, Commands: [][]string{shown}, Detail: map[string]interface{}{"replies": renderReplies(rs), "pairs": pairs, "pairs_stored": written, "ok_replies": oks, "error_replies": errs}})
			}
		}
	}
}

func c15MultiKey(c *vc.Ctx, s0 *Host, liveNs []int, eng string) {
	c15MalformedKey(c, s0, liveNs, eng)
	c15PartialFailure(c, s0, liveNs, eng)
	directed := c15DirectedMulti(c, s0, liveNs, eng)
	count := c.Pick(300, 3000)
	ops := genMkOps(c.Rand(5000), count)
	type run struct {
		n       int
		replies []string
		final   map[string]string
		err     error
	}
	runs := make([]*run, len(liveNs))
	c.ParallelFor(len(liveNs), func(i int) {
		n := liveNs[i]
		ns := "p" + strconv.Itoa(n)
		ru := &run{n: n, final: map[string]string{}}
		runs[i] = ru
		conn, err := Dial(s0.Addr(), 20*time.Second)
		if err != nil {
			ru.err = err
			return
		}
		defer conn.Close()
		for oi, o := range ops {
			var rs []Reply
			var err error
			switch {
			case o.Name == "PLSET" && oi%3 == 2:
				// explicit PLSET, sent alone (the SDK never does this, a raw client can)
				rs, err = conn.DoLone(o.argv(ns), 300*time.Millisecond)
			case o.Name == "PLSET":
				// k pipelined SETs in one write: the server folds them into PLSET
				rs, err = conn.DoPipelinedSetsFramed(o.argv(ns)[1:], 300*time.Millisecond) // framed: a missing reply is an observation, not a hang
			default:
				rs, err = conn.DoFramed(o.argv(ns))
			}
			if err != nil {
				ru.err = fmt.Errorf("%s: %v", o.Name, err)
				return
			}
			if o.Name == "PLSET" {
				// one status per pair, order of partitions is not defined
				ss := make([]string, len(rs))
				for j, r := range rs {
					ss[j] = r.String()
				}
				sort.Strings(ss)
				ru.replies = append(ru.replies, strings.Join(ss, " "))
			} else {
				ru.replies = append(ru.replies, renderReplies(rs))
			}
		}
		// final state, read key by key (single-key GET is routed by the server)
		seen := map[string]bool{}
		for _, o := range ops {
			for _, k := range o.keyList() {
				if seen[k] {
					continue
				}
				seen[k] = true
				rp, err := conn.Do([]byte("GET"), []byte(ns+":"+k))
				if err != nil {
					ru.err = err
					return
				}
				if !rp.IsNil() {
					ru.final[k] = rp.String()
				}
			}
		}
	})
	var one *run
	for _, ru := range runs {
		if ru.err != nil {
			c.Inconclusive(fmt.Sprintf("d: n=%d: %v", ru.n, ru.err))
			return
		}
		if ru.n == 1 {
			one = ru
		}
	}
	// model pass; also remember the model state BEFORE each op (for the explanation of MGET)
	model := map[string]string{}
	modelReplies := make([]string, len(ops))
	before := make([]map[string]string, len(ops))
	for i, o := range ops {
		if o.Name == "MGET" {
			cp := make(map[string]string, len(model))
			for k, v := range model {
				cp[k] = v
			}
			before[i] = cp
		}
		modelReplies[i] = modelApply(model, o)
	}
	// The real 1-partition namespace goes through the same merge code as the
	// n-partition ones, so the differential is blind to defects of that code
	// that do not depend on the partition count (e.g. a key named twice being
	// dropped). The independent Go map (redis semantics: EXISTS counts every
	// occurrence, DEL each existing key once, PLSET / pipelined SETs in order,
	// one OK per pair, MGET per position) is therefore an oracle for the
	// one-store run: replies (incl. their number) and the final state.
	devs := map[string]int{}
	modelFired := map[string]bool{}
	hasDup := func(o mkOp) bool {
		seen := map[string]bool{}
		for _, k := range o.keyList() {
			if seen[k] {
				return true
			}
			seen[k] = true
		}
		return false
	}
	for i, o := range ops {
		if one.replies[i] == modelReplies[i] {
			continue
		}
		devs[o.Name]++
		sig := "multikey-mismatch/" + o.Name
		what := "differs from the one-store model"
		if hasDup(o) {
			sig = "multikey-dup-key/" + o.Name
			what = "names a key more than once and differs from the one-store model"
		}
		if modelFired[sig] {
			continue
		}
		modelFired[sig] = true
		c.Violation(sig, fmt.Sprintf("%s on the 1-partition namespace %s: reply %s, model %s (command %d of the sequence: %v)", o.Name, what, cut(one.replies[i], 200), cut(modelReplies[i], 200), i, cutList(qargv(o.argv("p1")), 14)),
			c15Witness{Part: "d-model", Engine: eng, N: 1, Commands: [][]string{qargv(o.argv("p1"))},
				Detail: map[string]interface{}{"op_index": i, "reply": one.replies[i], "model_reply": modelReplies[i], "ops_seed_stream": 5000, "note": "state before the command = the sequence genMkOps(seed stream 5000) up to op_index"}})
	}
	c.Ev.Set("d_onestore_vs_gomap_deviations", devs)
	{
		mf := map[string]string{}
		for k, v := range model {
			mf[k] = "$" + strconv.Quote(v)
		}
		c.Ev.Eval()
		if !sameMap(one.final, mf) && !modelFired["multikey-dup-key/final-state"] {
			c.Violation("multikey-dup-key/final-state", fmt.Sprintf("after %d commands the keys of the 1-partition namespace differ from the one-store model: %s", len(ops), diffMap(one.final, mf)),
				c15Witness{Part: "d-model", Engine: eng, N: 1, Detail: map[string]interface{}{"diff": diffMap(one.final, mf), "ops_seed_stream": 5000}})
		}
	}
	fired := map[string]int{}
	for _, ru := range runs {
		if ru.n == 1 {
			for i := range ops {
				_ = i
				c.Ev.Eval()
			}
			continue
		}
		ns := "p" + strconv.Itoa(ru.n)
		for i, o := range ops {
			parts := map[int]bool{}
			dups := false
			seen := map[string]bool{}
			for _, k := range o.keyList() {
				parts[zanredisdb.GetHashedPartitionID([]byte(k), ru.n)] = true
				if seen[k] {
					dups = true
				}
				seen[k] = true
			}
			c.Ev.Eval()
			c.Ev.Count("d_multikey_commands", 1)
			if len(parts) >= 2 {
				c.Ev.Count("d_multikey_spanning", 1)
				c.Ev.Nontrivial(fmt.Sprintf("d/%s/%d/%d/%v", o.Name, ru.n, len(parts), dups))
			}
			if ru.replies[i] == one.replies[i] {
				continue
			}
			sig := "multikey-mismatch/" + o.Name
			expl := ""
			if o.Name == "MGET" && ru.replies[i] == explainFirstPartitionOnly(before[i], o, ru.n) {
				sig = "multikey-not-merged/MGET"
				expl = " (exactly what the first key's partition alone holds: the command was not split per partition)"
			}
			fired[sig]++
			if fired[sig] > 1 || directed[sig] {
				continue // counted; the directed two-key case already gave the minimal witness
			}
			// minimal witness: the SETs that create the keys of this command, then the command
			var cmds [][]string
			src := before[i]
			if src == nil {
				src = map[string]string{}
			}
			if o.Name == "MGET" {
				for _, k := range o.Keys {
					if v, ok := src[k]; ok {
						cmds = append(cmds, qargv([][]byte{[]byte("SET"), []byte(ns + ":" + k), []byte(v)}))
					}
				}
			}
			cmds = append(cmds, qargv(o.argv(ns)))
			c.Violation(sig, fmt.Sprintf("%s over %d partitions (keys span %d partitions): reply %s, the same command on one store (1-partition namespace) replies %s%s", o.Name, ru.n, len(parts), cut(ru.replies[i], 300), cut(one.replies[i], 300), expl),
				c15Witness{Part: "d", Engine: eng, N: ru.n, Commands: cmds,
					Detail: map[string]interface{}{"op_index": i, "reply": ru.replies[i], "one_store_reply": one.replies[i], "go_map_reply": modelReplies[i], "ops_seed_stream": 5000}})
		}
		// final state
		c.Ev.Eval()
		if !sameMap(ru.final, one.final) {
			sig := "multikey-mismatch/final-state"
			fired[sig]++
			if fired[sig] <= 2 {
				c.Violation(sig, fmt.Sprintf("after %d commands the key space of the %d-partition namespace differs from the one-store run: %s", len(ops), ru.n, diffMap(ru.final, one.final)),
					c15Witness{Part: "d", Engine: eng, N: ru.n, Detail: map[string]interface{}{"diff": diffMap(ru.final, one.final)}})
			}
		}
	}
	c.Ev.Sample(16, map[string]interface{}{"part": "d", "first_ops": func() [][]string {
		var out [][]string
		for i := 0; i < 4 && i < len(ops); i++ {
			out = append(out, qargv(ops[i].argv("p3")))
		}
		return out
	}()})
}

func cut(s string, n int) string {
	if len(s) > n {
		return s[:n] + "..."
	}
	return s
}

func sameMap(a, b map[string]string) bool {
	if len(a) != len(b) {
		return false
	}
	for k, v := range a {
		if w, ok := b[k]; !ok || w != v {
			return false
		}
	}
	return true
}

func diffMap(a, b map[string]string) string {
	var ds []string
	for k, v := range a {
		if w, ok := b[k]; !ok {
			ds = append(ds, fmt.Sprintf("%q: %s vs absent", k, cut(v, 60)))
		} else if w != v {
			ds = append(ds, fmt.Sprintf("%q: %s vs %s", k, cut(v, 60), cut(w, 60)))
		}
	}
	for k, w := range b {
		if _, ok := a[k]; !ok {
			ds = append(ds, fmt.Sprintf("%q: absent vs %s", k, cut(w, 60)))
		}
	}
	sort.Strings(ds)
	if len(ds) > 8 {
		ds = append(ds[:8], fmt.Sprintf("... %d more", len(ds)-8))
	}
	return strings.Join(ds, "; ")
}

// ---- replay ----------------------------------------------------------------

// replayC15 re-runs the command list of a witness on a fresh n-partition
// namespace and prints every reply plus where each key is readable from.
func replayC15(c *vc.Ctx) error {
	b, err := ioutil.ReadFile(c.Replay)
	if err != nil {
		return err
	}
	var doc struct {
		Signature string     `json:"signature"`
		Witness   c15Witness `json:"witness"`
	}
	if err := json.Unmarshal(b, &doc); err != nil {
		return err
	}
	w := doc.Witness
	if w.N == 0 {
		w.N = 3
	}
	if w.Engine == "" {
		w.Engine = "mem"
	}
	if strings.HasPrefix(w.Part, "a") {
		raw, _ := hex.DecodeString(w.KeyHex)
		ns, pk, pid, err := serverPartition(raw, w.N)
		fmt.Printf("replay (a): key %q n=%d: server ns=%q pk=%q pid=%d err=%v\n", raw, w.N, ns, pk, pid, err)
		if err == nil {
			sdk := zanredisdb.GetHashedPartitionID(pk, w.N)
			fmt.Printf("  SDK GetHashedPartitionID(server pk)=%d node.GetHashedPartitionID=%d\n", sdk, node.GetHashedPartitionID(pk, w.N))
			if sdk != pid || pid < 0 || pid >= w.N {
				c.Violation(doc.Signature, "replayed: still differs", w)
			}
		}
		return nil
	}
	ns := "p" + strconv.Itoa(w.N)
	h, err := StartHost(HostConf{Dir: filepath.Join(c.Scratch, "r0"), Engine: w.Engine, NodeID: 1, ClusterID: "verif-c15-r",
		Namespaces: []NSSpec{{Name: ns, PartNum: w.N}, {Name: "p1", PartNum: 1}}})
	if err != nil {
		return err
	}
	if err := h.WaitLeaders(30 * time.Second); err != nil {
		return err
	}
	last := map[string]string{}
	for _, target := range []string{ns, "p1"} {
		conn, err := Dial(h.Addr(), 20*time.Second)
		if err != nil {
			return err
		}
		for _, q := range w.Commands {
			var argv [][]byte
			for _, a := range q {
				s, err := strconv.Unquote(a)
				if err != nil {
					return fmt.Errorf("witness argument %s was truncated, cannot replay", a)
				}
				if strings.HasPrefix(s, ns+":") && target != ns {
					s = target + s[len(ns):]
				}
				argv = append(argv, []byte(s))
			}
			var rs []Reply
			if strings.EqualFold(string(argv[0]), "plset") {
				rs, err = conn.DoLone(argv, 300*time.Millisecond)
			} else {
				rs, err = conn.DoFramed(argv)
			}
			last[target] = renderReplies(rs)
			fmt.Printf("replay on %s: %v -> %s (err %v)\n", target, qargv(argv), cut(last[target], 300), err)
		}
		conn.Close()
	}
	if w.Part == "d" && last[ns] != last["p1"] {
		c.Violation(doc.Signature, fmt.Sprintf("replayed: last command replies %s on %d partitions and %s on one store", cut(last[ns], 200), w.N, cut(last["p1"], 200)), w)
	}
	return nil
}
