package englab

/*
#include <stdlib.h>
static char *englab_freed(void) {
	char *p = malloc(16);
	p[0] = 1;
	free(p);
	return p;
}
*/
import "C"

import "unsafe"

// useAfterFree reads C memory that was already freed, from Go code: the class
// of defect the ASan pass exists for (pebble hands out Go slices that alias
// C.calloc'ed cache blocks). It runs only when the asan child is started with
// ENGLAB_ASAN_SELFTEST=1, to show that the pass reports such an access:
//
//	ENGLAB_ASAN_SELFTEST=1 bin/vcheck-asan --child englab-asan 1 0 1 /tmp/x.log /tmp/x
func useAfterFree() byte {
	p := C.englab_freed()
	return *(*byte)(unsafe.Pointer(p))
}
