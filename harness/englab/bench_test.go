package englab

import (
	"encoding/json"
	"fmt"
	"os"
	"strings"
	"testing"
)

func TestFind(t *testing.T) {
	dir, _ := os.MkdirTemp("", "englab-bench")
	defer os.RemoveAll(dir)
	quietLogs(dir)
	want := os.Getenv("WANT")
	n := 0
	for i := 0; i < 1500 && n < 2; i++ {
		seq := genSequence(1, i, 36)
		for _, typ := range engines {
			fs, _ := runSequence(seq, typ, dir, newStats(), 1000, nil)
			for _, f := range fs {
				if strings.HasPrefix(f.Sig, want) {
					n++
					s2, f2 := shrink(seq, typ, dir, f.Sig, 400)
					if f2 == nil {
						fmt.Println("shrink failed")
						f2 = &f
						s2 = seq
					}
					b, _ := json.MarshalIndent(s2.Steps, "", " ")
					fmt.Println("SEQ", i, f2.Sig, "|", f2.Summary)
					fmt.Println(string(b))
					d, _ := json.MarshalIndent(f2.Detail, "", " ")
					fmt.Println(string(d))
					break
				}
			}
		}
	}
}
