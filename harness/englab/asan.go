package englab

import (
	"bytes"
	"fmt"
	"io/ioutil"
	"os"
	"os/exec"
	"path/filepath"
	"regexp"
	"strconv"
	"strings"
	"time"

	"verif/harness/vc"
)

// asanChild: englab-asan <seed> <from> <n> <oplog> <dir>
// Runs sequences [from, from+n) on the pebble engine (the engine that holds
// C-allocated memory: cache blocks and memtable arenas come from C.calloc) and
// writes every operation to the op log before executing it, so that a fatal
// AddressSanitizer report can be attributed to the last logged operation.
func asanChild(args []string) int {
	if len(args) < 5 {
		fmt.Fprintln(os.Stderr, "usage: englab-asan <seed> <from> <n> <oplog> <dir>")
		return 2
	}
	seed, _ := strconv.ParseInt(args[0], 10, 64)
	from, _ := strconv.Atoi(args[1])
	n, _ := strconv.Atoi(args[2])
	quietLogs(args[4])
	f, err := os.Create(args[3])
	if err != nil {
		fmt.Fprintln(os.Stderr, err)
		return 2
	}
	defer f.Close()
	var ops int64
	st := newStats()
	if os.Getenv("ENGLAB_ASAN_SELFTEST") == "1" {
		f.WriteString("SEQ selftest\nselftest: Go read of freed C memory\n")
		fmt.Fprintln(os.Stderr, "selftest read:", useAfterFree())
	}
	for i := from; i < from+n; i++ {
		seq := genSequence(seed, i, 36)
		// keep the log bounded: one sequence at a time
		f.Truncate(0)
		f.Seek(0, 0)
		fmt.Fprintf(f, "SEQ %d\n", i)
		_, err := runSequence(seq, "pebble", args[4], st, 4, func(s string) {
			ops++
			f.WriteString(s + "\n")
		})
		if err != nil {
			fmt.Fprintln(os.Stderr, "sequence", i, err)
			return 2
		}
	}
	f.Truncate(0)
	f.Seek(0, 0)
	fmt.Fprintf(f, "DONE sequences=%d ops=%d\n", n, ops)
	return 0
}

var asanKindRe = regexp.MustCompile(`ERROR: AddressSanitizer: (\S+)`)
var asanFrameRe = regexp.MustCompile(`#\d+ 0x[0-9a-f]+ in (\S+)`)

// runAsan runs a slice of the sequences a second time in children built with
// -asan. Any AddressSanitizer report is a violation.
func runAsan(c *vc.Ctx, nSeq int) error {
	bin := vc.VariantBinary("asan")
	if _, err := os.Stat(bin); err != nil {
		return fmt.Errorf("asan variant binary %s missing (./check builds it): %v", bin, err)
	}
	total := nSeq / 10 // thorough: 5000 sequences
	if total < 200 {
		total = 200
	}
	chunks := c.Workers
	per := (total + chunks - 1) / chunks
	type res struct {
		ok      bool
		report  string
		lastOps string
		err     string
		from    int
	}
	results := make([]res, chunks)
	c.ParallelFor(chunks, func(i int) {
		dir := filepath.Join(c.Scratch, fmt.Sprintf("asan-%d", i))
		os.MkdirAll(dir, 0755)
		oplog := filepath.Join(dir, "oplog.txt")
		from := i * per
		cmd := exec.Command(bin, "--child", "englab-asan", strconv.FormatInt(c.Seed, 10), strconv.Itoa(from), strconv.Itoa(per), oplog, dir)
		cmd.Env = append(os.Environ(), "ASAN_OPTIONS=detect_leaks=0:abort_on_error=0:halt_on_error=1")
		var stderr bytes.Buffer
		cmd.Stderr = &stderr
		cmd.Stdout = &stderr
		done := make(chan error, 1)
		if err := cmd.Start(); err != nil {
			results[i] = res{err: err.Error(), from: from}
			return
		}
		go func() { done <- cmd.Wait() }()
		select {
		case err := <-done:
			lb, _ := ioutil.ReadFile(oplog)
			se := stderr.String()
			switch {
			case strings.Contains(se, "AddressSanitizer"):
				results[i] = res{report: se, lastOps: tailLines(string(lb), 25), from: from}
			case err != nil || !strings.HasPrefix(string(lb), "DONE"):
				results[i] = res{err: fmt.Sprintf("%v: %s", err, tailLines(se, 20)), lastOps: tailLines(string(lb), 5), from: from}
			default:
				results[i] = res{ok: true, from: from}
			}
		case <-time.After(40 * time.Minute):
			cmd.Process.Kill()
			<-done
			results[i] = res{err: "watchdog", from: from}
		}
	})
	var reports, clean int64
	for i, r := range results {
		switch {
		case r.ok:
			clean++
			c.Ev.Eval()
		case r.report != "":
			reports++
			kind := "unknown"
			if m := asanKindRe.FindStringSubmatch(r.report); m != nil {
				kind = m[1]
			}
			frame := ""
			for _, m := range asanFrameRe.FindAllStringSubmatch(r.report, -1) {
				if strings.Contains(m[1], "ZanRedisDB") || strings.Contains(m[1], "pebble") {
					frame = m[1]
					break
				}
			}
			rep := r.report
			if len(rep) > 6000 {
				rep = rep[:6000]
			}
			c.Violation("asan/"+kind+"/"+frame, fmt.Sprintf("pebble: AddressSanitizer %s in %s; last logged operations: %s", kind, frame, strings.ReplaceAll(tailLines(r.lastOps, 3), "\n", " ; ")),
				Witness{Kind: "asan", Engine: "pebble", Extra: map[string]interface{}{"report": rep, "last_ops": strings.Split(r.lastOps, "\n"), "seed": c.Seed, "chunk_from": r.from, "chunk_len": per}})
		default:
			c.Inconclusive(fmt.Sprintf("asan child %d (sequences from %d): %s; last ops: %s", i, r.from, r.err, r.lastOps))
		}
	}
	c.Ev.Count("asan_sequences", int64(per)*clean)
	c.Ev.Count("asan_children_clean", clean)
	c.Ev.Count("asan_reports", reports)
	fmt.Printf("C20 asan: %d children x %d sequences on pebble, %d clean, %d reports\n", chunks, per, clean, reports)
	return nil
}

func tailLines(s string, n int) string {
	ls := strings.Split(strings.TrimRight(s, "\n"), "\n")
	if len(ls) > n {
		ls = ls[len(ls)-n:]
	}
	return strings.Join(ls, "\n")
}
