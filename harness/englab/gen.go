package englab

import (
	"bytes"
	"encoding/binary"
	"math/rand"
	"sort"

	"github.com/youzan/ZanRedisDB/common"
)

// Move is one raw iterator positioning call.
type Move struct {
	M   string `json:"m"` // SeekToFirst | SeekToLast | Seek | SeekForPrev | Next | Prev
	Key B      `json:"key"`
}

// Read is one read check.
type Read struct {
	Kind string    `json:"kind"`           // point | iter | walk
	API  string    `json:"api,omitempty"`  // point: which API
	Keys []B       `json:"keys,omitempty"` // point
	Iter *IterSpec `json:"iter,omitempty"`
	// walk
	WalkSnap      bool   `json:"walk_snap,omitempty"`
	WalkIgnoreDel bool   `json:"walk_ignore_del,omitempty"`
	WalkNoTS      uint8  `json:"walk_no_timestamp,omitempty"`
	Moves         []Move `json:"moves,omitempty"`
}

// Step is one step of a sequence.
type Step struct {
	Kind string `json:"kind"` // batch | reads | compact | snapiter
	// batch / snapiter
	Obj       string `json:"obj,omitempty"` // default | shared | fresh
	Ops       []Op   `json:"ops,omitempty"`
	End       string `json:"end,omitempty"` // commit | clear | destroy
	ViaWrite  bool   `json:"via_write,omitempty"`
	OpenReads []Read `json:"open_reads,omitempty"` // executed while the batch is open (must not see it)
	// reads
	Reads []Read `json:"reads,omitempty"`
	// snapiter: iterator opened before the batch is committed, drained after
	Snap *IterSpec `json:"snap,omitempty"`
}

// SeqParams are the per-sequence generator parameters (part of every witness).
type SeqParams struct {
	Seed         int64  `json:"seed"`
	Index        int    `json:"index"`
	Hazard       bool   `json:"order_hazard"`         // batches may contain order-dependent pairs (put→delrange, delete→merge)
	NulExt       bool   `json:"nul_extended_keys"`    // the key universe may hold k and k+"\x00"+... together
	EmptyStartDR bool   `json:"empty_start_delrange"` // DeleteRange may start at the empty key
	EmptyKey     bool   `json:"empty_key"`
	BigValues    bool   `json:"big_values"`
	SmallMemtb   bool   `json:"small_memtable"`
	WAL          bool   `json:"wal"`
	Prefix       B      `json:"prefix"`
	Note         string `json:"note,omitempty"`
}

type Sequence struct {
	P     SeqParams `json:"params"`
	Steps []Step    `json:"steps"`
}

const (
	nLimitCombos = 4096 // minSet,maxSet,type(4),rev,off(4),cnt(4),ignoreDel,withSnap
	nRangeCombos = 128  // minSet,maxSet,type(4),rev,ignoreDel,withSnap
)

var offClasses = []string{"0", "1", "k", ">n"}
var cntClasses = []string{"-1", "0", "1", "k"}
var rangeTypes = []uint8{common.RangeClose, common.RangeLOpen, common.RangeROpen, common.RangeOpen}

type gen struct {
	r        *rand.Rand
	p        SeqParams
	md       *model
	keys     [][]byte // normal keys
	counters [][]byte // counter keys (8-byte values only)
	bounds   [][]byte
	comboPos int
}

func cat(a []byte, s string) []byte {
	out := make([]byte, 0, len(a)+len(s))
	out = append(out, a...)
	out = append(out, s...)
	return out
}

func (g *gen) buildUniverse() {
	p := []byte(g.p.Prefix)
	cand := [][]byte{
		cat(p, ""), cat(p, "\x00"), cat(p, "\x00\x00"), cat(p, "\x00\xff"), cat(p, "\x01"),
		cat(p, "a"), cat(p, "a\x00"), cat(p, "ab"), cat(p, "ab\xff"), cat(p, "abc"), cat(p, "b"),
		cat(p, "\xfe"), cat(p, "\xff"), cat(p, "\xff\x00"), cat(p, "\xff\xff"), cat(p, "\xff\xff\xff"),
		[]byte("\x00"), []byte("\x00\x00"), []byte("\x00\x00\x01"), []byte("\xff"), []byte("\xff\xff"), []byte("\xff\xff\xff\xff"),
		cat(p, "m"+string(bytes.Repeat([]byte("x"), 300))),
	}
	// a second prefix differing inside / right after the 3-byte prefix that the
	// pebble comparer splits on
	p2 := cat(p, "")
	if len(p2) >= 3 {
		p2[2]++
	} else {
		p2 = cat(p2, "~~~")
	}
	cand = append(cand, cat(p2, "1"), cat(p2, "2"), cat(p2, "2\x00"))
	if g.p.EmptyKey {
		cand = append(cand, []byte{})
	}
	seen := map[string]bool{}
	// In sequences without the nul-extension flag no key of the universe is
	// another key followed by a 0x00 byte (and more): the mem engine's radix
	// index terminates keys with 0x00 and mis-orders such pairs, which would
	// otherwise drown every other observation on that engine.
	nulExtOf := func(k []byte) bool {
		if g.p.NulExt {
			return false
		}
		for o := range seen {
			if isNulExt([]byte(o), k) || isNulExt(k, []byte(o)) {
				return true
			}
		}
		return false
	}
	pc := cat(p, "#c")
	for _, s := range []string{"1", "2", "1\x00", "\xff", ""} {
		k := cat(pc, s)
		if !seen[string(k)] && !nulExtOf(k) {
			seen[string(k)] = true
			g.counters = append(g.counters, k)
		}
	}
	for _, i := range g.r.Perm(len(cand)) {
		k := cand[i]
		if len(k) == 0 && !g.p.EmptyKey {
			continue
		}
		if seen[string(k)] || nulExtOf(k) {
			continue
		}
		// keep ~80 % of the candidates
		if g.r.Intn(10) < 8 {
			seen[string(k)] = true
			g.keys = append(g.keys, k)
		}
	}
	bs := map[string]bool{}
	add := func(b []byte) {
		if !bs[string(b)] {
			bs[string(b)] = true
			g.bounds = append(g.bounds, b)
		}
	}
	for _, k := range append(append([][]byte{}, g.keys...), g.counters...) {
		add(k)
		add(cat(k, "\x00"))
		if len(k) > 0 {
			add(k[:len(k)-1])
			pk := cat(k, "")
			if pk[len(pk)-1] > 0 {
				pk[len(pk)-1]--
				add(cat(pk, "\xff"))
			}
		}
	}
	add([]byte{})
	add([]byte("\xff\xff\xff\xff\xff"))
	sort.Slice(g.bounds, func(i, j int) bool { return bytes.Compare(g.bounds[i], g.bounds[j]) < 0 })
}

func (g *gen) value() []byte {
	x := g.r.Intn(100)
	var n int
	switch {
	case x < 6:
		return nil
	case x < 12:
		return []byte{}
	case x < 44:
		n = 1 + g.r.Intn(8)
	case x < 50:
		n = 8 // exactly a timestamp suffix and nothing else (empty user value in the data mapping)
	case x < 92 || !g.p.BigValues:
		n = 9 + g.r.Intn(56)
	default:
		n = 1024 + g.r.Intn(7*1024)
	}
	v := make([]byte, n)
	g.r.Read(v)
	if n > 0 && g.r.Intn(4) == 0 {
		v[g.r.Intn(n)] = 0
	}
	if n > 0 && g.r.Intn(4) == 0 {
		v[g.r.Intn(n)] = 0xff
	}
	return v
}

func (g *gen) counterVal() []byte {
	v := make([]byte, 8)
	switch g.r.Intn(5) {
	case 0:
		binary.LittleEndian.PutUint64(v, 1)
	case 1:
		binary.LittleEndian.PutUint64(v, ^uint64(0)) // -1
	case 2:
		binary.LittleEndian.PutUint64(v, uint64(g.r.Intn(1000)))
	case 3:
		binary.LittleEndian.PutUint64(v, g.r.Uint64())
	default:
		binary.LittleEndian.PutUint64(v, 0)
	}
	return v
}

func (g *gen) existingKeys() [][]byte {
	var out [][]byte
	for _, e := range g.md.sorted() {
		out = append(out, e.K)
	}
	return out
}

// bound picks a range bound: biased to existing keys and their neighbours.
func (g *gen) bound() []byte {
	ex := g.existingKeys()
	x := g.r.Intn(100)
	switch {
	case x < 45 && len(ex) > 0:
		return cat(ex[g.r.Intn(len(ex))], "")
	case x < 70 && len(ex) > 0:
		k := ex[g.r.Intn(len(ex))]
		switch g.r.Intn(3) {
		case 0:
			return cat(k, "\x00")
		case 1:
			if len(k) > 0 {
				return cat(k[:len(k)-1], "")
			}
			return []byte{}
		default:
			if len(k) > 0 && k[len(k)-1] > 0 {
				pk := cat(k, "")
				pk[len(pk)-1]--
				return cat(pk, "\xff")
			}
			return cat(k, "\x00")
		}
	}
	return cat(g.bounds[g.r.Intn(len(g.bounds))], "")
}

// isNulExt reports whether b is a followed by a 0x00 byte and anything.
func isNulExt(a, b []byte) bool {
	return len(b) > len(a) && bytes.HasPrefix(b, a) && b[len(a)] == 0
}

func covered(k, s, e []byte) bool { return bytes.Compare(k, s) >= 0 && bytes.Compare(k, e) < 0 }

// batchOps generates the operations of one batch. Unless the sequence is an
// order-hazard sequence it avoids the two in-batch patterns whose result
// depends on the engine applying operations strictly in order against the
// batch's own earlier effects (a DeleteRange covering a key written earlier in
// the same batch; a Merge on a key deleted earlier in the same batch), so that
// a divergence there cannot hide everything else.
func (g *gen) batchOps() []Op {
	n := g.r.Intn(9)
	if g.r.Intn(12) == 0 {
		n = 0
	}
	var ops []Op
	written := map[string]bool{}
	var deletedKeys [][]byte
	var deletedRanges [][2][]byte
	wasDeleted := func(k []byte) bool {
		for _, d := range deletedKeys {
			if bytes.Equal(d, k) {
				return true
			}
		}
		for _, rg := range deletedRanges {
			if covered(k, rg[0], rg[1]) {
				return true
			}
		}
		return false
	}
	for len(ops) < n {
		x := g.r.Intn(100)
		switch {
		case x < 40: // put
			k := g.keys[g.r.Intn(len(g.keys))]
			ops = append(ops, Op{Kind: "put", Key: cat(k, ""), Val: g.value()})
			written[string(k)] = true
		case x < 48: // put on counter
			k := g.counters[g.r.Intn(len(g.counters))]
			ops = append(ops, Op{Kind: "put", Key: cat(k, ""), Val: g.counterVal()})
			written[string(k)] = true
		case x < 63: // delete
			var k []byte
			if g.r.Intn(4) == 0 {
				k = g.counters[g.r.Intn(len(g.counters))]
			} else {
				k = g.keys[g.r.Intn(len(g.keys))]
			}
			ops = append(ops, Op{Kind: "del", Key: cat(k, "")})
			deletedKeys = append(deletedKeys, k)
		case x < 80: // merge
			k := g.counters[g.r.Intn(len(g.counters))]
			if !g.p.Hazard && wasDeleted(k) {
				n--
				continue
			}
			ops = append(ops, Op{Kind: "merge", Key: cat(k, ""), Val: g.counterVal()})
			written[string(k)] = true
		default: // delete range, start <= end
			s, e := g.bound(), g.bound()
			if bytes.Compare(s, e) > 0 {
				s, e = e, s
			}
			if len(s) == 0 && !g.p.EmptyStartDR {
				// pebble loses a range tombstone that starts at the empty key when it
				// compacts (deleted keys come back); keep that input class to the
				// sequences flagged for it
				s = []byte{0}
				if bytes.Compare(s, e) > 0 {
					e = s
				}
			}
			if !g.p.Hazard {
				bad := false
				for w := range written {
					if covered([]byte(w), s, e) {
						bad = true
					}
				}
				if bad {
					n--
					continue
				}
			}
			ops = append(ops, Op{Kind: "delrange", Key: s, Val: e})
			deletedRanges = append(deletedRanges, [2][]byte{s, e})
		}
	}
	return ops
}

// noTS picks the timestamp-stripping mode of an iterator: not switched on,
// the two value types the engines know, or a type byte they do not strip for.
func (g *gen) noTS() uint8 {
	switch x := g.r.Intn(20); {
	case x < 8:
		return 0
	case x < 13:
		return 22
	case x < 18:
		return 21
	case x < 19:
		return 23
	}
	return uint8(1 + g.r.Intn(255))
}

func (g *gen) iterSpec(limit bool) IterSpec {
	var s IterSpec
	var combo int
	if limit {
		combo = (g.comboPos * 2731) % nLimitCombos
	} else {
		combo = (g.comboPos * 37) % nRangeCombos
	}
	g.comboPos++
	s.Combo = combo
	bit := func() int { b := combo & 1; combo >>= 1; return b }
	two := func() int { b := combo & 3; combo >>= 2; return b }
	minSet, maxSet := bit() == 1, bit() == 1
	s.Type = rangeTypes[two()]
	s.Reverse = bit() == 1
	s.Count = -1
	s.OffClass, s.CntClass = "0", "-1"
	if limit {
		s.OffClass = offClasses[two()]
		s.CntClass = cntClasses[two()]
	}
	s.IgnoreDel = bit() == 1
	s.WithSnap = bit() == 1
	s.NoTS = g.noTS()
	if minSet {
		s.Min = g.bound()
	}
	if maxSet {
		s.Max = g.bound()
	}
	if minSet && maxSet && bytes.Compare(s.Min, s.Max) > 0 && g.r.Intn(100) < 92 {
		s.Min, s.Max = s.Max, s.Min
	}
	if limit {
		if g.r.Intn(4) == 0 {
			s.Ctor = "RangeLimit"
		} else {
			s.Ctor = "RangeLimitWithOpts"
		}
	} else {
		if g.r.Intn(3) == 0 {
			s.Ctor = "Range"
		} else {
			s.Ctor = "RangeWithOpts"
		}
	}
	n := len(rangeOf(g.md.sorted(), s))
	switch s.OffClass {
	case "1":
		s.Offset = 1
	case "k":
		hi := n - 1
		if hi < 2 {
			hi = 2
		}
		s.Offset = 2 + g.r.Intn(hi-1)
	case ">n":
		s.Offset = n + 1 + g.r.Intn(3)
	}
	switch s.CntClass {
	case "0":
		s.Count = 0
	case "1":
		s.Count = 1
	case "k":
		hi := n
		if hi < 2 {
			hi = 2
		}
		s.Count = 2 + g.r.Intn(hi-1)
	}
	return s
}

func (g *gen) walk() Read {
	rd := Read{Kind: "walk", WalkSnap: g.r.Intn(2) == 0, WalkIgnoreDel: g.r.Intn(4) == 0, WalkNoTS: g.noTS()}
	all := g.md.sorted()
	pos := -1 // invalid
	n := 6 + g.r.Intn(12)
	for i := 0; i < n; i++ {
		x := g.r.Intn(100)
		var mv Move
		switch {
		case pos >= 0 && x < 30:
			mv.M = "Next"
		case pos >= 0 && x < 55:
			mv.M = "Prev"
		case x < 65:
			mv.M = "SeekToFirst"
		case x < 72:
			mv.M = "SeekToLast"
		case x < 87:
			mv.M = "Seek"
			mv.Key = g.bound()
		default:
			mv.M = "SeekForPrev"
			mv.Key = g.bound()
		}
		pos = walkStep(all, pos, mv)
		rd.Moves = append(rd.Moves, mv)
	}
	return rd
}

// walkStep is the reference semantics of the raw iterator (engine/iterator.go
// Iterator, as documented for RocksDB and engine/radix_iter.go): Seek = first
// key >= target, SeekForPrev = last key <= target, Next/Prev step or become
// invalid at the ends. pos < 0 means invalid.
func walkStep(all []kv, pos int, mv Move) int {
	switch mv.M {
	case "SeekToFirst":
		if len(all) == 0 {
			return -1
		}
		return 0
	case "SeekToLast":
		return len(all) - 1
	case "Seek":
		for i, e := range all {
			if bytes.Compare(e.K, mv.Key) >= 0 {
				return i
			}
		}
		return -1
	case "SeekForPrev":
		for i := len(all) - 1; i >= 0; i-- {
			if bytes.Compare(all[i].K, mv.Key) <= 0 {
				return i
			}
		}
		return -1
	case "Next":
		if pos < 0 {
			return -1
		}
		if pos+1 >= len(all) {
			return -1
		}
		return pos + 1
	case "Prev":
		if pos < 0 {
			return -1
		}
		return pos - 1
	}
	return -1
}

var pointAPIs = []string{"GetBytes", "GetBytesNoLock", "Exist", "ExistNoLock", "MultiGetBytes", "GetRef", "GetRefNoLock", "GetValueWithOp", "GetValueWithOpNoLock"}

func (g *gen) pointReads(full bool) []Read {
	var keys []B
	for _, k := range g.keys {
		keys = append(keys, B(k))
	}
	for _, k := range g.counters {
		keys = append(keys, B(k))
	}
	// absent neighbours
	for i := 0; i < 3; i++ {
		keys = append(keys, B(g.bound()))
	}
	var out []Read
	if full {
		for _, api := range pointAPIs {
			out = append(out, Read{Kind: "point", API: api, Keys: keys})
		}
		return out
	}
	api := pointAPIs[g.r.Intn(len(pointAPIs))]
	sub := keys
	if len(sub) > 6 {
		st := g.r.Intn(len(sub) - 5)
		sub = sub[st : st+6]
	}
	return []Read{{Kind: "point", API: api, Keys: sub}}
}

func (g *gen) readPhase(nIter int) []Read {
	rs := g.pointReads(g.r.Intn(3) == 0)
	for i := 0; i < nIter; i++ {
		s := g.iterSpec(i%12 != 11)
		rs = append(rs, Read{Kind: "iter", Iter: &s})
	}
	rs = append(rs, g.walk(), g.walk())
	return rs
}

var prefixes = []string{"k", "tbl:", "\x15ns:t", "ab", "\xfe", "\x00k", "zz\xff"}

// genSequence builds sequence #index of a run: a function of (seed, index) only.
func genSequence(seed int64, index int, itersPerPhase int) *Sequence {
	r := rand.New(rand.NewSource(seed*7_368_787 + int64(index)*104_729 + 11))
	p := SeqParams{Seed: seed, Index: index}
	p.Hazard = index%5 == 4
	p.NulExt = index%3 == 0
	p.EmptyStartDR = index%11 == 6
	p.EmptyKey = index%7 == 3
	p.BigValues = index%4 == 1
	// the pebble version in go.mod cannot flush a memtable that holds the empty
	// user key (the flush is retried forever and Compact never returns), so
	// empty-key sequences neither compact nor use a small memtable
	p.SmallMemtb = index%8 == 1 && !p.EmptyKey
	p.WAL = index%16 == 5
	p.Prefix = B(prefixes[r.Intn(len(prefixes))])
	g := &gen{r: r, p: p, md: newModel()}
	// every sequence starts its option-combination walk at its own offset so
	// that the run as a whole covers all combinations many times
	g.comboPos = index * 977
	g.buildUniverse()
	seq := &Sequence{P: p}
	nb := 8 + r.Intn(14)
	for b := 0; b < nb; b++ {
		if r.Intn(12) == 0 && !p.EmptyKey {
			seq.Steps = append(seq.Steps, Step{Kind: "compact"})
		}
		st := Step{Kind: "batch", Ops: g.batchOps(), ViaWrite: r.Intn(2) == 0}
		switch x := r.Intn(100); {
		case x < 40:
			st.Obj = "default"
		case x < 75:
			st.Obj = "shared"
		default:
			st.Obj = "fresh"
		}
		switch x := r.Intn(100); {
		case x < 72:
			st.End = "commit"
		case x < 90 || st.Obj != "fresh":
			st.End = "clear"
		default:
			st.End = "destroy"
		}
		if r.Intn(4) == 0 {
			s := g.iterSpec(true)
			st.OpenReads = append(g.pointReads(false), Read{Kind: "iter", Iter: &s})
		}
		if st.End == "commit" && r.Intn(8) == 0 {
			st.Kind = "snapiter"
			s := g.iterSpec(false)
			st.Snap = &s
		}
		seq.Steps = append(seq.Steps, st)
		if st.End == "commit" {
			g.md.apply(st.Ops)
		}
		if b%3 == 2 || b == nb-1 {
			seq.Steps = append(seq.Steps, Step{Kind: "reads", Reads: g.readPhase(itersPerPhase)})
		}
	}
	return seq
}
