package englab

import (
	"bytes"
	"fmt"
	"os"
	"path/filepath"
	"runtime"
	"strings"
	"sync/atomic"

	"github.com/youzan/ZanRedisDB/engine"
)

// Finding is one observed deviation of an engine from the reference.
type Finding struct {
	Sig     string      `json:"signature"`
	Summary string      `json:"summary"`
	Engine  string      `json:"engine"`
	Step    int         `json:"step"` // index of the offending step in the sequence
	Detail  interface{} `json:"detail,omitempty"`
}

// Stats are the measured counters of one or more sequence executions.
type Stats struct {
	Ops           map[string]int64
	Batches       map[string]int64
	PointReads    int64
	IterChecks    int64
	IterElems     int64
	Walks         int64
	WalkMoves     int64
	StateChecks   int64
	OpenReads     int64
	SnapIters     int64
	Compactions   int64
	GuardOverrun  map[string]int64 // engine call sites that wrote past len() of a caller's slice
	CombosNonTriv map[string]struct{}
	CombosAll     map[string]struct{}
	NoTSCases     map[string]int64 // engine/api/mode/stored-length class: elements read through an iterator
}

func newStats() *Stats {
	return &Stats{Ops: map[string]int64{}, Batches: map[string]int64{}, GuardOverrun: map[string]int64{},
		CombosNonTriv: map[string]struct{}{}, CombosAll: map[string]struct{}{}, NoTSCases: map[string]int64{}}
}

func (s *Stats) merge(o *Stats) {
	for k, v := range o.Ops {
		s.Ops[k] += v
	}
	for k, v := range o.Batches {
		s.Batches[k] += v
	}
	for k, v := range o.GuardOverrun {
		s.GuardOverrun[k] += v
	}
	for k := range o.CombosNonTriv {
		s.CombosNonTriv[k] = struct{}{}
	}
	for k := range o.CombosAll {
		s.CombosAll[k] = struct{}{}
	}
	for k, v := range o.NoTSCases {
		s.NoTSCases[k] += v
	}
	s.PointReads += o.PointReads
	s.IterChecks += o.IterChecks
	s.IterElems += o.IterElems
	s.Walks += o.Walks
	s.WalkMoves += o.WalkMoves
	s.StateChecks += o.StateChecks
	s.OpenReads += o.OpenReads
	s.SnapIters += o.SnapIters
	s.Compactions += o.Compactions
}

var engSeq int64

// openEngine opens a fresh engine of the given type under dir.
func openEngine(typ, dir string, p SeqParams) (engine.KVEngine, error) {
	if typ != "pebble" && typ != "mem" {
		return nil, fmt.Errorf("englab never opens engine type %q", typ)
	}
	cfg := engine.NewRockConfig()
	cfg.DataDir = filepath.Join(dir, fmt.Sprintf("%s-%d", typ, atomic.AddInt64(&engSeq, 1)))
	cfg.EngineType = typ
	cfg.BlockCache = 8 << 20
	cfg.WriteBufferSize = 4 << 20
	if p.SmallMemtb {
		cfg.WriteBufferSize = 64 << 10
	}
	cfg.DisableWAL = !p.WAL
	eng, err := engine.NewKVEng(cfg)
	if err != nil {
		return nil, err
	}
	if err := eng.OpenEng(); err != nil {
		return nil, err
	}
	return eng, nil
}

func closeEngine(eng engine.KVEngine, typ string) {
	dir := filepath.Dir(eng.GetDataDir())
	eng.CloseAll()
	os.RemoveAll(dir)
}

// guard returns a copy of b with one spare byte of capacity holding a
// sentinel, so that an engine writing past len() of a caller's slice is
// observed (reported in evidence) instead of silently corrupting harness data.
func guard(b []byte) []byte {
	if b == nil {
		return nil
	}
	g := make([]byte, len(b)+1)
	copy(g, b)
	g[len(b)] = 0xA5
	return g[:len(b)]
}

func guardHit(g []byte) bool {
	if g == nil {
		return false
	}
	return g[:len(g)+1][len(g)] != 0xA5
}

type runner struct {
	name         string
	eng          engine.KVEngine
	md           *model
	shared       engine.WriteBatch
	cleared      map[string][]Op
	findings     []Finding
	diverged     bool
	st           *Stats
	oplog        func(string)
	stepIdx      int
	maxFind      int
	exercised    bool
	openAlt      *model       // while a batch is open: the state as if it were committed
	openBase     map[int][]kv // results of the open-read iterator queries just before the batch was filled
	openIdx      int
	leak         bool
	emptyStartDR bool     // a DeleteRange starting at the empty key was committed
	lastArgs     [][]byte // key arguments of the engine call in progress (for panic classification)
}

// panicFunc names the innermost engine / radix / pebble frame of the current panic stack.
func panicFunc(stack string) string {
	for _, l := range strings.Split(stack, "\n") {
		if strings.Contains(l, "ZanRedisDB/engine") || strings.Contains(l, "go-immutable-radix") || strings.Contains(l, "cockroachdb/pebble") {
			if strings.HasPrefix(l, "\t") || strings.Contains(l, "NewDBRange") && strings.Contains(l, ".func") {
				continue
			}
			if i := strings.LastIndex(l, "("); i > 0 {
				l = l[:i]
			}
			if i := strings.LastIndex(l, "/"); i >= 0 {
				l = l[i+1:]
			}
			return l
		}
	}
	return "?"
}

// iterErr reports a constructor error; the range constructors recover panics
// of the underlying engine iterator and return them as errors.
func (r *runner) iterErr(err error, s interface{}, args ...[]byte) {
	msg := err.Error()
	if strings.Contains(msg, "init iterator panic") {
		r.report("panic/"+r.name+"/"+panicFunc(msg)+r.nulTag(nil, args...), fmt.Sprintf("%s: iterator constructor recovered a panic of the engine iterator: %s", r.name, lastLine(msg)), map[string]interface{}{"iter": s, "error": strings.Split(msg, "\n")})
		return
	}
	r.report("iter-error/"+r.name, fmt.Sprintf("%s: %v", r.name, err), s)
}

func lastLine(s string) string {
	ls := strings.Split(strings.TrimSpace(s), "\n")
	l := ls[len(ls)-1]
	if i := strings.LastIndex(l, ":"); i >= 0 && i+1 < len(l) {
		return strings.TrimSpace(l[i+1:])
	}
	return l
}

func (r *runner) logf(f string, a ...interface{}) {
	if r.oplog != nil {
		r.oplog(fmt.Sprintf(f, a...))
	}
}

func (r *runner) report(sig, summary string, detail interface{}) {
	if r.name == "pebble" && r.emptyStartDR && !strings.Contains(sig, "@") {
		// everything pebble shows after a committed DeleteRange that starts at the
		// empty key is classified apart (the tombstone is lost at compaction)
		sig += "@empty-start-delrange"
	}
	if len(r.findings) < r.maxFind {
		r.findings = append(r.findings, Finding{Sig: sig, Summary: summary, Engine: r.name, Step: r.stepIdx, Detail: detail})
	}
}

// nulTag returns "@nulext" when the keys involved in an observation contain a
// pair (a, a+"\x00"+...): stored keys among themselves, or a call argument
// against a stored key. Such findings are classified apart.
func (r *runner) nulTag(extraStore [][]byte, args ...[]byte) string {
	if r.name != "mem" {
		return "" // only the mem engine's radix index is sensitive to this input class
	}
	var ks [][]byte
	for k := range r.md.m {
		ks = append(ks, []byte(k))
	}
	ks = append(ks, extraStore...)
	for i := range ks {
		for j := range ks {
			if i != j && isNulExt(ks[i], ks[j]) {
				return "@nulext"
			}
		}
		for _, a := range args {
			if a != nil && (isNulExt(ks[i], a) || isNulExt(a, ks[i])) {
				return "@nulext-arg"
			}
		}
	}
	return ""
}

func (r *runner) gcheck(site string, g []byte) {
	if guardHit(g) {
		r.st.GuardOverrun[r.name+":"+site]++
	}
}

// scan reads the whole store through an unbounded forward range iterator.
func (r *runner) scan() ([]kv, error) {
	it, err := engine.NewDBRangeIteratorWithOpts(r.eng, engine.IteratorOpts{})
	if err != nil {
		return nil, err
	}
	defer it.Close()
	var out []kv
	for ; it.Valid(); it.Next() {
		out = append(out, kv{it.Key(), it.Value()})
		if len(out) > len(r.md.m)+1000 {
			break
		}
	}
	return out, nil
}

func touches(o Op, k []byte) bool {
	if o.Kind == "delrange" {
		return covered(k, o.Key, o.Val)
	}
	return bytes.Equal(o.Key, k)
}

func keyHistory(ops []Op, k []byte) []string {
	var h []string
	for _, o := range ops {
		if touches(o, k) {
			if len(h) == 0 || h[len(h)-1] != o.Kind {
				h = append(h, o.Kind)
			}
		}
	}
	return h
}

// stateCheck compares the whole store with the model after a batch step.
func (r *runner) stateCheck(st *Step, preKeys [][]byte) {
	r.st.StateChecks++
	var args [][]byte
	extra := append([][]byte{}, preKeys...)
	for _, o := range st.Ops {
		if o.Kind == "delrange" {
			args = append(args, o.Key, o.Val)
		} else {
			extra = append(extra, o.Key)
		}
	}
	tag := r.nulTag(extra, args...)
	got, err := r.scan()
	if err != nil {
		r.report("api-error/"+r.name+"/scan", err.Error(), nil)
		r.diverged = true
		return
	}
	exp := r.md.sorted()
	if sameKVs(exp, got) {
		return
	}
	r.diverged = true
	// first differing key in sorted order
	var dk []byte
	var ev, gv []byte
	eHas, gHas := false, false
	i, j := 0, 0
	for i < len(exp) || j < len(got) {
		switch {
		case j >= len(got) || (i < len(exp) && bytes.Compare(exp[i].K, got[j].K) < 0):
			dk, ev, eHas = exp[i].K, exp[i].V, true
		case i >= len(exp) || bytes.Compare(exp[i].K, got[j].K) > 0:
			dk, gv, gHas = got[j].K, got[j].V, true
		case !bytes.Equal(exp[i].V, got[j].V):
			dk, ev, gv, eHas, gHas = exp[i].K, exp[i].V, got[j].V, true, true
		default:
			i++
			j++
			continue
		}
		break
	}
	detail := map[string]interface{}{
		"key": q(dk), "expected_present": eHas, "expected_value": q(ev), "engine_present": gHas, "engine_value": q(gv),
		"expected_store": fmtKVs(exp), "engine_store": fmtKVs(got),
	}
	desc := fmt.Sprintf("%s: after batch step %d (%s, end=%s) key %s: reference %s, engine %s", r.name, r.stepIdx, st.Obj, st.End, q(dk), presentStr(eHas, ev), presentStr(gHas, gv))
	if st.End != "commit" {
		r.report("uncommitted-visible/"+r.name+"/"+st.End+tag, desc, detail)
		return
	}
	h := keyHistory(st.Ops, dk)
	var hs string
	switch {
	case len(h) > 0:
		if len(h) > 2 {
			h = h[len(h)-2:]
		}
		hs = strings.Join(h, ">")
	default:
		if len(keyHistory(r.cleared[st.Obj], dk)) > 0 {
			r.report("cleared-ops-applied/"+r.name+tag, desc+" (key untouched by this batch, touched by operations cleared earlier on the same batch object)", detail)
			return
		}
		hs = "untouched"
		for _, o := range st.Ops {
			if o.Kind == "delrange" && bytes.Equal(o.Val, dk) {
				hs = "untouched:eq-delrange-end"
			}
		}
	}
	r.report("batch-result/"+r.name+"/"+hs+tag, desc+" (operations of this batch touching the key: "+hs+")", detail)
}

func presentStr(has bool, v []byte) string {
	if !has {
		return "absent"
	}
	return "=" + q(v)
}

func (r *runner) applyOp(wb engine.WriteBatch, o Op) {
	k := guard(o.Key)
	v := guard(o.Val)
	r.st.Ops[o.Kind]++
	switch o.Kind {
	case "put":
		r.logf("wb.Put %s %s", q(o.Key), q(o.Val))
		wb.Put(k, v)
	case "del":
		r.logf("wb.Delete %s", q(o.Key))
		wb.Delete(k)
	case "delrange":
		r.logf("wb.DeleteRange %s %s", q(o.Key), q(o.Val))
		wb.DeleteRange(k, v)
	case "merge":
		r.logf("wb.Merge %s %s", q(o.Key), q(o.Val))
		wb.Merge(k, v)
	}
	r.gcheck("wb."+o.Kind+".key", k)
	r.gcheck("wb."+o.Kind+".val", v)
}

func (r *runner) batchObj(obj string) engine.WriteBatch {
	switch obj {
	case "default":
		return r.eng.DefaultWriteBatch()
	case "shared":
		if r.shared == nil {
			r.shared = r.eng.NewWriteBatch()
		}
		return r.shared
	}
	return r.eng.NewWriteBatch()
}

func (r *runner) batchStep(st *Step) {
	wb := r.batchObj(st.Obj)
	if wb == nil {
		r.report("api-error/"+r.name+"/NewWriteBatch", "nil write batch", nil)
		r.diverged = true
		return
	}
	var preKeys [][]byte
	for k := range r.md.m {
		preKeys = append(preKeys, []byte(k))
	}
	pre := r.md.clone()
	var snapIt *engine.RangeLimitedIterator
	var snapExp, snapBase []kv
	if st.Kind == "snapiter" && st.Snap != nil {
		r.st.SnapIters++
		// the engine's own answer to the same query on the same state, not held across a commit
		if _, b, err := r.iterOnce(*st.Snap); err == nil {
			snapBase = b
		}
		r.logf("snapiter open %+v", *st.Snap)
		it, _, err := r.openIter(*st.Snap)
		if err != nil {
			r.iterErr(err, st.Snap, st.Snap.Min, st.Snap.Max)
		} else {
			snapIt = it
			snapExp = expectIter(r.md.sorted(), *st.Snap)
		}
	}
	if len(st.OpenReads) > 0 {
		// the same queries on the same committed state, before the batch holds anything
		r.openBase = map[int][]kv{}
		for i := range st.OpenReads {
			if rd := st.OpenReads[i]; rd.Kind == "iter" {
				if _, got, err := r.iterOnce(*rd.Iter); err == nil {
					r.openBase[i] = got
				}
			}
		}
	}
	for _, o := range st.Ops {
		r.applyOp(wb, o)
	}
	if len(st.OpenReads) > 0 {
		r.openAlt = r.md.clone()
		r.openAlt.apply(st.Ops)
		for i := range st.OpenReads {
			r.st.OpenReads++
			r.openIdx = i
			r.read(&st.OpenReads[i])
		}
		r.openAlt, r.openBase = nil, nil
	}
	r.st.Batches[st.Obj+"/"+st.End]++
	switch st.End {
	case "commit":
		var err error
		if st.ViaWrite {
			r.logf("eng.Write(%s)", st.Obj)
			err = r.eng.Write(wb)
		} else {
			r.logf("wb.Commit(%s)", st.Obj)
			err = wb.Commit()
		}
		r.logf("wb.Clear(%s)", st.Obj)
		wb.Clear()
		if err != nil {
			r.report("commit-error/"+r.name, fmt.Sprintf("%s: commit of batch step %d failed: %v", r.name, r.stepIdx, err), nil)
			r.diverged = true
		} else {
			r.md.apply(st.Ops)
			for _, o := range st.Ops {
				if o.Kind == "delrange" && len(o.Key) == 0 {
					r.emptyStartDR = true
				}
			}
		}
	case "clear":
		r.logf("wb.Clear(%s) uncommitted", st.Obj)
		wb.Clear()
		r.cleared[st.Obj] = append(r.cleared[st.Obj], st.Ops...)
	case "destroy":
	}
	if st.Obj == "fresh" {
		r.logf("wb.Destroy(fresh)")
		wb.Destroy()
	}
	if snapIt != nil {
		got, bad := r.drain(snapIt, *st.Snap, len(snapExp)+len(st.Ops)+8)
		if bad == "" && !sameKVs(snapExp, got) {
			tag := r.nulTag(preKeys, st.Snap.Min, st.Snap.Max)
			if !sameKVs(snapBase, got) {
				r.report("iter-not-snapshot/"+r.name+tag, fmt.Sprintf("%s: iterator opened before the commit of step %d and drained after it returned %v; the same query drained before the commit returned %v", r.name, r.stepIdx, fmtKVs(got), fmtKVs(snapBase)),
					map[string]interface{}{"iter": st.Snap, "expected": fmtKVs(snapExp), "got": fmtKVs(got), "same_query_before_commit": fmtKVs(snapBase)})
			} else {
				cl := classifyRangeDiff(snapExp, got, *st.Snap, pre)
				r.report(fmt.Sprintf("iter-range/%s/%s/%s/%s%s", r.name, dirName(st.Snap.Reverse), typeName(st.Snap.Type), cl, tag),
					fmt.Sprintf("%s: iterator held across the commit of step %d: min=%s max=%s %s %s: expected %v got %v", r.name, r.stepIdx, q(st.Snap.Min), q(st.Snap.Max), typeName(st.Snap.Type), dirName(st.Snap.Reverse), fmtKVs(snapExp), fmtKVs(got)),
					map[string]interface{}{"iter": st.Snap, "expected": fmtKVs(snapExp), "got": fmtKVs(got), "held_across_commit": true})
			}
		}
	}
	if r.diverged {
		return
	}
	r.stateCheck(st, preKeys)
	if !r.diverged && st.End == "commit" {
		r.cleared[st.Obj] = nil
	}
}

func (r *runner) openIter(s IterSpec) (*engine.RangeLimitedIterator, func(), error) {
	r.lastArgs = [][]byte{s.Min, s.Max}
	opts := engine.IteratorOpts{
		Range:     engine.Range{Min: guard(s.Min), Max: guard(s.Max), Type: s.Type},
		Limit:     engine.Limit{Offset: s.Offset, Count: s.Count},
		Reverse:   s.Reverse,
		IgnoreDel: s.IgnoreDel,
		WithSnap:  s.WithSnap,
	}
	chk := func() {
		r.gcheck("iter.Min", opts.Min)
		r.gcheck("iter.Max", opts.Max)
	}
	var it *engine.RangeLimitedIterator
	var err error
	switch s.Ctor {
	case "RangeLimitWithOpts":
		it, err = engine.NewDBRangeLimitIteratorWithOpts(r.eng, opts)
	case "RangeWithOpts":
		it, err = engine.NewDBRangeIteratorWithOpts(r.eng, opts)
	case "RangeLimit", "Range":
		var raw engine.Iterator
		raw, err = r.eng.GetIterator(opts)
		if err != nil {
			break
		}
		switch {
		case s.Ctor == "RangeLimit" && !s.Reverse:
			it = engine.NewRangeLimitIterator(raw, &opts.Range, &opts.Limit)
		case s.Ctor == "RangeLimit":
			it = engine.NewRevRangeLimitIterator(raw, &opts.Range, &opts.Limit)
		case !s.Reverse:
			it = engine.NewRangeIterator(raw, &opts.Range)
		default:
			it = engine.NewRevRangeIterator(raw, &opts.Range)
		}
	default:
		err = fmt.Errorf("unknown ctor %q", s.Ctor)
	}
	chk()
	if err == nil && it != nil && s.NoTS != 0 {
		it.NoTimestamp(s.NoTS)
	}
	return it, chk, err
}

func (r *runner) drain(it *engine.RangeLimitedIterator, s IterSpec, cap int) ([]kv, string) {
	var got []kv
	bad := ""
	for ; it.Valid(); it.Next() {
		k, v := it.Key(), it.Value()
		rk, rv := it.RefKey(), it.RefValue()
		if !bytes.Equal(k, rk) || !bytes.Equal(v, rv) {
			bad = "ref"
			r.report("iter-ref-mismatch/"+r.name, fmt.Sprintf("%s: Key/Value %s=%s differ from RefKey/RefValue %s=%s at the same position", r.name, q(k), q(v), q(rk), q(rv)), s)
		}
		got = append(got, kv{k, v})
		if len(got) > cap {
			bad = "runaway"
			r.report("iter-runaway/"+r.name+"/"+dirName(s.Reverse), fmt.Sprintf("%s: iterator still valid after %d elements on a store of %d keys", r.name, len(got), len(r.md.m)), s)
			break
		}
	}
	it.Close()
	r.st.IterElems += int64(len(got))
	return got, bad
}

func (r *runner) iterOnce(s IterSpec) ([]kv, []kv, error) {
	it, _, err := r.openIter(s)
	if err != nil {
		return nil, nil, err
	}
	exp := expectIter(r.md.sorted(), s)
	got, _ := r.drain(it, s, len(r.md.m)+8)
	return exp, got, nil
}

func (r *runner) iterCheck(s IterSpec) {
	r.st.IterChecks++
	r.lastArgs = [][]byte{s.Min, s.Max}
	r.logf("iter %s min=%s max=%s type=%s rev=%v off=%d cnt=%d igndel=%v snap=%v", s.Ctor, q(s.Min), q(s.Max), typeName(s.Type), s.Reverse, s.Offset, s.Count, s.IgnoreDel, s.WithSnap)
	kind := "R"
	if s.limited() {
		kind = "L"
	}
	ck := fmt.Sprintf("%s/%s/%d", r.name, kind, s.Combo)
	r.st.CombosAll[ck] = struct{}{}
	if len(r.md.m) >= 2 {
		r.st.CombosNonTriv[ck] = struct{}{}
		r.exercised = true
	}
	exp, got, err := r.iterOnce(s)
	if err != nil {
		r.iterErr(err, s, s.Min, s.Max)
		return
	}
	for _, e := range exp {
		r.st.NoTSCases[r.name+"/range/"+noTSName(s.NoTS)+"/"+lenClass(len(r.md.m[string(e.K)]))]++
	}
	if sameKVs(exp, got) {
		return
	}
	if len(exp) == len(got) {
		// same keys in the same order, a value differs: the range logic is right, the value accessor is not
		first := -1
		for i := range exp {
			if !bytes.Equal(exp[i].K, got[i].K) {
				first = -2
				break
			}
			if first == -1 && !bytes.Equal(exp[i].V, got[i].V) {
				first = i
			}
		}
		if first >= 0 {
			stored := r.md.m[string(exp[first].K)]
			r.report(fmt.Sprintf("iter-value/%s/nots=%s/%s%s", r.name, noTSName(s.NoTS), lenClass(len(stored)), r.nulTag(nil, s.Min, s.Max)),
				fmt.Sprintf("%s: %s with NoTimestamp(%d) [%s]: key %s holds %s (%d bytes): expected value %s, iterator returned %s", r.name, s.Ctor, s.NoTS, noTSName(s.NoTS), q(exp[first].K), q(stored), len(stored), q(exp[first].V), q(got[first].V)),
				map[string]interface{}{"iter": s, "key": q(exp[first].K), "stored": q(stored), "expected": q(exp[first].V), "got": q(got[first].V)})
			return
		}
	}
	detail := map[string]interface{}{"iter": s, "expected": fmtKVs(exp), "got": fmtKVs(got), "store": fmtKVs(r.md.sorted())}
	base := fmt.Sprintf("%s: %s min=%s max=%s %s %s offset=%d count=%d: expected %v got %v", r.name, s.Ctor, q(s.Min), q(s.Max), typeName(s.Type), dirName(s.Reverse), s.Offset, s.Count, fmtKVs(exp), fmtKVs(got))
	tag := r.nulTag(nil, s.Min, s.Max)
	if r.openAlt != nil {
		if b, ok := r.openBase[r.openIdx]; ok && !sameKVs(b, got) {
			detail["same_query_before_the_batch_was_filled"] = fmtKVs(b)
			r.report("uncommitted-visible/"+r.name+"/open"+tag, base+" (the same query returned "+fmt.Sprint(fmtKVs(b))+" before the open batch was filled)", detail)
			return
		}
	}
	// root cause: is the plain range (no offset/count) already wrong?
	u := s
	u.Offset, u.Count = 0, -1
	uexp, ugot := exp, got
	if s.limited() && (s.Offset != 0 || s.Count != -1) {
		var err error
		uexp, ugot, err = r.iterOnce(u)
		if err != nil {
			uexp, ugot = nil, nil
		}
	}
	if !sameKVs(uexp, ugot) {
		cl := classifyRangeDiff(uexp, ugot, u, r.md)
		detail["range_expected"] = fmtKVs(uexp)
		detail["range_got"] = fmtKVs(ugot)
		r.report(fmt.Sprintf("iter-range/%s/%s/%s/%s%s", r.name, dirName(s.Reverse), typeName(s.Type), cl, tag), base, detail)
		return
	}
	r.report(fmt.Sprintf("iter-limit/%s/%s/off=%s/cnt=%s%s", r.name, dirName(s.Reverse), s.OffClass, s.CntClass, tag), base+" (the same range without offset/count is correct)", detail)
}

func (r *runner) walk(rd *Read) {
	r.st.Walks++
	raw, err := r.eng.GetIterator(engine.IteratorOpts{WithSnap: rd.WalkSnap, IgnoreDel: rd.WalkIgnoreDel})
	if err != nil {
		r.iterErr(err, nil)
		return
	}
	defer raw.Close() // also runs when a positioning call panics: releases the engine read lock
	if rd.WalkNoTS != 0 {
		raw.NoTimestamp(rd.WalkNoTS)
	}
	all := stripAll(r.md.sorted(), rd.WalkNoTS)
	pos := -1
	var trace []string
	var targets [][]byte
	prevKind := "start"
	for _, mv := range rd.Moves {
		if mv.Key != nil {
			targets = append(targets, mv.Key)
			r.lastArgs = targets
		}
		if (mv.M == "Next" || mv.M == "Prev") && pos < 0 {
			continue // undefined on an invalid iterator
		}
		r.st.WalkMoves++
		r.logf("raw.%s %s", mv.M, q(mv.Key))
		var g []byte
		switch mv.M {
		case "SeekToFirst":
			raw.SeekToFirst()
		case "SeekToLast":
			raw.SeekToLast()
		case "Seek":
			g = guard(mv.Key)
			raw.Seek(g)
		case "SeekForPrev":
			g = guard(mv.Key)
			raw.SeekForPrev(g)
		case "Next":
			raw.Next()
		case "Prev":
			raw.Prev()
		}
		r.gcheck("raw."+mv.M, g)
		pos = walkStep(all, pos, mv)
		valid := raw.Valid()
		var gk, gv []byte
		if valid {
			gk, gv = raw.Key(), raw.Value()
		}
		ok := valid == (pos >= 0)
		if ok && valid {
			stored := r.md.m[string(all[pos].K)]
			r.st.NoTSCases[r.name+"/raw/"+noTSName(rd.WalkNoTS)+"/"+lenClass(len(stored))]++
			if bytes.Equal(gk, all[pos].K) && !bytes.Equal(gv, all[pos].V) {
				r.report(fmt.Sprintf("iter-value/%s/nots=%s/%s%s", r.name, noTSName(rd.WalkNoTS), lenClass(len(stored)), r.nulTag(nil, targets...)),
					fmt.Sprintf("%s: raw iterator with NoTimestamp(%d) [%s] at key %s holding %s (%d bytes): expected value %s, Value() returned %s", r.name, rd.WalkNoTS, noTSName(rd.WalkNoTS), q(gk), q(stored), len(stored), q(all[pos].V), q(gv)),
					map[string]interface{}{"key": q(gk), "stored": q(stored), "expected": q(all[pos].V), "got": q(gv)})
				return
			}
			if rv := raw.RefValue(); !bytes.Equal(rv, gv) {
				r.report("iter-ref-mismatch/"+r.name, fmt.Sprintf("%s: raw iterator Value %s differs from RefValue %s at key %s (NoTimestamp mode %s)", r.name, q(gv), q(rv), q(gk), noTSName(rd.WalkNoTS)), nil)
				return
			}
			ok = bytes.Equal(gk, all[pos].K) && bytes.Equal(gv, all[pos].V)
		}
		step := mv.M
		if mv.Key != nil {
			step += "(" + q(mv.Key) + ")"
		}
		trace = append(trace, step)
		if !ok {
			sig := "raw-walk/" + r.name + "/" + mv.M
			switch mv.M {
			case "Seek", "SeekForPrev":
				if _, present := r.md.m[string(mv.Key)]; present {
					sig += "/target-present"
				} else {
					sig += "/target-absent"
				}
			case "Next", "Prev":
				sig += "/after-" + prevKind
			}
			var e string
			if pos >= 0 {
				e = q(all[pos].K) + "=" + q(all[pos].V)
			} else {
				e = "invalid"
			}
			gs := "invalid"
			if valid {
				gs = q(gk) + "=" + q(gv)
			}
			r.report(sig+r.nulTag(nil, targets...), fmt.Sprintf("%s: raw iterator after %v: expected %s, got %s", r.name, trace, e, gs),
				map[string]interface{}{"moves": trace, "expected": e, "got": gs, "store": fmtKVs(all)})
			return
		}
		prevKind = mv.M
	}
}

func (r *runner) point(rd *Read) {
	eng := r.eng
	mk := func(api string, k []byte, what string) {
		sig := "point-read/" + r.name + "/" + api
		if v, ok := r.md.m[string(k)]; ok && len(v) == 0 {
			sig += "/empty-value"
		}
		mv, ok := r.md.m[string(k)]
		if r.openAlt != nil {
			if av, aok := r.openAlt.m[string(k)]; aok != ok || !bytes.Equal(av, mv) {
				sig = "uncommitted-visible/" + r.name + "/open"
			}
		}
		r.report(sig+r.nulTag(nil, k), fmt.Sprintf("%s: %s(%s): %s; reference: %s", r.name, api, q(k), what, presentStr(ok, mv)), map[string]interface{}{"api": api, "key": q(k)})
	}
	cmpVal := func(api string, k []byte, v []byte, found bool) {
		mv, ok := r.md.m[string(k)]
		switch {
		case ok != found:
			mk(api, k, fmt.Sprintf("found=%v value=%s", found, q(v)))
		case ok && !bytes.Equal(mv, v):
			mk(api, k, fmt.Sprintf("value=%s", q(v)))
		}
	}
	apiErr := func(api string, k []byte, err error) {
		r.report("api-error/"+r.name+"/"+api, fmt.Sprintf("%s: %s(%s): %v", r.name, api, q(k), err), nil)
	}
	r.logf("point %s x%d", rd.API, len(rd.Keys))
	if rd.API == "MultiGetBytes" {
		keys := make([][]byte, len(rd.Keys))
		for i, k := range rd.Keys {
			keys[i] = guard(k)
		}
		vals := make([][]byte, len(keys))
		errs := make([]error, len(keys))
		eng.MultiGetBytes(keys, vals, errs)
		for i, k := range rd.Keys {
			r.st.PointReads++
			r.gcheck("MultiGetBytes", keys[i])
			if errs[i] != nil {
				apiErr(rd.API, k, errs[i])
				continue
			}
			cmpVal(rd.API, k, vals[i], vals[i] != nil)
		}
		return
	}
	for _, kk := range rd.Keys {
		k := []byte(kk)
		g := guard(k)
		r.st.PointReads++
		switch rd.API {
		case "GetBytes", "GetBytesNoLock":
			var v []byte
			var err error
			if rd.API == "GetBytes" {
				v, err = eng.GetBytes(g)
			} else {
				v, err = eng.GetBytesNoLock(g)
			}
			if err != nil {
				apiErr(rd.API, k, err)
				break
			}
			cmpVal(rd.API, k, v, v != nil)
		case "Exist", "ExistNoLock":
			var ok bool
			var err error
			if rd.API == "Exist" {
				ok, err = eng.Exist(g)
			} else {
				ok, err = eng.ExistNoLock(g)
			}
			if err != nil {
				apiErr(rd.API, k, err)
				break
			}
			if _, mok := r.md.m[string(k)]; mok != ok {
				mk(rd.API, k, fmt.Sprintf("exist=%v", ok))
			}
		case "GetRef", "GetRefNoLock":
			var ref engine.RefSlice
			var err error
			if rd.API == "GetRef" {
				ref, err = eng.GetRef(g)
			} else {
				ref, err = eng.GetRefNoLock(g)
			}
			if err != nil {
				apiErr(rd.API, k, err)
				break
			}
			if ref == nil {
				cmpVal(rd.API, k, nil, false)
				break
			}
			d := ref.Data()
			b := ref.Bytes()
			if !bytes.Equal(d, b) || (d == nil) != (b == nil) {
				mk(rd.API, k, fmt.Sprintf("Data()=%s but Bytes()=%s", q(d), q(b)))
			} else {
				cmpVal(rd.API, k, b, d != nil)
			}
			ref.Free()
		case "GetValueWithOp", "GetValueWithOpNoLock":
			calls := 0
			var v []byte
			found := false
			op := func(d []byte) error {
				calls++
				found = d != nil
				v = append([]byte{}, d...)
				return nil
			}
			var err error
			if rd.API == "GetValueWithOp" {
				err = eng.GetValueWithOp(g, op)
			} else {
				err = eng.GetValueWithOpNoLock(g, op)
			}
			if err != nil {
				apiErr(rd.API, k, err)
				break
			}
			if calls != 1 {
				mk(rd.API, k, fmt.Sprintf("op called %d times", calls))
				break
			}
			cmpVal(rd.API, k, v, found)
		}
		r.gcheck(rd.API, g)
	}
}

func (r *runner) read(rd *Read) {
	defer func() {
		if e := recover(); e != nil {
			buf := make([]byte, 8192)
			buf = buf[:runtime.Stack(buf, false)]
			r.report("panic/"+r.name+"/"+panicFunc(string(buf))+r.nulTag(nil, r.lastArgs...), fmt.Sprintf("%s: panic in a %s read of step %d: %v", r.name, rd.Kind, r.stepIdx, e),
				map[string]interface{}{"read": rd, "stack": strings.Split(string(buf), "\n")})
			if rd.Kind != "walk" {
				// an iterator of a range constructor may still hold the engine read lock
				r.diverged = true
				r.leak = true
			}
		}
	}()
	r.lastArgs = nil
	switch rd.Kind {
	case "point":
		r.point(rd)
	case "iter":
		r.iterCheck(*rd.Iter)
	case "walk":
		r.walk(rd)
	}
}

// runSequence executes seq on a fresh engine of type typ and returns the
// findings (at most maxFind) and whether at least one iterator option
// combination was exercised on a non-trivial store.
func runSequence(seq *Sequence, typ, dir string, st *Stats, maxFind int, oplog func(string)) (fs []Finding, err error) {
	eng, err := openEngine(typ, dir, seq.P)
	if err != nil {
		return nil, err
	}
	r := &runner{name: typ, eng: eng, md: newModel(), cleared: map[string][]Op{}, st: st, oplog: oplog, maxFind: maxFind}
	panicked := false
	func() {
		defer func() {
			if e := recover(); e != nil {
				panicked = true
				buf := make([]byte, 8192)
				buf = buf[:runtime.Stack(buf, false)]
				fn := panicFunc(string(buf))
				r.report("panic/"+typ+"/"+fn+r.nulTag(nil, r.lastArgs...), fmt.Sprintf("%s: panic in step %d: %v", typ, r.stepIdx, e), map[string]interface{}{"stack": strings.Split(string(buf), "\n")})
			}
		}()
		for i := range seq.Steps {
			s := &seq.Steps[i]
			r.stepIdx = i
			switch s.Kind {
			case "batch", "snapiter":
				r.batchStep(s)
			case "reads":
				for j := range s.Reads {
					r.read(&s.Reads[j])
				}
			case "compact":
				r.st.Compactions++
				// PebbleEng.CompactAllRange is Compact(nil, nil), which covers only
				// the empty key; the explicit range is what flushes and compacts.
				// (Not generated in empty-key sequences, see genSequence.)
				r.logf("eng.CompactAllRange")
				eng.CompactAllRange()
				r.logf("eng.CompactRange [00, ff*6)")
				eng.CompactRange(engine.CRange{Start: []byte{0}, Limit: []byte{0xff, 0xff, 0xff, 0xff, 0xff, 0xff}})
			}
			if r.diverged {
				break
			}
		}
		if r.shared != nil {
			r.shared.Destroy()
		}
	}()
	if !panicked && !r.leak {
		// after a panic an iterator may still hold the engine's read lock; leak it
		closeEngine(eng, typ)
	}
	return r.findings, nil
}
