// Package englab is engine E9: it checks property C20 (all storage engines
// implement the same key-value contract) by running generated sequences of
// write batches and reads against every runnable engine (pebble, mem) and
// against a sorted-map reference, and by a concurrent atomic-visibility stress
// under the race detector (and ASan in the thorough tier).
package englab

import (
	"bytes"
	"encoding/binary"
	"encoding/json"
	"sort"
	"strconv"

	"github.com/youzan/ZanRedisDB/common"
)

// B is a byte string that is written to JSON witnesses as a Go-quoted string
// (readable, loss-free) instead of base64.
type B []byte

func (b B) MarshalJSON() ([]byte, error) {
	if b == nil {
		return []byte("null"), nil
	}
	return json.Marshal(strconv.QuoteToASCII(string(b)))
}

func (b *B) UnmarshalJSON(d []byte) error {
	if string(d) == "null" {
		*b = nil
		return nil
	}
	var q string
	if err := json.Unmarshal(d, &q); err != nil {
		return err
	}
	s, err := strconv.Unquote(q)
	if err != nil {
		return err
	}
	*b = B(s)
	return nil
}

func q(b []byte) string {
	if b == nil {
		return "nil"
	}
	if len(b) > 48 {
		return strconv.QuoteToASCII(string(b[:40])) + "...(" + strconv.Itoa(len(b)) + "B)"
	}
	return strconv.QuoteToASCII(string(b))
}

// Op is one write-batch operation.
type Op struct {
	Kind string `json:"op"`  // put | del | delrange | merge
	Key  B      `json:"key"` // key, or range start
	Val  B      `json:"val"` // value, merge operand (8 bytes LE), or range end (exclusive)
}

// model is the sorted-map reference: the contract as documented in
// engine/kv.go, engine/iterator.go and engine/writebatch.go (RocksDB write
// batch semantics: the operations of a batch take effect in order, atomically
// at commit; DeleteRange is [start,end); Merge adds 8-byte little-endian
// counters, a missing or empty value counting as 0).
type model struct {
	m map[string][]byte
}

func newModel() *model { return &model{m: map[string][]byte{}} }

func (md *model) clone() *model {
	n := newModel()
	for k, v := range md.m {
		n.m[k] = v
	}
	return n
}

func (md *model) apply(ops []Op) {
	for _, o := range ops {
		switch o.Kind {
		case "put":
			v := make([]byte, len(o.Val))
			copy(v, o.Val)
			md.m[string(o.Key)] = v
		case "del":
			delete(md.m, string(o.Key))
		case "delrange":
			for k := range md.m {
				if bytes.Compare([]byte(k), o.Key) >= 0 && bytes.Compare([]byte(k), o.Val) < 0 {
					delete(md.m, k)
				}
			}
		case "merge":
			var cur uint64
			if old, ok := md.m[string(o.Key)]; ok && len(old) == 8 {
				cur = binary.LittleEndian.Uint64(old)
			}
			nv := make([]byte, 8)
			binary.LittleEndian.PutUint64(nv, cur+binary.LittleEndian.Uint64(o.Val))
			md.m[string(o.Key)] = nv
		}
	}
}

type kv struct {
	K, V []byte
}

func (md *model) sorted() []kv {
	keys := make([]string, 0, len(md.m))
	for k := range md.m {
		keys = append(keys, k)
	}
	sort.Strings(keys)
	out := make([]kv, len(keys))
	for i, k := range keys {
		out[i] = kv{[]byte(k), md.m[k]}
	}
	return out
}

// IterSpec is one range/limit iterator query with explicit options.
type IterSpec struct {
	Ctor      string `json:"ctor"` // RangeLimitWithOpts | RangeWithOpts | RangeLimit | Range
	Min       B      `json:"min"`  // nil = unbounded
	Max       B      `json:"max"`
	Type      uint8  `json:"type"` // common.RangeClose/LOpen/ROpen/Open
	Reverse   bool   `json:"reverse"`
	Offset    int    `json:"offset"`
	Count     int    `json:"count"`
	IgnoreDel bool   `json:"ignore_del"`
	WithSnap  bool   `json:"with_snap"`
	// NoTS != 0: Iterator.NoTimestamp(NoTS) is called on the iterator before it
	// is read (21 = KVType, 22 = HashType: strip; any other type byte: no effect)
	NoTS uint8 `json:"no_timestamp"`
	// option-combination class and index (for coverage accounting only)
	OffClass string `json:"off_class"`
	CntClass string `json:"cnt_class"`
	Combo    int    `json:"combo"`
}

func (s IterSpec) limited() bool { return s.Ctor == "RangeLimitWithOpts" || s.Ctor == "RangeLimit" }

func typeName(t uint8) string {
	switch t {
	case common.RangeClose:
		return "close"
	case common.RangeLOpen:
		return "lopen"
	case common.RangeROpen:
		return "ropen"
	case common.RangeOpen:
		return "open"
	}
	return "type" + strconv.Itoa(int(t))
}

func dirName(rev bool) string {
	if rev {
		return "rev"
	}
	return "fwd"
}

// rangeOf returns the elements of the sorted list inside the range, in
// iteration order, without offset/count.
func rangeOf(all []kv, s IterSpec) []kv {
	var out []kv
	for _, e := range all {
		if s.Min != nil {
			c := bytes.Compare(e.K, s.Min)
			if c < 0 || (c == 0 && s.Type&common.RangeLOpen > 0) {
				continue
			}
		}
		if s.Max != nil {
			c := bytes.Compare(e.K, s.Max)
			if c > 0 || (c == 0 && s.Type&common.RangeROpen > 0) {
				continue
			}
		}
		out = append(out, e)
	}
	if s.Reverse {
		for i, j := 0, len(out)-1; i < j; i, j = i+1, j-1 {
			out[i], out[j] = out[j], out[i]
		}
	}
	return out
}

// expectIter is the documented result of the query: the range in iteration
// order, then `offset` elements skipped, then at most `count` elements
// (count < 0: no limit; offset < 0: nothing), as rockredis uses it
// (ZRANGEBYSCORE/ZRANGEBYLEX LIMIT offset count, list/hash/set scans).
func expectIter(all []kv, s IterSpec) []kv {
	r := stripAll(rangeOf(all, s), s.NoTS)
	if !s.limited() {
		return r
	}
	if s.Offset < 0 {
		return nil
	}
	if s.Offset >= len(r) {
		return nil
	}
	r = r[s.Offset:]
	if s.Count >= 0 && s.Count < len(r) {
		r = r[:s.Count]
	}
	return r
}

// Timestamp stripping (Iterator.NoTimestamp, engine/iterator.go): the data
// mapping stores kv and hash-field values with an 8-byte timestamp suffix and
// asks the iterator to drop it. What every engine implements (mem_iter.go,
// pebble_iter.go, rock_iter.go, identical code): the mode is a property of the
// iterator, not of the key under it; with the type byte KVType (21) or HashType
// (22) RefValue and Value return the stored value without its last 8 bytes when
// it has at least 8 bytes, and unchanged when it is shorter; any other type
// byte (or no call) leaves values alone.
const tsLen = 8

func stripsTS(vt uint8) bool { return vt == 21 || vt == 22 }

func stripTS(v []byte, vt uint8) []byte {
	if stripsTS(vt) && len(v) >= tsLen {
		return v[:len(v)-tsLen]
	}
	return v
}

func stripAll(in []kv, vt uint8) []kv {
	if !stripsTS(vt) {
		return in
	}
	out := make([]kv, len(in))
	for i, e := range in {
		out[i] = kv{e.K, stripTS(e.V, vt)}
	}
	return out
}

func lenClass(n int) string {
	switch {
	case n < tsLen:
		return "len<8"
	case n == tsLen:
		return "len=8"
	}
	return "len>8"
}

func noTSName(vt uint8) string {
	switch vt {
	case 0:
		return "off"
	case 21:
		return "kv"
	case 22:
		return "hash"
	}
	return "othertype"
}

func sameKVs(a, b []kv) bool {
	if len(a) != len(b) {
		return false
	}
	for i := range a {
		if !bytes.Equal(a[i].K, b[i].K) || !bytes.Equal(a[i].V, b[i].V) {
			return false
		}
	}
	return true
}

// classifyRangeDiff names the first difference between the expected and the
// observed result of an unlimited range iteration, relative to the bounds.
func classifyRangeDiff(exp, got []kv, s IterSpec, md *model) string {
	inE := map[string]int{}
	for _, e := range exp {
		inE[string(e.K)]++
	}
	inG := map[string]int{}
	for _, g := range got {
		inG[string(g.K)]++
		if inG[string(g.K)] > 1 {
			return "dup"
		}
	}
	for _, g := range got {
		if inE[string(g.K)] == 0 {
			switch {
			case s.Max != nil && bytes.Compare(g.K, s.Max) > 0:
				return "extra-gt-max"
			case s.Max != nil && bytes.Equal(g.K, s.Max):
				return "extra-eq-max"
			case s.Min != nil && bytes.Compare(g.K, s.Min) < 0:
				return "extra-lt-min"
			case s.Min != nil && bytes.Equal(g.K, s.Min):
				return "extra-eq-min"
			}
			if _, ok := md.m[string(g.K)]; !ok {
				return "extra-phantom"
			}
			return "extra-inner"
		}
	}
	for _, e := range exp {
		if inG[string(e.K)] == 0 {
			switch {
			case s.Max != nil && bytes.Equal(e.K, s.Max):
				return "missing-eq-max"
			case s.Min != nil && bytes.Equal(e.K, s.Min):
				return "missing-eq-min"
			}
			return "missing-inner"
		}
	}
	for i := range exp {
		if !bytes.Equal(exp[i].K, got[i].K) {
			return "order"
		}
	}
	return "value"
}

func fmtKVs(l []kv) []string {
	out := make([]string, 0, len(l))
	for _, e := range l {
		out = append(out, q(e.K)+"="+q(e.V))
	}
	return out
}
