package englab

import (
	"encoding/json"
	"fmt"
	"io/ioutil"
	"log"
	"os"
	"path/filepath"
	"regexp"
	"runtime"
	"sort"
	"strings"
	"sync"
	"sync/atomic"
	"time"

	"github.com/youzan/ZanRedisDB/engine"

	"verif/harness/vc"
)

func init() {
	vc.Register("C20", "exploration", runC20)
	vc.Need("C20", "race", "asan")
	vc.RegisterChild("englab-stress", stressChild)
	vc.RegisterChild("englab-asan", asanChild)
}

var engines = []string{"pebble", "mem"}

// Witness is what a C20 replay file carries.
type Witness struct {
	Kind     string      `json:"kind"` // sequence | stress | asan
	Engine   string      `json:"engine"`
	Sequence *Sequence   `json:"sequence,omitempty"`
	Finding  *Finding    `json:"finding,omitempty"`
	Shrunk   bool        `json:"shrunk"`
	OrigLen  int         `json:"original_steps,omitempty"`
	Extra    interface{} `json:"extra,omitempty"`
}

func quietLogs(scratch string) {
	engine.SetLogger(0, nil)
	if f, err := os.Create(filepath.Join(scratch, "stdlog.txt")); err == nil {
		log.SetOutput(f) // pebble's event listener logs through the std logger
	}
}

func hasSig(fs []Finding, sig string) *Finding {
	for i := range fs {
		if fs[i].Sig == sig {
			return &fs[i]
		}
	}
	return nil
}

func cloneSeq(s *Sequence) *Sequence {
	b, _ := json.Marshal(s)
	var out Sequence
	json.Unmarshal(b, &out)
	return &out
}

// shrink greedily removes steps, reads and operations while the engine still
// produces a finding with the same signature. Bounded number of executions.
func shrink(seq *Sequence, typ, dir, sig string, budget int) (*Sequence, *Finding) {
	try := func(s *Sequence) *Finding {
		if budget <= 0 {
			return nil
		}
		budget--
		fs, _, err := runWithWatchdogT(s, typ, dir, newStats(), 64, 30*time.Second)
		if err != nil {
			if err == errWatchdog {
				budget = 0 // an engine call hangs: stop shrinking
			}
			return nil
		}
		return hasSig(fs, sig)
	}
	cur := cloneSeq(seq)
	best := try(cur)
	if best == nil {
		return seq, nil
	}
	// 1. cut everything after the offending step
	if best.Step+1 < len(cur.Steps) {
		c := cloneSeq(cur)
		c.Steps = c.Steps[:best.Step+1]
		if f := try(c); f != nil {
			cur, best = c, f
		}
	}
	// 2. in the offending step keep only what is needed
	reduceReads := func(get func(s *Sequence) *[]Read) {
		rs := get(cur)
		for i := len(*rs) - 1; i >= 0 && budget > 0; i-- {
			c := cloneSeq(cur)
			crs := get(c)
			*crs = append((*crs)[:i:i], (*crs)[i+1:]...)
			if f := try(c); f != nil {
				cur, best = c, f
				rs = get(cur)
			}
		}
	}
	last := len(cur.Steps) - 1
	// a quick win: a reads step usually needs exactly one read
	if cur.Steps[last].Kind == "reads" {
		for i := range cur.Steps[last].Reads {
			c := cloneSeq(cur)
			c.Steps[last].Reads = []Read{c.Steps[last].Reads[i]}
			if f := try(c); f != nil {
				cur, best = c, f
				break
			}
		}
		if len(cur.Steps[last].Reads) > 1 {
			reduceReads(func(s *Sequence) *[]Read { return &s.Steps[len(s.Steps)-1].Reads })
		}
	}
	// 3. remove earlier steps
	for i := len(cur.Steps) - 2; i >= 0 && budget > 0; i-- {
		c := cloneSeq(cur)
		c.Steps = append(c.Steps[:i:i], c.Steps[i+1:]...)
		if f := try(c); f != nil {
			cur, best = c, f
		}
	}
	// 4. remove operations, open reads, and trim keys lists
	for si := len(cur.Steps) - 1; si >= 0 && budget > 0; si-- {
		for oi := len(cur.Steps[si].Ops) - 1; oi >= 0 && budget > 0; oi-- {
			c := cloneSeq(cur)
			ops := c.Steps[si].Ops
			c.Steps[si].Ops = append(ops[:oi:oi], ops[oi+1:]...)
			if f := try(c); f != nil {
				cur, best = c, f
			}
		}
		if len(cur.Steps[si].OpenReads) > 0 {
			idx := si
			reduceReads(func(s *Sequence) *[]Read { return &s.Steps[idx].OpenReads })
		}
	}
	for si := range cur.Steps {
		for ri := range cur.Steps[si].Reads {
			if rd := cur.Steps[si].Reads[ri]; rd.Kind == "point" && len(rd.Keys) > 1 {
				for ki := range rd.Keys {
					c := cloneSeq(cur)
					c.Steps[si].Reads[ri].Keys = []B{rd.Keys[ki]}
					if f := try(c); f != nil {
						cur, best = c, f
						break
					}
				}
			}
		}
	}
	return cur, best
}

const seqWatchdog = 90 * time.Second

var errWatchdog = fmt.Errorf("watchdog")

type hangInfo struct {
	deadlock bool
	fn       string
	state    string
	stack    []string
}

var gidRe = regexp.MustCompile(`^goroutine (\d+) \[([^\]]*)\]`)

func curGoroutine() string {
	buf := make([]byte, 64)
	buf = buf[:runtime.Stack(buf, false)]
	if m := gidRe.FindSubmatch(buf); m != nil {
		return string(m[1])
	}
	return ""
}

// inspectHang looks at the goroutine that executes a sequence after the
// watchdog expired. The sequence goroutine is the only user of its engine
// instance, so if it is parked acquiring a lock inside the engine packages no
// other goroutine can ever release that lock: a deadlock, decided by the wait
// state and not by the elapsed time. Anything else (running, I/O, waiting on a
// channel of a background worker) stays inconclusive.
func inspectHang(gid string) hangInfo {
	buf := make([]byte, 4<<20)
	buf = buf[:runtime.Stack(buf, true)]
	for _, blk := range strings.Split(string(buf), "\n\n") {
		m := gidRe.FindStringSubmatch(blk)
		if m == nil || m[1] != gid {
			continue
		}
		hi := hangInfo{state: m[2], stack: strings.Split(blk, "\n")}
		if len(hi.stack) > 40 {
			hi.stack = hi.stack[:40]
		}
		lockWait := strings.HasPrefix(m[2], "sync.Mutex.Lock") || strings.HasPrefix(m[2], "sync.RWMutex.") || strings.HasPrefix(m[2], "semacquire")
		for _, l := range hi.stack {
			if strings.HasPrefix(l, enginePkg+".") || strings.HasPrefix(l, enginePkg+"/radixdb.") {
				if i := strings.LastIndex(l, "("); i > 0 {
					l = l[:i]
				}
				hi.fn = strings.TrimPrefix(l, "github.com/youzan/ZanRedisDB/")
				break
			}
		}
		hi.deadlock = lockWait && hi.fn != ""
		return hi
	}
	return hangInfo{}
}

// runWithWatchdog runs one sequence; an engine call that never returns must
// not wedge the whole check.
func runWithWatchdog(seq *Sequence, typ, dir string, st *Stats, maxFind int) ([]Finding, *hangInfo, error) {
	return runWithWatchdogT(seq, typ, dir, st, maxFind, seqWatchdog)
}

func runWithWatchdogT(seq *Sequence, typ, dir string, st *Stats, maxFind int, timeout time.Duration) ([]Finding, *hangInfo, error) {
	type res struct {
		fs  []Finding
		err error
	}
	ch := make(chan res, 1)
	gidc := make(chan string, 1)
	go func() {
		gidc <- curGoroutine()
		fs, err := runSequence(seq, typ, dir, st, maxFind, nil)
		ch <- res{fs, err}
	}()
	gid := <-gidc
	select {
	case r := <-ch:
		return r.fs, nil, r.err
	case <-time.After(timeout):
		hi := inspectHang(gid)
		return nil, &hi, errWatchdog
	}
}

func runC20(c *vc.Ctx) error {
	quietLogs(c.Scratch)
	if c.Replay != "" {
		return replayC20(c)
	}
	c.Ev.Rule = "generated sequences (function of seed and index) of write batches (put/delete/delete-range/merge; committed, cleared, destroyed uncommitted; default/shared/fresh batch objects) interleaved with read phases, executed on a fresh pebble and a fresh mem engine and compared with a sorted-map reference after every batch (full scan) and in every read phase (9 point-read APIs, range/limit iterators, raw seek walks). " +
		"A case is non-trivial and distinct per (engine, constructor family, iterator option combination {min nil/set, max nil/set} x 4 range types x {forward, reverse} x offset {0,1,k,>n} x count {-1,0,1,k} x IgnoreDel x WithSnap) exercised on a store holding at least 2 keys."
	c.Ev.Assume("RocksDB engine is not executed (link shim only): every verdict is for pebble and mem (radix flavour, the production constant); equivalence of the real RocksDB to them is not claimed")
	c.Ev.Assume("the reference is the documented contract: RocksDB write-batch semantics (operations take effect in order, atomically at commit, DeleteRange is [start,end)), Seek = first key >= target, SeekForPrev = last key <= target, closed range bounds inclusive, offset skips elements of the range, count < 0 is unlimited")
	c.Ev.Assume("not generated: DeleteRange with start > end or nil end, Merge on values that are not 8-byte counters, keys > 400 bytes, raw Seek walks on iterators created with bounds (no caller does that), Next/Prev on an invalid iterator, reopening an engine")
	c.Ev.Assume("atomic visibility is checked inside one iterator / snapshot iterator; MultiGetBytes is a loop of independent gets in both engines and its torn observations are counted in evidence only")

	guardStop := make(chan struct{})
	defer close(guardStop)
	var peakRSS int64
	go func() { // safety net: abort without verdict rather than endanger the machine
		for {
			select {
			case <-guardStop:
				return
			case <-time.After(200 * time.Millisecond):
			}
			r := rssBytes()
			if r > atomic.LoadInt64(&peakRSS) {
				atomic.StoreInt64(&peakRSS, r)
			}
			if r > 6<<30 {
				fmt.Printf("INCONCLUSIVE property=%s resident set %d MiB exceeds the 6 GiB guard; aborting without verdict\n", c.ID, r>>20)
				os.RemoveAll(c.Scratch)
				os.Exit(2)
			}
		}
	}()
	defer func() { c.Ev.Set("peak_resident_set_mib", atomic.LoadInt64(&peakRSS)>>20) }()
	nSeq := c.Pick(1500, 50000)
	itersPerPhase := 36
	total := newStats()
	var mu sync.Mutex
	type sigState struct {
		shrinking, done bool
		pending         []Witness
	}
	sigs := map[string]*sigState{}
	deadlocks := map[string]int{}
	findingsBySig := map[string]int64{}
	var openErr error

	c.ParallelFor(nSeq, func(i int) {
		seq := genSequence(c.Seed, i, itersPerPhase)
		st := newStats()
		for _, typ := range engines {
			est := newStats()
			mu.Lock()
			wedged := deadlocks[typ] >= 3
			mu.Unlock()
			if wedged {
				c.Inconclusive(fmt.Sprintf("sequence %d on %s skipped: this engine already deadlocked in 3 sequences", i, typ))
				continue
			}
			fs, hi, err := runWithWatchdog(seq, typ, c.Scratch, est, 8)
			if err == errWatchdog {
				if hi != nil && hi.deadlock {
					mu.Lock()
					deadlocks[typ]++
					mu.Unlock()
					c.Violation("deadlock/"+typ+"/"+hi.fn, fmt.Sprintf("%s: the goroutine executing sequence %d (the only user of its engine instance) is parked in %s [%s]: nobody can release that lock", typ, i, hi.fn, hi.state),
						Witness{Kind: "sequence", Engine: typ, Sequence: seq, OrigLen: len(seq.Steps), Extra: map[string]interface{}{"goroutine_state": hi.state, "stack": hi.stack}})
					continue
				}
				state := ""
				if hi != nil {
					state = hi.state
				}
				c.Inconclusive(fmt.Sprintf("sequence %d on %s hit the %v watchdog (goroutine state %q)", i, typ, seqWatchdog, state))
				continue
			}
			if err != nil {
				mu.Lock()
				openErr = err
				mu.Unlock()
				c.Inconclusive(fmt.Sprintf("sequence %d on %s could not run: %v", i, typ, err))
				continue
			}
			st.merge(est)
			c.Ev.Eval()
			seen := map[string]bool{}
			for fi := range fs {
				f := fs[fi]
				if seen[f.Sig] {
					continue // one report per signature per sequence
				}
				seen[f.Sig] = true
				w := Witness{Kind: "sequence", Engine: typ, Sequence: seq, Finding: &f, OrigLen: len(seq.Steps)}
				mu.Lock()
				findingsBySig[f.Sig]++
				ss := sigs[f.Sig]
				if ss == nil {
					ss = &sigState{}
					sigs[f.Sig] = ss
				}
				switch {
				case ss.done || len(sigs) > 200:
					mu.Unlock()
					c.Violation(f.Sig, f.Summary, w)
				case ss.shrinking:
					// the first witness of a signature is the shrunk one; later ones wait for it
					ss.pending = append(ss.pending, w)
					mu.Unlock()
				default:
					ss.shrinking = true
					mu.Unlock()
					if s2, f2 := shrink(seq, typ, c.Scratch, f.Sig, 250); f2 != nil {
						w.Sequence, w.Finding, w.Shrunk = s2, f2, true
					}
					c.Violation(f.Sig, w.Finding.Summary, w)
					mu.Lock()
					ss.done, ss.shrinking = true, false
					pend := ss.pending
					ss.pending = nil
					mu.Unlock()
					for _, pw := range pend {
						c.Violation(pw.Finding.Sig, pw.Finding.Summary, pw)
					}
				}
			}
		}
		mu.Lock()
		total.merge(st)
		mu.Unlock()
		if i < 2 {
			c.Ev.Sample(3, map[string]interface{}{"sequence_index": i, "params": seq.P, "first_steps": headSteps(seq, 3)})
		}
	})
	if openErr != nil && c.Ev.Evals() == 0 {
		return fmt.Errorf("no sequence could run: %v", openErr)
	}
	for ck := range total.CombosNonTriv {
		c.Ev.Nontrivial(ck)
	}
	totalCombos := len(engines) * (nLimitCombos + nRangeCombos)
	c.Ev.Set("sequences", nSeq)
	c.Ev.Set("ops_by_kind", total.Ops)
	c.Ev.Set("batches_by_object_and_end", total.Batches)
	c.Ev.Set("iterator_option_combinations_total", totalCombos)
	c.Ev.Set("iterator_option_combinations_exercised_nontrivial", len(total.CombosNonTriv))
	c.Ev.Set("iterator_option_combinations_exercised_any", len(total.CombosAll))
	c.Ev.Set("all_iterator_option_combinations_exercised", len(total.CombosNonTriv) == totalCombos)
	// timestamp-stripping mode of iterators: engine x (range|raw iterator) x mode x stored value length class
	notsMissing := []string{}
	for _, e := range engines {
		for _, api := range []string{"range", "raw"} {
			for _, mode := range []string{"off", "kv", "hash", "othertype"} {
				for _, lc := range []string{"len<8", "len=8", "len>8"} {
					if k := e + "/" + api + "/" + mode + "/" + lc; total.NoTSCases[k] == 0 {
						notsMissing = append(notsMissing, k)
					}
				}
			}
		}
	}
	c.Ev.Set("iterator_no_timestamp_elements_by_engine_api_mode_length", total.NoTSCases)
	c.Ev.Set("iterator_no_timestamp_cases_not_exercised", notsMissing)
	c.Ev.Count("point_reads_compared", total.PointReads)
	c.Ev.Count("iterator_results_compared", total.IterChecks)
	c.Ev.Count("iterator_elements_compared", total.IterElems)
	c.Ev.Count("raw_walks", total.Walks)
	c.Ev.Count("raw_walk_moves_compared", total.WalkMoves)
	c.Ev.Count("full_state_checks_after_batch", total.StateChecks)
	c.Ev.Count("reads_while_batch_open", total.OpenReads)
	c.Ev.Count("iterators_held_across_commit", total.SnapIters)
	c.Ev.Count("compactions", total.Compactions)
	c.Ev.Set("caller_slice_overrun_by_call_site", total.GuardOverrun)
	c.Ev.Set("findings_by_signature", findingsBySig)
	fmt.Printf("C20: %d sequences x %d engines done; combos %d/%d; findings by signature: %v\n", nSeq, len(engines), len(total.CombosNonTriv), totalCombos, sortedCounts(findingsBySig))

	// concurrent atomic visibility under the race detector
	if err := runStress(c); err != nil {
		return err
	}
	if c.Thorough() {
		if err := runAsan(c, nSeq); err != nil {
			return err
		}
	}
	return nil
}

func sortedCounts(m map[string]int64) []string {
	var ks []string
	for k := range m {
		ks = append(ks, k)
	}
	sort.Strings(ks)
	out := make([]string, 0, len(ks))
	for _, k := range ks {
		out = append(out, fmt.Sprintf("%s=%d", k, m[k]))
	}
	return out
}

func headSteps(s *Sequence, n int) []Step {
	var out []Step
	for _, st := range s.Steps {
		if st.Kind == "reads" {
			c := st
			if len(c.Reads) > 3 {
				c.Reads = c.Reads[len(c.Reads)-3:]
			}
			out = append(out, c)
		} else {
			out = append(out, st)
		}
		if len(out) >= n {
			break
		}
	}
	return out
}

func replayC20(c *vc.Ctx) error {
	b, err := ioutil.ReadFile(c.Replay)
	if err != nil {
		return err
	}
	var doc struct {
		Signature string  `json:"signature"`
		Witness   Witness `json:"witness"`
	}
	if err := json.Unmarshal(b, &doc); err != nil {
		return err
	}
	w := doc.Witness
	switch w.Kind {
	case "sequence":
		if w.Sequence == nil {
			return fmt.Errorf("replay file has no sequence")
		}
		fs, err := runSequence(w.Sequence, w.Engine, c.Scratch, newStats(), 64, nil)
		if err != nil {
			return err
		}
		c.Ev.Eval()
		fmt.Printf("C20 replay: engine %s, %d steps, %d findings\n", w.Engine, len(w.Sequence.Steps), len(fs))
		seen := map[string]bool{}
		for i := range fs {
			if seen[fs[i].Sig] {
				continue
			}
			seen[fs[i].Sig] = true
			f := fs[i]
			c.Violation(f.Sig, f.Summary, Witness{Kind: "sequence", Engine: w.Engine, Sequence: w.Sequence, Finding: &f, Shrunk: w.Shrunk})
		}
		if hasSig(fs, doc.Signature) == nil {
			fmt.Printf("C20 replay: recorded signature %s did NOT reproduce\n", doc.Signature)
		}
		return nil
	case "stress":
		fmt.Println("C20 replay: a stress witness is a concurrent schedule; re-running the stress with the recorded seed re-samples it")
		return runStress(c)
	case "asan":
		return runAsan(c, c.Pick(1500, 50000))
	}
	return fmt.Errorf("unknown witness kind %q", w.Kind)
}
