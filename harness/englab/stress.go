package englab

import (
	"bufio"
	"bytes"
	"encoding/binary"
	"encoding/json"
	"fmt"
	"io/ioutil"
	"math/rand"
	"os"
	"os/exec"
	"path/filepath"
	"regexp"
	"sort"
	"strconv"
	"strings"
	"sync"
	"sync/atomic"
	"time"

	"github.com/youzan/ZanRedisDB/common"
	"github.com/youzan/ZanRedisDB/engine"

	"verif/harness/vc"
)

// ---- child: concurrent atomic-visibility workload (runs under -race) ----

type stressObs struct {
	Kind   string `json:"kind"` // torn-pair | torn-range | torn-counter | snapshot-regress | lost-commit | error
	Method string `json:"method"`
	Group  int    `json:"group"`
	Detail string `json:"detail"`
}

type stressOut struct {
	Engine          string           `json:"engine"`
	Commits         int64            `json:"commits"`
	CommitsByKind   map[string]int64 `json:"commits_by_kind"`
	Snapshots       map[string]int64 `json:"snapshots_by_method"`
	SnapshotsMoving int64            `json:"snapshots_that_saw_a_new_version"`
	MultiGetTorn    int64            `json:"multiget_torn"`
	MultiGets       int64            `json:"multigets"`
	Obs             []stressObs      `json:"observations"`
	ObsCount        map[string]int64 `json:"observation_counts"`
	Done            bool             `json:"done"`
}

const stressGroups = 8

func gkey(g int, s string) []byte { return []byte(fmt.Sprintf("g%02d/%s", g, s)) }

func verVal(ver uint64, pad int) []byte {
	v := make([]byte, 8+pad)
	binary.BigEndian.PutUint64(v, ver)
	for i := 8; i < len(v); i++ {
		v[i] = byte(ver + uint64(i))
	}
	return v
}

func verOf(v []byte) (uint64, bool) {
	if len(v) < 8 {
		return 0, false
	}
	return binary.BigEndian.Uint64(v), true
}

// stressChild: englab-stress <engine> <seed> <commitsPerWriter> <readers> <out.json> <datadir>
//
// Two writers own disjoint key groups. Every batch keeps one of three
// invariants that hold in every committed state:
//
//	pair:    value(g/pa) and value(g/pb) carry the same version
//	range:   exactly one key exists in [g/r/, g/r0), and its value carries the version in its name
//	         (batch = DeleteRange(g/r/, g/r0) + Put(g/r/<ver>))
//	counter: counter g/ca == counter g/cb (batch = Merge(ca,d) + Merge(cb,d))
//
// Readers take one iterator (with and without WithSnap) and evaluate the
// invariants inside it; versions seen by one reader in successive iterators
// must not go backwards; at the end the store must hold every writer's last commit.
func stressChild(args []string) int {
	if len(args) < 6 {
		fmt.Fprintln(os.Stderr, "usage: englab-stress <engine> <seed> <commits> <readers> <out> <dir>")
		return 2
	}
	typ := args[0]
	seed, _ := strconv.ParseInt(args[1], 10, 64)
	commits, _ := strconv.Atoi(args[2])
	readers, _ := strconv.Atoi(args[3])
	outPath, dir := args[4], args[5]
	quietLogs(dir)
	go func() { // never endanger the machine
		for {
			time.Sleep(200 * time.Millisecond)
			if r := rssBytes(); r > 6<<30 {
				fmt.Fprintf(os.Stderr, "englab-stress: resident set %d MiB exceeds the guard, aborting\n", r>>20)
				os.Exit(3)
			}
		}
	}()
	eng, err := openEngine(typ, dir, SeqParams{})
	if err != nil {
		fmt.Fprintln(os.Stderr, "open:", err)
		return 2
	}
	out := &stressOut{Engine: typ, CommitsByKind: map[string]int64{}, Snapshots: map[string]int64{}, ObsCount: map[string]int64{}}
	var omu sync.Mutex
	observe := func(o stressObs) {
		omu.Lock()
		out.ObsCount[o.Kind]++
		if out.ObsCount[o.Kind] <= 3 { // a few examples of every kind
			out.Obs = append(out.Obs, o)
		}
		omu.Unlock()
	}
	// initial state
	{
		wb := eng.NewWriteBatch()
		for g := 0; g < stressGroups; g++ {
			wb.Put(gkey(g, "pa"), verVal(0, 0))
			wb.Put(gkey(g, "pb"), verVal(0, 0))
			wb.Put(gkey(g, "r/"+fmt.Sprintf("%016x", 0)), verVal(0, 0))
			wb.Merge(gkey(g, "ca"), make([]byte, 8))
			wb.Merge(gkey(g, "cb"), make([]byte, 8))
		}
		if err := wb.Commit(); err != nil {
			fmt.Fprintln(os.Stderr, "init commit:", err)
			return 2
		}
		wb.Clear()
		wb.Destroy()
	}
	const writers = 2
	var lastVer [stressGroups]uint64  // last committed pair version per group (owner writes)
	var lastRVer [stressGroups]uint64 // last committed range version
	var lastCnt [stressGroups]uint64  // expected counter value
	var writersDone int32
	var wwg, rwg sync.WaitGroup
	var commitCount int64
	var kmu sync.Mutex
	for w := 0; w < writers; w++ {
		wwg.Add(1)
		go func(w int) {
			defer wwg.Done()
			rng := rand.New(rand.NewSource(seed*31 + int64(w)))
			var own []int
			for g := 0; g < stressGroups; g++ {
				if g%writers == w {
					own = append(own, g)
				}
			}
			var wb engine.WriteBatch
			if w == 0 {
				wb = eng.DefaultWriteBatch() // the apply loop's batch object
			} else {
				wb = eng.NewWriteBatch()
			}
			pver := map[int]uint64{}
			rver := map[int]uint64{}
			cnt := map[int]uint64{}
			for i := 0; i < commits; i++ {
				g := own[rng.Intn(len(own))]
				kind := ""
				switch x := rng.Intn(10); {
				case x < 4:
					kind = "pair"
					pver[g]++
					wb.Put(gkey(g, "pa"), verVal(pver[g], rng.Intn(40)))
					for n := rng.Intn(4); n > 0; n-- { // unrelated writes between the two halves
						wb.Put(gkey(g, "n/"+strconv.Itoa(rng.Intn(50))), verVal(uint64(i), rng.Intn(100)))
					}
					wb.Put(gkey(g, "pb"), verVal(pver[g], rng.Intn(40)))
				case x < 6:
					kind = "two-pairs"
					g2 := own[rng.Intn(len(own))]
					pver[g]++
					wb.Put(gkey(g, "pa"), verVal(pver[g], 0))
					if g2 != g {
						pver[g2]++
						wb.Put(gkey(g2, "pb"), verVal(pver[g2], 3))
						wb.Put(gkey(g2, "pa"), verVal(pver[g2], 0))
					}
					wb.Delete(gkey(g, "n/"+strconv.Itoa(rng.Intn(50))))
					wb.Put(gkey(g, "pb"), verVal(pver[g], 5))
				case x < 8:
					kind = "delrange+put"
					rver[g]++
					wb.DeleteRange(gkey(g, "r/"), gkey(g, "r0"))
					wb.Put(gkey(g, "r/"+fmt.Sprintf("%016x", rver[g])), verVal(rver[g], rng.Intn(20)))
				default:
					kind = "merge-pair"
					d := uint64(1 + rng.Intn(5))
					cnt[g] += d
					dv := make([]byte, 8)
					binary.LittleEndian.PutUint64(dv, d)
					wb.Merge(gkey(g, "ca"), dv)
					wb.Merge(gkey(g, "cb"), dv)
				}
				var err error
				if i%2 == 0 {
					err = eng.Write(wb)
				} else {
					err = wb.Commit()
				}
				wb.Clear()
				if err != nil {
					observe(stressObs{Kind: "error", Method: "commit", Group: g, Detail: err.Error()})
					break
				}
				atomic.AddInt64(&commitCount, 1)
				kmu.Lock()
				out.CommitsByKind[kind]++
				kmu.Unlock()
				if w == 0 && i%1500 == 1499 {
					// flush + compact while readers and the other writer are active
					// (also drops the thousands of shadowed versions that make pebble
					// iterators crawl)
					eng.CompactRange(engine.CRange{Start: []byte{0}, Limit: []byte{0xff, 0xff}})
					kmu.Lock()
					out.CommitsByKind["(compactions)"]++
					kmu.Unlock()
				}
			}
			for g, v := range pver {
				atomic.StoreUint64(&lastVer[g], v)
			}
			for g, v := range rver {
				atomic.StoreUint64(&lastRVer[g], v)
			}
			for g, v := range cnt {
				atomic.StoreUint64(&lastCnt[g], v)
			}
			if w != 0 {
				wb.Destroy()
			}
		}(w)
	}

	// evaluate all invariants of group g inside one iterator result
	type groupView struct {
		pa, pb       []byte
		rkeys        [][]byte
		rvals        [][]byte
		ca, cb       []byte
		hasPa, hasPb bool
	}
	collect := func(it *engine.RangeLimitedIterator) map[int]*groupView {
		views := map[int]*groupView{}
		for ; it.Valid(); it.Next() {
			k := it.Key()
			v := it.Value()
			if len(k) < 4 || k[0] != 'g' {
				continue
			}
			g, err := strconv.Atoi(string(k[1:3]))
			if err != nil {
				continue
			}
			gv := views[g]
			if gv == nil {
				gv = &groupView{}
				views[g] = gv
			}
			rest := string(k[4:])
			switch {
			case rest == "pa":
				gv.pa, gv.hasPa = v, true
			case rest == "pb":
				gv.pb, gv.hasPb = v, true
			case strings.HasPrefix(rest, "r/"):
				gv.rkeys = append(gv.rkeys, k)
				gv.rvals = append(gv.rvals, v)
			case rest == "ca":
				gv.ca = v
			case rest == "cb":
				gv.cb = v
			}
		}
		return views
	}
	var moving int64
	for rd := 0; rd < readers; rd++ {
		rwg.Add(1)
		go func(rd int) {
			defer rwg.Done()
			rng := rand.New(rand.NewSource(seed*77 + int64(rd)))
			seenP := map[int]uint64{}
			seenR := map[int]uint64{}
			seenC := map[int]uint64{}
			checkView := func(method string, g int, gv *groupView, whole bool) {
				if whole || gv.hasPa || gv.hasPb {
					va, oka := verOf(gv.pa)
					vb, okb := verOf(gv.pb)
					if !oka || !okb || va != vb {
						observe(stressObs{Kind: "torn-pair", Method: method, Group: g, Detail: fmt.Sprintf("pa=%s pb=%s", q(gv.pa), q(gv.pb))})
					} else {
						if va < seenP[g] {
							observe(stressObs{Kind: "snapshot-regress", Method: method, Group: g, Detail: fmt.Sprintf("pair version %d after %d", va, seenP[g])})
						}
						if va > seenP[g] {
							atomic.AddInt64(&moving, 1)
							seenP[g] = va
						}
					}
				}
				if whole || len(gv.rkeys) > 0 {
					if len(gv.rkeys) != 1 {
						observe(stressObs{Kind: "torn-range", Method: method, Group: g, Detail: fmt.Sprintf("%d keys in the range that always holds exactly one: %s", len(gv.rkeys), joinQ(gv.rkeys))})
					} else {
						name := string(gv.rkeys[0][len(gv.rkeys[0])-16:])
						nv, _ := strconv.ParseUint(name, 16, 64)
						vv, ok := verOf(gv.rvals[0])
						if !ok || vv != nv {
							observe(stressObs{Kind: "torn-range", Method: method, Group: g, Detail: fmt.Sprintf("key %s holds version %d", q(gv.rkeys[0]), vv)})
						} else {
							if nv < seenR[g] {
								observe(stressObs{Kind: "snapshot-regress", Method: method, Group: g, Detail: fmt.Sprintf("range version %d after %d", nv, seenR[g])})
							}
							seenR[g] = nv
						}
					}
				}
				if whole || gv.ca != nil || gv.cb != nil {
					if !bytes.Equal(gv.ca, gv.cb) || len(gv.ca) != 8 {
						observe(stressObs{Kind: "torn-counter", Method: method, Group: g, Detail: fmt.Sprintf("ca=%s cb=%s", q(gv.ca), q(gv.cb))})
					} else {
						cv := binary.LittleEndian.Uint64(gv.ca)
						if cv < seenC[g] {
							observe(stressObs{Kind: "snapshot-regress", Method: method, Group: g, Detail: fmt.Sprintf("counter %d after %d", cv, seenC[g])})
						}
						seenC[g] = cv
					}
				}
			}
			for n := 0; ; n++ {
				if atomic.LoadInt32(&writersDone) == 1 && n%4 == 0 {
					return
				}
				g := rng.Intn(stressGroups)
				snap := rng.Intn(2) == 0
				method := ""
				switch rng.Intn(10) {
				case 0, 1, 2: // one group through a bounded range iterator
					method = "range-iter"
					opts := engine.IteratorOpts{Range: engine.Range{Min: gkey(g, ""), Max: gkey(g, "\xff"), Type: common.RangeROpen}, WithSnap: snap, Reverse: rng.Intn(2) == 0}
					it, err := engine.NewDBRangeIteratorWithOpts(eng, opts)
					if err != nil {
						observe(stressObs{Kind: "error", Method: method, Detail: err.Error()})
						return
					}
					views := collect(it)
					it.Close()
					gv := views[g]
					if gv == nil {
						gv = &groupView{}
					}
					checkView(method, g, gv, true)
				case 3, 4: // whole store in one iterator
					method = "full-iter"
					it, err := engine.NewDBRangeLimitIteratorWithOpts(eng, engine.IteratorOpts{Limit: engine.Limit{Count: -1}, WithSnap: snap})
					if err != nil {
						observe(stressObs{Kind: "error", Method: method, Detail: err.Error()})
						return
					}
					views := collect(it)
					it.Close()
					for gg := 0; gg < stressGroups; gg++ {
						gv := views[gg]
						if gv == nil {
							gv = &groupView{}
						}
						checkView(method, gg, gv, true)
					}
				case 5, 6, 7: // raw iterator, two seeks
					method = "raw-seek"
					raw, err := eng.GetIterator(engine.IteratorOpts{WithSnap: snap})
					if err != nil {
						observe(stressObs{Kind: "error", Method: method, Detail: err.Error()})
						return
					}
					gv := &groupView{}
					first, second := "pb", "pa"
					if rng.Intn(2) == 0 {
						first, second = "pa", "pb"
					}
					for _, nm := range []string{first, second} {
						raw.Seek(gkey(g, nm))
						if raw.Valid() && bytes.Equal(raw.RefKey(), gkey(g, nm)) {
							if nm == "pa" {
								gv.pa, gv.hasPa = raw.Value(), true
							} else {
								gv.pb, gv.hasPb = raw.Value(), true
							}
						}
					}
					raw.Seek(gkey(g, "ca"))
					if raw.Valid() && bytes.Equal(raw.RefKey(), gkey(g, "ca")) {
						gv.ca = raw.Value()
					}
					raw.Seek(gkey(g, "cb"))
					if raw.Valid() && bytes.Equal(raw.RefKey(), gkey(g, "cb")) {
						gv.cb = raw.Value()
					}
					raw.Close()
					gv.hasPa = true
					checkView(method, g, gv, false)
				default: // MultiGetBytes: not a consistent read in either engine; counted only
					method = "multiget"
					keys := [][]byte{gkey(g, "pa"), gkey(g, "pb")}
					vals := make([][]byte, 2)
					errs := make([]error, 2)
					eng.MultiGetBytes(keys, vals, errs)
					va, _ := verOf(vals[0])
					vb, _ := verOf(vals[1])
					omu.Lock()
					out.MultiGets++
					if va != vb {
						out.MultiGetTorn++
					}
					omu.Unlock()
				}
				omu.Lock()
				key := method
				if method != "multiget" {
					if snap {
						key += "/WithSnap"
					} else {
						key += "/plain"
					}
				}
				out.Snapshots[key]++
				omu.Unlock()
			}
		}(rd)
	}
	wwg.Wait()
	atomic.StoreInt32(&writersDone, 1)
	rwg.Wait()
	// final state: every writer's last commit is in the store
	for g := 0; g < stressGroups; g++ {
		va, _ := eng.GetBytes(gkey(g, "pa"))
		vb, _ := eng.GetBytes(gkey(g, "pb"))
		a, _ := verOf(va)
		b, _ := verOf(vb)
		if a != atomic.LoadUint64(&lastVer[g]) || b != a {
			observe(stressObs{Kind: "lost-commit", Method: "final", Group: g, Detail: fmt.Sprintf("pair versions %d/%d, last committed %d", a, b, lastVer[g])})
		}
		ca, _ := eng.GetBytes(gkey(g, "ca"))
		cb, _ := eng.GetBytes(gkey(g, "cb"))
		var x, y uint64
		if len(ca) == 8 {
			x = binary.LittleEndian.Uint64(ca)
		}
		if len(cb) == 8 {
			y = binary.LittleEndian.Uint64(cb)
		}
		if x != lastCnt[g] || y != lastCnt[g] {
			observe(stressObs{Kind: "lost-commit", Method: "final", Group: g, Detail: fmt.Sprintf("counters %d/%d, sum of committed merges %d", x, y, lastCnt[g])})
		}
		rk := gkey(g, "r/"+fmt.Sprintf("%016x", lastRVer[g]))
		if ok, _ := eng.Exist(rk); !ok {
			observe(stressObs{Kind: "lost-commit", Method: "final", Group: g, Detail: fmt.Sprintf("range key %s of the last commit is missing", q(rk))})
		}
	}
	out.Commits = atomic.LoadInt64(&commitCount)
	out.SnapshotsMoving = atomic.LoadInt64(&moving)
	out.Done = true
	eng.CloseAll()
	b, _ := json.MarshalIndent(out, "", " ")
	if err := ioutil.WriteFile(outPath, b, 0644); err != nil {
		fmt.Fprintln(os.Stderr, err)
		return 2
	}
	return 0
}

func joinQ(l [][]byte) string {
	var s []string
	for _, b := range l {
		s = append(s, q(b))
	}
	return strings.Join(s, ",")
}

// ---- parent: run the child under the race detector, parse its reports ----

type raceStack struct {
	Header string
	Funcs  []string
	Frames []string // func + file:line
}

type raceReport struct {
	Stacks []raceStack
	Raw    string
}

var frameFuncRe = regexp.MustCompile(`^  (\S.*)$`)
var frameFileRe = regexp.MustCompile(`^      (\S+):(\d+)( \+0x[0-9a-f]+)?$`)

func parseRaceLogs(paths []string) []raceReport {
	var reps []raceReport
	for _, p := range paths {
		f, err := os.Open(p)
		if err != nil {
			continue
		}
		sc := bufio.NewScanner(f)
		sc.Buffer(make([]byte, 1<<20), 1<<24)
		var cur *raceReport
		var st *raceStack
		var raw []string
		flush := func() {
			if cur != nil {
				if st != nil {
					cur.Stacks = append(cur.Stacks, *st)
				}
				cur.Raw = strings.Join(raw, "\n")
				reps = append(reps, *cur)
			}
			cur, st, raw = nil, nil, nil
		}
		for sc.Scan() {
			line := sc.Text()
			if strings.HasPrefix(line, "==================") {
				flush()
				continue
			}
			if strings.HasPrefix(line, "WARNING: DATA RACE") {
				cur = &raceReport{}
				raw = append(raw, line)
				continue
			}
			if cur == nil {
				continue
			}
			if len(raw) < 80 {
				raw = append(raw, line)
			}
			if line == "" {
				continue
			}
			if !strings.HasPrefix(line, " ") { // section header
				if st != nil {
					cur.Stacks = append(cur.Stacks, *st)
				}
				st = &raceStack{Header: line}
				continue
			}
			if st == nil {
				continue
			}
			if m := frameFileRe.FindStringSubmatch(line); m != nil {
				if n := len(st.Frames); n > 0 {
					st.Frames[n-1] += " " + m[1] + ":" + m[2]
				}
				continue
			}
			if m := frameFuncRe.FindStringSubmatch(line); m != nil {
				fn := m[1]
				if i := strings.LastIndex(fn, "("); i > 0 && strings.HasSuffix(fn, ")") {
					fn = fn[:i]
				}
				st.Funcs = append(st.Funcs, fn)
				st.Frames = append(st.Frames, fn)
			}
		}
		flush()
		f.Close()
	}
	return reps
}

const enginePkg = "github.com/youzan/ZanRedisDB/engine"

func isEngineFunc(fn string) bool {
	return strings.HasPrefix(fn, enginePkg+".") || strings.HasPrefix(fn, enginePkg+"/radixdb.")
}

// outermostEngineFunc returns the engine-package frame closest to the caller.
func outermostEngineFunc(s raceStack) string {
	for i := len(s.Funcs) - 1; i >= 0; i-- {
		if isEngineFunc(s.Funcs[i]) {
			return strings.TrimPrefix(s.Funcs[i], "github.com/youzan/ZanRedisDB/")
		}
	}
	return ""
}

func stressParams(c *vc.Ctx) (commits, readers int) {
	return c.Pick(6000, 250000), 6
}

func runStress(c *vc.Ctx) error {
	bin := vc.VariantBinary("race")
	if _, err := os.Stat(bin); err != nil {
		return fmt.Errorf("race variant binary %s missing (./check builds it): %v", bin, err)
	}
	commits, readers := stressParams(c)
	watchdog := time.Duration(c.Pick(240, 1500)) * time.Second
	var allReports, anchored, outside int64
	dedupe := map[string]bool{}
	outsideList := map[string]int{}
	for _, typ := range engines {
		dir := filepath.Join(c.Scratch, "stress-"+typ)
		os.MkdirAll(dir, 0755)
		outPath := filepath.Join(dir, "out.json")
		logBase := filepath.Join(dir, "race")
		cmd := exec.Command(bin, "--child", "englab-stress", typ, strconv.FormatInt(c.Seed, 10), strconv.Itoa(commits), strconv.Itoa(readers), outPath, dir)
		cmd.Env = append(os.Environ(), "GORACE=halt_on_error=0 log_path="+logBase)
		var stderr bytes.Buffer
		cmd.Stderr = &stderr
		cmd.Stdout = &stderr
		start := time.Now()
		if err := cmd.Start(); err != nil {
			return fmt.Errorf("cannot start %s: %v", bin, err)
		}
		done := make(chan error, 1)
		go func() { done <- cmd.Wait() }()
		timedOut := false
		select {
		case <-done:
		case <-time.After(watchdog):
			timedOut = true
			cmd.Process.Kill()
			<-done
		}
		if timedOut {
			c.Inconclusive(fmt.Sprintf("stress child for %s hit the %v watchdog", typ, watchdog))
			continue
		}
		var so stressOut
		b, err := ioutil.ReadFile(outPath)
		if err == nil {
			err = json.Unmarshal(b, &so)
		}
		if err != nil || !so.Done {
			tail := stderr.String()
			if len(tail) > 3000 {
				tail = tail[len(tail)-3000:]
			}
			if strings.Contains(tail, "fatal error:") || strings.Contains(tail, "panic:") {
				c.Violation("stress-crash/"+typ, fmt.Sprintf("%s: the concurrent workload crashed the process", typ),
					Witness{Kind: "stress", Engine: typ, Extra: map[string]interface{}{"stderr_tail": tail, "commits_per_writer": commits, "readers": readers}})
			} else {
				c.Inconclusive(fmt.Sprintf("stress child for %s produced no result: %v %s", typ, err, tail))
			}
			continue
		}
		c.Ev.Eval()
		c.Ev.Count("stress_commits", so.Commits)
		var snaps int64
		for k, v := range so.Snapshots {
			c.Ev.Count("stress_snapshots/"+typ+"/"+k, v)
			if !strings.HasPrefix(k, "multiget") {
				snaps += v
			}
		}
		c.Ev.Count("stress_snapshots_taken", snaps)
		c.Ev.Count("stress_snapshots_that_saw_a_new_version", so.SnapshotsMoving)
		c.Ev.Count("stress_multiget_torn_observed_not_a_violation/"+typ, so.MultiGetTorn)
		c.Ev.Count("stress_multigets/"+typ, so.MultiGets)
		c.Ev.Set("stress_commits_by_kind/"+typ, so.CommitsByKind)
		var torn int64
		for k, v := range so.ObsCount {
			if k != "error" {
				torn += v
			}
		}
		c.Ev.Count("stress_torn_or_lost_observed", torn)
		if so.SnapshotsMoving > 0 {
			c.Ev.Nontrivial("stress/" + typ)
		}
		seenKind := map[string]bool{}
		for _, o := range so.Obs {
			if seenKind[o.Kind] {
				continue
			}
			seenKind[o.Kind] = true
			if o.Kind == "error" {
				c.Violation("api-error/"+typ+"/stress-"+o.Method, fmt.Sprintf("%s: %s failed under concurrency: %s", typ, o.Method, o.Detail),
					Witness{Kind: "stress", Engine: typ, Extra: so})
				continue
			}
			c.Violation(o.Kind+"/"+typ, fmt.Sprintf("%s: %s via %s in group %d: %s (%d such observations)", typ, o.Kind, o.Method, o.Group, o.Detail, so.ObsCount[o.Kind]),
				Witness{Kind: "stress", Engine: typ, Extra: map[string]interface{}{"result": so, "commits_per_writer": commits, "readers": readers, "seed": c.Seed}})
		}
		// race reports
		logs, _ := filepath.Glob(logBase + ".*")
		reps := parseRaceLogs(logs)
		for _, r := range reps {
			allReports++
			if len(r.Stacks) < 2 {
				continue
			}
			a, b := r.Stacks[0], r.Stacks[1]
			ka, kb := strings.Join(a.Funcs, "<"), strings.Join(b.Funcs, "<")
			if ka > kb {
				ka, kb = kb, ka
			}
			if dedupe[ka+"|"+kb] {
				continue
			}
			dedupe[ka+"|"+kb] = true
			fa, fb := outermostEngineFunc(a), outermostEngineFunc(b)
			if fa != "" && fb != "" {
				anchored++
				if fa > fb {
					fa, fb = fb, fa
				}
				c.Violation("race/"+fa+"|"+fb, fmt.Sprintf("%s workload: data race between %s and %s (both in the engine package)", typ, fa, fb),
					Witness{Kind: "stress", Engine: typ, Extra: map[string]interface{}{"report": r.Raw, "stack1": a.Frames, "stack2": b.Frames}})
			} else {
				outside++
				top := func(s raceStack) string {
					if len(s.Funcs) > 0 {
						return s.Funcs[0]
					}
					return "?"
				}
				outsideList[top(a)+" | "+top(b)]++
			}
		}
		fmt.Printf("C20 stress %s: %d commits, %d snapshots (%d saw a new version), torn/lost=%d, multiget torn=%d/%d, race reports=%d, %.1fs\n",
			typ, so.Commits, snaps, so.SnapshotsMoving, torn, so.MultiGetTorn, so.MultiGets, len(reps), time.Since(start).Seconds())
	}
	c.Ev.Count("race_reports_total", allReports)
	c.Ev.Count("race_reports_distinct_in_engine_package", anchored)
	c.Ev.Count("race_reports_distinct_outside_anchor", outside)
	if len(outsideList) > 0 {
		var l []string
		for k, v := range outsideList {
			l = append(l, fmt.Sprintf("%s x%d", k, v))
		}
		sort.Strings(l)
		c.Ev.Set("race_reports_outside_anchor", l)
	}
	return nil
}

func rssBytes() int64 {
	b, err := ioutil.ReadFile("/proc/self/statm")
	if err != nil {
		return 0
	}
	f := strings.Fields(string(b))
	if len(f) < 2 {
		return 0
	}
	pages, _ := strconv.ParseInt(f[1], 10, 64)
	return pages * int64(os.Getpagesize())
}
