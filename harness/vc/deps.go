package vc

// keeps the pinned checker modules in go.mod even while no engine imports them
import (
	_ "github.com/anishathalye/porcupine"
)
