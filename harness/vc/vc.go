// Package vc is the shared runtime of every check: seed/tier handling,
// three-valued verdicts, witness (replay) files, known-finding matching and
// the evidence file. See /verif/DESIGN.md sections 1.4, 1.6 and 1.8.
package vc

import (
	"encoding/json"
	"fmt"
	"io/ioutil"
	"math/rand"
	"os"
	"path/filepath"
	"regexp"
	"runtime"
	"sort"
	"strconv"
	"sync"
	"time"
)

// VerifDir is where MANIFEST.json, evidence/, replays/ and known_findings.json live.
var VerifDir = func() string {
	if d := os.Getenv("VERIF_DIR"); d != "" {
		return d
	}
	return "/verif"
}()

// CheckFunc runs one property check. It reports violations through
// Ctx.Violation and coverage through Ctx.Ev. Returning an error means the
// check could not reach a verdict (inconclusive, exit 2).
type CheckFunc func(c *Ctx) error

type regEntry struct {
	fn    CheckFunc
	level string
}

var registry = map[string]regEntry{}

var needs = map[string][]string{}

// Need declares that check id drives children built with a sanitizer variant
// ("race" or "asan"); ./check builds bin/vcheck-<variant> before running it.
func Need(id string, variants ...string) { needs[id] = append(needs[id], variants...) }

// VariantBinary returns the path of the vcheck binary built with the variant.
func VariantBinary(variant string) string {
	suffix := os.Getenv("VERIF_BIN_SUFFIX") // set by ./check when VERIF_REPO selects a scratch checkout
	if variant == "" || variant == "plain" {
		return filepath.Join(VerifDir, "bin", "vcheck"+suffix)
	}
	return filepath.Join(VerifDir, "bin", "vcheck-"+variant+suffix)
}

// Register is called from the init() of an engine package.
// level is "exploration" or "fault_enumeration".
func Register(id, level string, fn CheckFunc) {
	if _, ok := registry[id]; ok {
		panic("vc: duplicate check " + id)
	}
	registry[id] = regEntry{fn, level}
}

func Registered() []string {
	var ids []string
	for id := range registry {
		ids = append(ids, id)
	}
	sort.Strings(ids)
	return ids
}

var children = map[string]func(args []string) int{}

// RegisterChild registers a helper sub-command (vcheck --child <name> ...),
// used by engines that run part of a workload in a child process.
func RegisterChild(name string, fn func(args []string) int) { children[name] = fn }

// Ctx is handed to a check.
type Ctx struct {
	ID      string
	Tier    string // "quick" | "thorough"
	Seed    int64
	Workers int
	Scratch string // private scratch directory outside /repo and /verif, removed at exit
	Replay  string // non-empty: path of a replay file to re-execute instead of generating
	Ev      *Evidence

	mu         sync.Mutex
	violations int
	knownHit   map[string]int
	replayN    int
	known      []Finding
	start      time.Time
	inconcl    int
}

func (c *Ctx) Thorough() bool { return c.Tier == "thorough" }

// Pick returns q in the quick tier and t in the thorough tier.
func (c *Ctx) Pick(q, t int) int {
	if c.Thorough() {
		return t
	}
	return q
}

// Rand returns a PRNG that is a function of (seed, stream): every generated
// case list is determined by VERIF_SEED and the tier only.
func (c *Ctx) Rand(stream int64) *rand.Rand {
	return rand.New(rand.NewSource(c.Seed*1000003 + stream*7919 + 17))
}

// Inconclusive counts an execution that reached no verdict (watchdog, settle
// not reached, checker timeout). It is never folded into held or violated.
func (c *Ctx) Inconclusive(why string) {
	c.mu.Lock()
	c.inconcl++
	n := c.inconcl
	c.mu.Unlock()
	if n <= 20 {
		fmt.Printf("INCONCLUSIVE property=%s %s\n", c.ID, why)
	}
}

func (c *Ctx) InconclusiveCount() int {
	c.mu.Lock()
	defer c.mu.Unlock()
	return c.inconcl
}

func (c *Ctx) Violations() int {
	c.mu.Lock()
	defer c.mu.Unlock()
	return c.violations
}

// Violation records a violation. signature is a stable, check-defined
// classification of WHAT fails (input class / call site / history pattern); it
// is matched against known_findings.json. witness is written as the replay
// file. Returns true if it counted as a new (unlisted) violation.
func (c *Ctx) Violation(signature string, summary string, witness interface{}) bool {
	c.mu.Lock()
	defer c.mu.Unlock()
	for _, f := range c.known {
		if f.Property != c.ID || f.Kind != "known" || f.re == nil {
			continue
		}
		if f.re.MatchString(signature) {
			c.knownHit[f.ID]++
			if c.knownHit[f.ID] == 1 {
				fmt.Printf("KNOWN-FINDING: property=%s %s [%s] first witness: %s\n", c.ID, f.What, f.ID, summary)
			}
			return false
		}
	}
	c.violations++
	if c.violations > 10 {
		return true // keep the first ten witnesses only
	}
	c.replayN++
	dir := filepath.Join(VerifDir, "replays", c.ID)
	os.MkdirAll(dir, 0755)
	path := filepath.Join(dir, fmt.Sprintf("%s-seed%d-%d.json", c.Tier, c.Seed, c.replayN))
	w := map[string]interface{}{
		"property":  c.ID,
		"tier":      c.Tier,
		"seed":      c.Seed,
		"signature": signature,
		"summary":   summary,
		"witness":   witness,
	}
	b, err := json.MarshalIndent(w, "", " ")
	if err != nil {
		b = []byte(fmt.Sprintf("{\"property\":%q,\"signature\":%q,\"summary\":%q,\"witness_marshal_error\":%q}", c.ID, signature, summary, err.Error()))
	}
	ioutil.WriteFile(path, b, 0644)
	fmt.Printf("VIOLATION property=%s replay=%s\n", c.ID, path)
	fmt.Printf("  signature: %s\n  %s\n", signature, summary)
	return true
}

// Finding is one entry of known_findings.json.
type Finding struct {
	ID        string `json:"id"`
	Property  string `json:"property"`
	Kind      string `json:"kind"` // "known" | "fixed"
	Signature string `json:"signature"`
	What      string `json:"what"`
	Commit    string `json:"commit,omitempty"`
	re        *regexp.Regexp
}

func loadFindings() []Finding {
	b, err := ioutil.ReadFile(filepath.Join(VerifDir, "known_findings.json"))
	if err != nil {
		return nil
	}
	var doc struct {
		Findings []Finding `json:"findings"`
	}
	if err := json.Unmarshal(b, &doc); err != nil {
		fmt.Fprintf(os.Stderr, "known_findings.json: %v\n", err)
		os.Exit(2)
	}
	for i := range doc.Findings {
		if doc.Findings[i].Kind == "known" {
			doc.Findings[i].re = regexp.MustCompile("^(?:" + doc.Findings[i].Signature + ")$")
		}
	}
	return doc.Findings
}

// Evidence is what the check measured; written to evidence/<id>.json.
type Evidence struct {
	mu       sync.Mutex
	evals    int64
	distinct map[string]struct{}
	Rule     string
	samples  []interface{}
	counters map[string]int64
	extra    map[string]interface{}
	assume   []string
}

func newEvidence() *Evidence {
	return &Evidence{distinct: map[string]struct{}{}, counters: map[string]int64{}, extra: map[string]interface{}{}}
}

// Eval counts one conclusive execution.
func (e *Evidence) Eval() { e.mu.Lock(); e.evals++; e.mu.Unlock() }

func (e *Evidence) EvalN(n int) { e.mu.Lock(); e.evals += int64(n); e.mu.Unlock() }

// Nontrivial records one case that is non-trivial by the check's rule, under a
// fingerprint; distinct_nontrivial is the number of distinct fingerprints.
func (e *Evidence) Nontrivial(fingerprint string) {
	e.mu.Lock()
	e.distinct[fingerprint] = struct{}{}
	e.mu.Unlock()
}

// Sample keeps up to max literal cases.
func (e *Evidence) Sample(max int, s interface{}) {
	e.mu.Lock()
	if len(e.samples) < max {
		e.samples = append(e.samples, s)
	}
	e.mu.Unlock()
}

func (e *Evidence) Count(key string, n int64) { e.mu.Lock(); e.counters[key] += n; e.mu.Unlock() }

func (e *Evidence) Max(key string, v int64) {
	e.mu.Lock()
	if cur, ok := e.counters[key]; !ok || v > cur {
		e.counters[key] = v
	}
	e.mu.Unlock()
}

func (e *Evidence) Counter(key string) int64 { e.mu.Lock(); defer e.mu.Unlock(); return e.counters[key] }

func (e *Evidence) Set(key string, v interface{}) { e.mu.Lock(); e.extra[key] = v; e.mu.Unlock() }

func (e *Evidence) Assume(s string) { e.mu.Lock(); e.assume = append(e.assume, s); e.mu.Unlock() }

func (e *Evidence) Evals() int64 { e.mu.Lock(); defer e.mu.Unlock(); return e.evals }

func (e *Evidence) DistinctCount() int { e.mu.Lock(); defer e.mu.Unlock(); return len(e.distinct) }

func (c *Ctx) writeEvidence(level string) error {
	e := c.Ev
	e.mu.Lock()
	defer e.mu.Unlock()
	cov := map[string]interface{}{}
	for k, v := range e.counters {
		cov[k] = v
	}
	for k, v := range e.extra {
		cov[k] = v
	}
	cov["evaluations"] = e.evals
	cov["distinct_nontrivial"] = len(e.distinct)
	cov["rule"] = e.Rule
	if e.samples == nil {
		e.samples = []interface{}{}
	}
	cov["samples"] = e.samples
	cov["inconclusive_executions"] = c.inconcl
	kh := map[string]int{}
	for k, v := range c.knownHit {
		kh[k] = v
	}
	cov["known_findings_hit"] = kh
	doc := map[string]interface{}{
		"property_id": c.ID,
		"tier":        c.Tier,
		"seed":        c.Seed,
		"level":       level,
		"coverage":    cov,
		"assumptions": append([]string{}, e.assume...),
		"wall_s":      float64(int(time.Since(c.start).Seconds()*10)) / 10,
		"violations":  c.violations,
	}
	b, err := json.MarshalIndent(doc, "", " ")
	if err != nil {
		return err
	}
	dir := filepath.Join(VerifDir, "evidence")
	os.MkdirAll(dir, 0755)
	return ioutil.WriteFile(filepath.Join(dir, c.ID+".json"), b, 0644)
}

// Main is the dispatcher used by cmd/vcheck: vcheck <id> <quick|thorough> [--replay file]
func Main(args []string) int {
	if len(args) < 1 {
		fmt.Fprintf(os.Stderr, "usage: vcheck <id> [quick|thorough] [--replay <file>]\nregistered: %v\n", Registered())
		return 2
	}
	if args[0] == "--needs" {
		if len(args) > 1 {
			for _, n := range needs[args[1]] {
				fmt.Println(n)
			}
		}
		return 0
	}
	if args[0] == "--child" {
		// vcheck --child <name> args...: helper processes of the engines
		if len(args) < 2 || children[args[1]] == nil {
			fmt.Fprintf(os.Stderr, "vcheck: unknown child %v\n", args[1:])
			return 2
		}
		return children[args[1]](args[2:])
	}
	id := args[0]
	tier := os.Getenv("VERIF_TIER")
	replay := ""
	for i := 1; i < len(args); i++ {
		switch args[i] {
		case "quick", "thorough":
			tier = args[i]
		case "--replay":
			if i+1 < len(args) {
				replay = args[i+1]
				i++
			}
		}
	}
	if tier != "thorough" {
		tier = "quick"
	}
	ent, ok := registry[id]
	if !ok {
		fmt.Fprintf(os.Stderr, "vcheck: no check registered for %s (have %v)\n", id, Registered())
		return 2
	}
	seed := int64(1)
	if s := os.Getenv("VERIF_SEED"); s != "" {
		if v, err := strconv.ParseInt(s, 10, 64); err == nil {
			seed = v
		}
	}
	workers := runtime.NumCPU()
	if s := os.Getenv("VERIF_WORKERS"); s != "" {
		if v, err := strconv.Atoi(s); err == nil && v > 0 {
			workers = v
		}
	}
	base := os.Getenv("VERIF_SCRATCH")
	if base == "" {
		base = os.TempDir()
	}
	scratch, err := ioutil.TempDir(base, "verif-"+id+"-")
	if err != nil {
		fmt.Fprintf(os.Stderr, "vcheck: scratch: %v\n", err)
		return 2
	}
	defer os.RemoveAll(scratch)
	c := &Ctx{ID: id, Tier: tier, Seed: seed, Workers: workers, Scratch: scratch, Replay: replay,
		Ev: newEvidence(), knownHit: map[string]int{}, known: loadFindings(), start: time.Now()}
	// Overall wall-clock watchdog: a change to the tree may make the REAL code loop
	// for ever inside a check (seen with a seeded data race in the placement code).
	// A check must terminate: when the generous deadline passes, the goroutine
	// stacks are written next to the replays, the run is declared inconclusive
	// (never a violation by wall clock alone) and the process exits 2.
	deadline := 25 * time.Minute
	if tier == "thorough" {
		deadline = 4 * time.Hour
	}
	if s := os.Getenv("VERIF_DEADLINE"); s != "" {
		if d, err := time.ParseDuration(s); err == nil && d > 0 {
			deadline = d
		}
	}
	go func() {
		time.Sleep(deadline)
		buf := make([]byte, 8<<20)
		buf = buf[:runtime.Stack(buf, true)]
		dir := filepath.Join(VerifDir, "replays", id)
		os.MkdirAll(dir, 0755)
		sp := filepath.Join(dir, fmt.Sprintf("deadline-%s-seed%d-stacks.txt", tier, seed))
		ioutil.WriteFile(sp, buf, 0644)
		fmt.Printf("INCONCLUSIVE property=%s the check did not finish within %v (goroutine stacks: %s); no verdict\n", id, deadline, sp)
		os.RemoveAll(scratch)
		os.Exit(2)
	}()
	var runErr error
	func() {
		defer func() {
			if r := recover(); r != nil {
				buf := make([]byte, 1<<16)
				buf = buf[:runtime.Stack(buf, false)]
				runErr = fmt.Errorf("check panicked (harness error, inconclusive): %v\n%s", r, buf)
			}
		}()
		runErr = ent.fn(c)
	}()
	c.mu.Lock()
	viol := c.violations
	c.mu.Unlock()
	// A run that observed nothing non-trivial has no evidence either way.
	if runErr == nil && viol == 0 && replay == "" {
		if c.Ev.Evals() < 1 || c.Ev.DistinctCount() < 2 {
			runErr = fmt.Errorf("run observed too little: evaluations=%d distinct_nontrivial=%d", c.Ev.Evals(), c.Ev.DistinctCount())
		}
	}
	// VERIF_NO_EVIDENCE=1: sensitivity runs against scratch worktrees (tools/run_seed.sh)
	// must not overwrite the evidence of the real tree.
	if replay == "" && os.Getenv("VERIF_NO_EVIDENCE") == "" {
		if err := c.writeEvidence(ent.level); err != nil {
			fmt.Fprintf(os.Stderr, "vcheck: evidence: %v\n", err)
			return 2
		}
	}
	fmt.Printf("SUMMARY property=%s tier=%s seed=%d evaluations=%d distinct_nontrivial=%d violations=%d inconclusive=%d known_hits=%v wall=%.1fs\n",
		id, tier, seed, c.Ev.Evals(), c.Ev.DistinctCount(), viol, c.inconcl, c.knownHit, time.Since(c.start).Seconds())
	if viol > 0 {
		return 1
	}
	if runErr != nil {
		fmt.Printf("INCONCLUSIVE property=%s %v\n", id, runErr)
		return 2
	}
	return 0
}

// ParallelFor runs fn(i) for i in [0,n) on c.Workers goroutines. A panic in fn
// is re-raised in the caller with the index attached.
func (c *Ctx) ParallelFor(n int, fn func(i int)) {
	w := c.Workers
	if w > n {
		w = n
	}
	if w < 1 {
		w = 1
	}
	var wg sync.WaitGroup
	var next int64
	var mu sync.Mutex
	var pan interface{}
	for k := 0; k < w; k++ {
		wg.Add(1)
		go func() {
			defer wg.Done()
			for {
				mu.Lock()
				i := int(next)
				next++
				stop := pan != nil
				mu.Unlock()
				if i >= n || stop {
					return
				}
				func() {
					defer func() {
						if r := recover(); r != nil {
							buf := make([]byte, 1<<14)
							buf = buf[:runtime.Stack(buf, false)]
							mu.Lock()
							if pan == nil {
								pan = fmt.Sprintf("case %d: %v\n%s", i, r, buf)
							}
							mu.Unlock()
						}
					}()
					fn(i)
				}()
			}
		}()
	}
	wg.Wait()
	if pan != nil {
		panic(pan)
	}
}
