package codeclab

import (
	"fmt"
	"io/ioutil"
	"log"
	"math/rand"

	"github.com/youzan/ZanRedisDB/raft"
	"github.com/youzan/ZanRedisDB/raft/raftpb"
)

// A tiny multi-group raft "cluster" driven single-threaded through
// raft.RawNode over real in-memory storage: 3 nodes, nGroups raft groups, one
// replica of every group on every node. Every message a replica produces is
// handed to a sink (which pushes it through the real stream codecs) and the
// *decoded* message is what the destination replica steps.

type capReplica struct {
	rn      *raft.RawNode
	st      *raft.MemoryStorage
	id      uint64 // raft replica id
	node    uint64
	gidx    int
	applied uint64
	cs      raftpb.ConfState
	cut     bool // partitioned away
}

type capMsg struct {
	m        raftpb.Message
	fromNode uint64
	toNode   uint64
}

type capCluster struct {
	r        *rand.Rand
	replicas []*capReplica
	byID     map[[2]uint64]*capReplica      // (GroupId, replica id)
	queues   map[[2]uint64][]raftpb.Message // per directed node pair, FIFO (a stream is ordered)
	links    [][2]uint64
	// route pushes m through the codec of the stream (fromNode -> toNode) and returns what the receiver decodes
	route func(fromNode, toNode uint64, m raftpb.Message) (raftpb.Message, bool)
	Stats map[string]int
}

// Replica ids are allocated per partition: every group uses the same small ids
// (here the node id), so the groups two nodes share differ only in GroupId and
// name, as in production. One group in three keeps ids of its own (replaced members).
func replicaID(g int, node uint64) uint64 {
	if g%3 == 2 {
		return uint64(g+1)*10 + node
	}
	return node
}

func newCapCluster(r *rand.Rand, nGroups int, route func(fromNode, toNode uint64, m raftpb.Message) (raftpb.Message, bool)) *capCluster {
	c := &capCluster{r: r, byID: map[[2]uint64]*capReplica{}, queues: map[[2]uint64][]raftpb.Message{}, route: route, Stats: map[string]int{}}
	lg := &raft.DefaultLogger{Logger: log.New(ioutil.Discard, "", 0)}
	for g := 0; g < nGroups; g++ {
		var peers []raft.Peer
		for n := uint64(1); n <= 3; n++ {
			peers = append(peers, raft.Peer{NodeID: n, ReplicaID: replicaID(g, n)})
		}
		for n := uint64(1); n <= 3; n++ {
			st := raft.NewRealMemoryStorage()
			id := replicaID(g, n)
			cfg := &raft.Config{
				ID:              id,
				Group:           raftpb.Group{NodeId: n, Name: fmt.Sprintf("capns-%d", g), GroupId: uint64(1000 + g), RaftReplicaId: id},
				ElectionTick:    10,
				HeartbeatTick:   1,
				Storage:         st,
				MaxSizePerMsg:   2048,
				MaxInflightMsgs: 8,
				CheckQuorum:     true,
				PreVote:         g%2 == 0,
				Logger:          lg,
			}
			rn, err := raft.NewRawNode(cfg, peers)
			if err != nil {
				panic(err)
			}
			rp := &capReplica{rn: rn, st: st, id: id, node: n, gidx: g}
			c.replicas = append(c.replicas, rp)
			c.byID[[2]uint64{cfg.Group.GroupId, id}] = rp
		}
	}
	return c
}

func (c *capCluster) processReady(rp *capReplica) {
	for rp.rn.HasReady() {
		rd := rp.rn.Ready()
		if !raft.IsEmptySnap(rd.Snapshot) {
			rp.st.ApplySnapshot(rd.Snapshot)
			rp.applied = rd.Snapshot.Metadata.Index
			rp.cs = rd.Snapshot.Metadata.ConfState
			c.Stats["snapshots_installed"]++
		}
		if len(rd.Entries) > 0 {
			rp.st.Append(rd.Entries)
		}
		if !raft.IsEmptyHardState(rd.HardState) {
			rp.st.SetHardState(rd.HardState)
		}
		for _, e := range rd.CommittedEntries {
			if e.Type == raftpb.EntryConfChange {
				var cc raftpb.ConfChange
				if err := cc.Unmarshal(e.Data); err == nil {
					rp.cs = *rp.rn.ApplyConfChange(cc)
				}
			}
			if e.Index > rp.applied {
				rp.applied = e.Index
			}
		}
		for _, m := range rd.Messages {
			dst := c.byID[[2]uint64{m.ToGroup.GroupId, m.To}]
			if dst == nil {
				continue
			}
			c.Stats["produced/"+m.Type.String()]++
			if rp.cut || dst.cut {
				c.Stats["dropped_by_partition"]++
				if m.Type == raftpb.MsgSnap {
					rp.rn.ReportSnapshot(m.To, raft.SnapshotFailure)
				}
				continue
			}
			k := [2]uint64{rp.node, dst.node}
			if _, ok := c.queues[k]; !ok {
				c.links = append(c.links, k)
			}
			// the stream writer encodes in send order; decoding happens at delivery
			// time in the same order, so routing at enqueue time is equivalent
			dm, ok := c.route(rp.node, dst.node, m)
			if !ok {
				continue
			}
			if m.Type == raftpb.MsgSnap {
				rp.rn.ReportSnapshot(m.To, raft.SnapshotFinish)
			}
			c.queues[k] = append(c.queues[k], dm)
		}
		rp.rn.Advance(rd)
	}
}

func (c *capCluster) run(steps int) {
	for _, rp := range c.replicas {
		c.processReady(rp)
	}
	for s := 0; s < steps; s++ {
		x := c.r.Intn(100)
		switch {
		case x < 40:
			rp := c.replicas[c.r.Intn(len(c.replicas))]
			rp.rn.Tick()
		case x < 55:
			rp := c.replicas[c.r.Intn(len(c.replicas))]
			n := c.r.Intn(200)
			if c.r.Intn(15) == 0 {
				n = 3000 + c.r.Intn(3000)
			}
			rp.rn.Propose(rbytes(c.r, n))
			c.Stats["proposals"]++
		case x < 57 && s > steps/4: // partition one replica for a while / heal
			rp := c.replicas[c.r.Intn(len(c.replicas))]
			rp.cut = !rp.cut
			c.Stats["partition_toggles"]++
		case x < 59 && s > steps/3: // snapshot + compact on a replica that has applied something
			rp := c.replicas[c.r.Intn(len(c.replicas))]
			if fi, _ := rp.st.FirstIndex(); rp.applied > fi+2 {
				cs := rp.cs
				data := rbytes(c.r, 20+c.r.Intn(200))
				if _, err := rp.st.CreateSnapshot(rp.applied, &cs, append([]byte{}, data...)); err == nil {
					rp.st.Compact(rp.applied)
					c.Stats["compactions"]++
				}
			}
		default:
			if len(c.links) == 0 {
				continue
			}
			k := c.links[c.r.Intn(len(c.links))]
			q := c.queues[k]
			if len(q) == 0 {
				continue
			}
			// deliver a burst: streams are fast compared with ticks
			n := 1 + c.r.Intn(4)
			for ; n > 0 && len(q) > 0; n-- {
				m := q[0]
				q = q[1:]
				if dst := c.byID[[2]uint64{m.ToGroup.GroupId, m.To}]; dst != nil && !dst.cut {
					dst.rn.Step(m)
					c.Stats["delivered"]++
				}
			}
			c.queues[k] = q
		}
		for _, rp := range c.replicas {
			c.processReady(rp)
		}
	}
	for _, rp := range c.replicas {
		if rp.cut {
			rp.cut = false
		}
	}
}
