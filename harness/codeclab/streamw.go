package codeclab

// Stream-level clause of C16 ("stream-reattach"): the codecs are stateful per
// connection, and the object that owns the encoder is the streamWriter. This
// clause drives the REAL streamWriter goroutine (streamWriter.run, through
// rafthttp.VerifStartStreamWriter) with in-memory outgoing connections, hands
// it generated message sequences the way peer.send does (writec(), non-blocking
// put), replaces the connection at seed-chosen points - with and without a
// preceding write error - and then reads every connection's bytes with a fresh
// real decoder, exactly as streamReader.decodeLoop does per connection.
//
// What the writer promises (from stream.go):
//   * run() takes messages from msgc, encodes them in order on the attached
//     connection and flushes; it handles a new connection (connc) only between
//     batches, never in the middle of an encode.
//   * on a write error it closes the connection, stops working and calls
//     ReportUnreachable for the message; whatever was still queued is dropped
//     (closeUnlocked replaces msgc). The same happens to a message that
//     peer.send puts into the channel between the error and working=false.
//   * on re-attach closeUnlocked drops whatever is still queued.
// So the demand is only: a message handed to a WORKING connection and taken
// from the queue before the connection is replaced arrives as sent. The driver
// makes "taken" decidable without timing: before it re-attaches (or stops) it
// waits until the queue it filled is empty, and attach()/stop() themselves
// return only after the writer finished the batch it was encoding.
// Per connection c, with handed(c) = the messages put into the queue while c
// was attached and working:
//   - c never returned a write error: decoding c's bytes with a fresh decoder
//     yields exactly handed(c) (link heartbeats skipped), then a clean EOF;
//   - c returned a write error: decoding yields a prefix of handed(c) (then
//     any error: the tail is cut inside a frame);
//   - nothing is written to a connection after the writer closed it.

import (
	"bytes"
	"context"
	"errors"
	"fmt"
	"io"
	"runtime"
	"sync"
	"sync/atomic"
	"time"

	"github.com/youzan/ZanRedisDB/raft"
	"github.com/youzan/ZanRedisDB/raft/raftpb"
	"github.com/youzan/ZanRedisDB/transport/rafthttp"
)

var errInjectedWrite = errors.New("codeclab: injected write error (connection reset)")

// memConn is an in-memory outgoing connection (Writer + Flusher + Closer).
type memConn struct {
	mu               sync.Mutex
	buf              []byte
	failAt           int // < 0: never fails; else the write that would pass failAt bytes is cut there and fails
	failed           bool
	closed           bool
	writesAfterClose int
	flushes          int
	closedc          chan struct{}
}

func newMemConn(failAt int) *memConn { return &memConn{failAt: failAt, closedc: make(chan struct{})} }

func (c *memConn) Write(p []byte) (int, error) {
	c.mu.Lock()
	defer c.mu.Unlock()
	if c.closed {
		c.writesAfterClose++
		return 0, io.ErrClosedPipe
	}
	if c.failed {
		return 0, errInjectedWrite
	}
	if c.failAt >= 0 && len(c.buf)+len(p) > c.failAt {
		n := c.failAt - len(c.buf)
		if n < 0 {
			n = 0
		}
		c.buf = append(c.buf, p[:n]...)
		c.failed = true
		return n, errInjectedWrite
	}
	c.buf = append(c.buf, p...)
	return len(p), nil
}

func (c *memConn) Flush() {
	c.mu.Lock()
	c.flushes++
	c.mu.Unlock()
}

func (c *memConn) Close() error {
	c.mu.Lock()
	defer c.mu.Unlock()
	if !c.closed {
		c.closed = true
		close(c.closedc)
	}
	return nil
}

func (c *memConn) snapshot() (wire []byte, failed bool, afterClose int) {
	c.mu.Lock()
	defer c.mu.Unlock()
	return append([]byte(nil), c.buf...), c.failed, c.writesAfterClose
}

// sinkRaft is the Raft the writer reports to.
type sinkRaft struct{ unreachable int64 }

func (s *sinkRaft) Process(ctx context.Context, m raftpb.Message) error { return nil }
func (s *sinkRaft) IsPeerRemoved(id uint64) bool                        { return false }
func (s *sinkRaft) ReportUnreachable(id uint64, g raftpb.Group)         { atomic.AddInt64(&s.unreachable, 1) }
func (s *sinkRaft) ReportSnapshot(id uint64, g raftpb.Group, status raft.SnapshotStatus) {
}

// Segment is what happens on one attached connection.
type Segment struct {
	N      int  `json:"n"`       // messages handed over while this connection is attached
	Burst  bool `json:"burst"`   // all at once (the writer batches) or one by one
	FailAt int  `json:"fail_at"` // byte offset at which the connection returns a write error; < 0 never
}

// StreamScenario is one run of the stream-level clause; it is self-contained
// (a witness replays from it).
type StreamScenario struct {
	Index    int              `json:"index"`
	Kind     string           `json:"kind"`
	V2       bool             `json:"msgappv2"`
	Local    uint64           `json:"local_node"`  // receiving node (the writer's peer id)
	Remote   uint64           `json:"remote_node"` // sending node
	Msgs     []raftpb.Message `json:"messages"`
	Segments []Segment        `json:"segments"`
}

func (sc *StreamScenario) codec() string {
	if sc.V2 {
		return "msgappv2"
	}
	return "message"
}

// continues says whether a kept msgappv2 encoder would see b as the direct
// continuation of a (the condition of the compact form).
func continues(a, b *raftpb.Message) bool {
	return a.Type == raftpb.MsgApp && b.Type == raftpb.MsgApp &&
		a.FromGroup == b.FromGroup && a.ToGroup == b.ToGroup &&
		b.Term == a.Term && b.LogTerm == b.Term && b.Index == a.Index+uint64(len(a.Entries))
}

func genStreamScenario(seed int64, idx int) *StreamScenario {
	r := streamRand(seed, 21, idx)
	sc := &StreamScenario{Index: idx}
	switch idx % 5 {
	case 0: // steady replication: every append continues the previous one, 1-2 groups taking turns in runs
		sc.Kind, sc.V2 = "steady", true
		w := newV2World(r)
		sc.Local, sc.Remote = w.local, w.remote
		gs := w.groups
		if len(gs) > 2 {
			gs = gs[:2]
		}
		for _, g := range gs {
			g.lastTerm = g.term
		}
		cur := gs[0]
		for n := 6 + r.Intn(14); n > 0; n-- {
			if len(gs) > 1 && r.Intn(6) == 0 {
				cur = gs[r.Intn(len(gs))]
			}
			nEnt := r.Intn(3)
			if r.Intn(3) == 0 {
				nEnt = 1
			}
			sc.Msgs = append(sc.Msgs, cur.app(r, nEnt, func() int { return r.Intn(40) }))
		}
	case 4: // the general-purpose stream: every message type peer.pick routes to it
		sc.Kind, sc.V2 = "message", false
		sc.Local, sc.Remote = 1+uint64(r.Intn(1000)), 2000+uint64(r.Intn(1000))
		nt := len(raftpb.MessageType_name)
		for n, i := 5+r.Intn(10), 0; len(sc.Msgs) < n; i++ {
			m := genAnyMessage(r, (idx+i*7)%nt)
			if m.Type == raftpb.MsgSnap || rafthttp.VerifIsLinkHeartbeatMessage(&m) {
				continue
			}
			sc.Msgs = append(sc.Msgs, m)
		}
	default: // interleaved groups with gaps, term changes, probes
		sc.Kind, sc.V2 = "interleaved", true
		w, msgs := genV2Sequence(r, 8+r.Intn(20), 0)
		sc.Local, sc.Remote = w.local, w.remote
		for i := range msgs {
			if !rafthttp.VerifIsLinkHeartbeatMessage(&msgs[i]) { // the writer makes its own
				sc.Msgs = append(sc.Msgs, msgs[i])
			}
		}
	}
	// connections
	nSeg := 2 + r.Intn(3)
	if nSeg > len(sc.Msgs) {
		nSeg = len(sc.Msgs)
	}
	left := len(sc.Msgs)
	for s := 0; s < nSeg; s++ {
		n := left
		if s < nSeg-1 {
			n = 1 + r.Intn(left-(nSeg-1-s))
		}
		seg := Segment{N: n, Burst: r.Intn(2) == 0, FailAt: -1}
		if s < nSeg-1 && r.Intn(3) == 0 {
			// somewhere inside (roughly) what this connection will carry
			sz := 0
			for _, m := range sc.Msgs[len(sc.Msgs)-left : len(sc.Msgs)-left+n] {
				sz += m.Size() + 12
			}
			seg.FailAt = r.Intn(sz + 1)
		}
		sc.Segments = append(sc.Segments, seg)
		left -= n
	}
	return sc
}

type connRecord struct {
	conn   *memConn
	handed []int // indices into sc.Msgs
}

type scenarioStats struct {
	reattachPlain, reattachAfterError int
	boundaryContinuing                int // first message on a new connection continues the last one handed to the old one
	handed, decoded, lostAllowed      int
	unreachableReports                int64
	pattern                           string
}

const streamStepTimeout = 30 * time.Second

var errStreamTimeout = errors.New("timeout")

func waitFor(cond func() bool) error {
	deadline := time.Now().Add(streamStepTimeout)
	for i := 0; !cond(); i++ {
		if i < 200 {
			runtime.Gosched()
		} else {
			time.Sleep(50 * time.Microsecond)
		}
		if i%1000 == 999 && time.Now().After(deadline) {
			return errStreamTimeout
		}
	}
	return nil
}

// runStreamScenario drives the real streamWriter through the scenario and
// verifies every connection. A non-nil error means the run could not be
// judged (timeouts): inconclusive, never a violation.
func runStreamScenario(sc *StreamScenario) (*problem, *scenarioStats, error) {
	st := &scenarioStats{pattern: sc.codec() + "/" + sc.Kind + ":"}
	sink := &sinkRaft{}
	sw := rafthttp.VerifStartStreamWriter(sc.Local, sink)
	stopped := false
	stop := func() {
		if !stopped {
			stopped = true
			sw.Stop()
		}
	}
	defer stop()

	var conns []*connRecord
	next := 0
	lastHanded := -1
	for si, seg := range sc.Segments {
		c := newMemConn(seg.FailAt)
		var prev *memConn
		if len(conns) > 0 {
			prev = conns[len(conns)-1].conn
		}
		if !sw.Attach(sc.V2, c, c, c) {
			return nil, st, fmt.Errorf("segment %d: writer refused the connection", si)
		}
		if prev != nil {
			// the writer closes the previous connection while switching over
			select {
			case <-prev.closedc:
			case <-time.After(streamStepTimeout):
				return nil, st, fmt.Errorf("segment %d: previous connection not closed within %v", si, streamStepTimeout)
			}
			if _, failed, _ := prev.snapshot(); failed {
				st.reattachAfterError++
			} else {
				st.reattachPlain++
			}
		}
		if err := waitFor(func() bool { _, ok := sw.Writec(); return ok }); err != nil {
			return nil, st, fmt.Errorf("segment %d: writer not working after attach", si)
		}
		rec := &connRecord{conn: c}
		conns = append(conns, rec)
		flag := "p"
		if seg.Burst {
			flag = "b"
		}
		if si > 0 && next < len(sc.Msgs) && lastHanded >= 0 && sc.V2 && continues(&sc.Msgs[lastHanded], &sc.Msgs[next]) {
			st.boundaryContinuing++
			flag += "c"
		}
		var ch chan<- raftpb.Message
		for k := 0; k < seg.N && next < len(sc.Msgs); k++ {
			var ok bool
			ch, ok = sw.Writec()
			if !ok {
				break // the connection failed: peer.send would use the pipeline from here on
			}
			full := false
			select {
			case ch <- cloneMsg(sc.Msgs[next]):
			default:
				full = true
			}
			if full {
				break
			}
			rec.handed = append(rec.handed, next)
			lastHanded = next
			next++
			if !seg.Burst {
				q := ch
				if err := waitFor(func() bool { _, ok := sw.Writec(); return !ok || len(q) == 0 }); err != nil {
					return nil, st, fmt.Errorf("segment %d: queue not drained within %v", si, streamStepTimeout)
				}
			}
		}
		if ch != nil {
			q := ch
			if err := waitFor(func() bool { _, ok := sw.Writec(); return !ok || len(q) == 0 }); err != nil {
				return nil, st, fmt.Errorf("segment %d: queue not drained within %v", si, streamStepTimeout)
			}
		}
		if seg.FailAt >= 0 {
			flag += "f"
		}
		st.pattern += flag + fmt.Sprint(len(rec.handed)) + ","
		// messages of this segment that were not handed over (connection failed) are skipped: raft moves on
		want := 0
		for _, s := range sc.Segments[:si+1] {
			want += s.N
		}
		if next < want {
			next = want
		}
	}
	stop() // returns after the batch being encoded is finished
	st.unreachableReports = atomic.LoadInt64(&sink.unreachable)

	for ci, rec := range conns {
		wire, failed, afterClose := rec.conn.snapshot()
		st.handed += len(rec.handed)
		if afterClose > 0 {
			return &problem{Sig: "stream-reattach/write-after-close", MsgIdx: ci,
				Summary: fmt.Sprintf("%s: the stream writer wrote %d times to connection #%d after it had closed it", sc.codec(), afterClose, ci)}, st, nil
		}
		rd := bytes.NewReader(wire)
		dec := newDecoder(sc.codec(), rd, sc.Local, sc.Remote)
		i := 0
		for {
			m, err, pan := safeDecode(dec)
			if pan != nil {
				return &problem{Sig: "stream-reattach/decoder-panic", MsgIdx: ci,
					Summary: fmt.Sprintf("%s: a fresh decoder panicked on connection #%d after %d messages: %v", sc.codec(), ci, i, pan)}, st, nil
			}
			if err != nil {
				switch {
				case failed:
					st.lostAllowed += len(rec.handed) - i
				case err == io.EOF && rd.Len() == 0 && i == len(rec.handed):
				case err == io.EOF && rd.Len() == 0:
					return &problem{Sig: "stream-reattach/lost", MsgIdx: rec.handed[i],
						Summary: fmt.Sprintf("%s: connection #%d (no write error) carried %d messages, %d were handed to it while it was working and taken by the writer; first missing: %s",
							sc.codec(), ci, i, len(rec.handed), brief(&sc.Msgs[rec.handed[i]]))}, st, nil
				default:
					which := "after the last message"
					idx := len(sc.Msgs) - 1
					if i < len(rec.handed) {
						idx = rec.handed[i]
						which = "at " + brief(&sc.Msgs[idx])
					}
					first := ""
					if i == 0 && ci > 0 {
						first = " (the first message on a re-attached connection)"
					}
					return &problem{Sig: "stream-reattach/undecodable", MsgIdx: idx,
						Summary: fmt.Sprintf("%s: connection #%d (no write error): a fresh decoder, as streamReader starts one per connection, fails after %d of %d messages%s: %v; %s",
							sc.codec(), ci, i, len(rec.handed), first, err, which)}, st, nil
				}
				break
			}
			if rafthttp.VerifIsLinkHeartbeatMessage(&m) {
				continue
			}
			if i >= len(rec.handed) {
				return &problem{Sig: "stream-reattach/extra-message", MsgIdx: ci,
					Summary: fmt.Sprintf("%s: connection #%d carries a message nobody handed to it: %s", sc.codec(), ci, brief(&m))}, st, nil
			}
			want := &sc.Msgs[rec.handed[i]]
			if f := diffMsg(want, &m); f != "" {
				return &problem{Sig: "stream-reattach/mismatch/" + f, MsgIdx: rec.handed[i],
					Summary: fmt.Sprintf("%s: connection #%d message %d differs in %s: handed over %s, a fresh decoder reads %s", sc.codec(), ci, i, f, brief(want), brief(&m))}, st, nil
			}
			i++
			st.decoded++
		}
	}
	return nil, st, nil
}

// shrinkScenario drops messages (keeping the segment structure consistent)
// while the same signature is reported.
func shrinkScenario(sc *StreamScenario, sig string) *StreamScenario {
	fails := func(t *StreamScenario) bool {
		p, _, err := runStreamScenario(t)
		return err == nil && p != nil && p.Sig == sig
	}
	cur := sc
	for i := len(cur.Msgs) - 1; i >= 0 && len(cur.Msgs) > 1; i-- {
		t := &StreamScenario{Index: cur.Index, Kind: cur.Kind, V2: cur.V2, Local: cur.Local, Remote: cur.Remote}
		t.Msgs = append(append([]raftpb.Message{}, cur.Msgs[:i]...), cur.Msgs[i+1:]...)
		off := 0
		ok := true
		for _, s := range cur.Segments {
			ns := s
			if i >= off && i < off+s.N {
				ns.N--
			}
			off += s.N
			if ns.N < 0 {
				ok = false
			}
			t.Segments = append(t.Segments, ns)
		}
		if ok && fails(t) {
			cur = t
		}
	}
	return cur
}
