//go:build !race

package codeclab

const raceEnabled = false
