package codeclab

import (
	"fmt"
	"runtime"
	"testing"
	"time"
)

func TestPhases(t *testing.T) {
	for _, k := range []struct{ kind string; n int }{{"v2long", 3}, {"edge", 12}, {"msg", 120}, {"v2", 200}} {
		for i := 0; i < k.n; i++ {
			t0 := time.Now()
			s, err := genStream(1, k.kind, i)
			if err != nil { t.Fatal(err) }
			r := streamRand(1, 9, i)
			p, _, done, all := checkStream(s, r, true)
			var ms runtime.MemStats
			runtime.ReadMemStats(&ms)
			if time.Since(t0) > 2*time.Second || ms.Sys>>20 > 1500 || p != nil {
				fmt.Println(k.kind, i, "bytes", len(s.Bytes), "msgs", len(s.Msgs), "trunc", done, all, "took", time.Since(t0), "sysMB", ms.Sys>>20, "heapMB", ms.HeapAlloc>>20, p)
			}
		}
		var ms runtime.MemStats
		runtime.ReadMemStats(&ms)
		fmt.Println("after", k.kind, "sysMB", ms.Sys>>20)
	}
}
