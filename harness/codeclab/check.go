package codeclab

import (
	"bytes"
	"encoding/json"
	"fmt"
	"io"
	"io/ioutil"
	"math/rand"
	"os"
	"runtime/debug"
	"sort"
	"strconv"
	"strings"
	"sync"
	"sync/atomic"
	"time"

	"github.com/youzan/ZanRedisDB/raft"
	"github.com/youzan/ZanRedisDB/raft/raftpb"
	"github.com/youzan/ZanRedisDB/transport/rafthttp"

	"verif/harness/vc"
)

func init() {
	vc.Register("C16", "exploration", runC16)
	vc.RegisterChild("codeclab-corrupt", corruptChild)
}

// Stream is one encoded message sequence.
type Stream struct {
	Codec         string           `json:"codec"` // message | msgappv2
	Local, Remote uint64           `json:"-"`
	Msgs          []raftpb.Message `json:"-"`
	Bytes         []byte           `json:"-"`
	Bounds        []int            `json:"-"` // end offset of every message
	Source        string           `json:"source"`
	Index         int              `json:"index"`
}

func newEncoder(codec string, w io.Writer) *rafthttp.VerifEncoder {
	if codec == "msgappv2" {
		return rafthttp.VerifNewMsgAppV2Encoder(w)
	}
	return rafthttp.VerifNewMessageEncoder(w)
}

func newDecoder(codec string, r io.Reader, local, remote uint64) *rafthttp.VerifDecoder {
	if codec == "msgappv2" {
		return rafthttp.VerifNewMsgAppV2Decoder(r, local, remote)
	}
	return rafthttp.VerifNewMessageDecoder(r)
}

func encodeStream(codec string, local, remote uint64, msgs []raftpb.Message) (*Stream, error) {
	s := &Stream{Codec: codec, Local: local, Remote: remote}
	var buf bytes.Buffer
	enc := newEncoder(codec, &buf)
	for i := range msgs {
		s.Msgs = append(s.Msgs, cloneMsg(msgs[i]))
		m := msgs[i]
		if err := enc.Encode(&m); err != nil {
			return s, fmt.Errorf("message %d: %v", i, err)
		}
		s.Bounds = append(s.Bounds, buf.Len())
	}
	s.Bytes = buf.Bytes()
	return s, nil
}

// chunkReader returns the data in small random chunks, like a network connection.
type chunkReader struct {
	b   []byte
	r   *rand.Rand
	max int
}

func (c *chunkReader) Read(p []byte) (int, error) {
	if len(c.b) == 0 {
		return 0, io.EOF
	}
	n := 1 + c.r.Intn(c.max)
	if n > len(p) {
		n = len(p)
	}
	if n > len(c.b) {
		n = len(c.b)
	}
	copy(p, c.b[:n])
	c.b = c.b[n:]
	return n, nil
}

type problem struct {
	Sig     string
	Summary string
	MsgIdx  int
	Detail  map[string]interface{}
}

func brief(m *raftpb.Message) string {
	s := fmt.Sprintf("{%s from=%d to=%d term=%d logterm=%d index=%d commit=%d entries=%d", m.Type, m.From, m.To, m.Term, m.LogTerm, m.Index, m.Commit, len(m.Entries))
	for i, e := range m.Entries {
		if i >= 3 {
			s += " ..."
			break
		}
		s += fmt.Sprintf(" [t%d i%d %dB id=%d dt=%d ts=%d]", e.Term, e.Index, len(e.Data), e.ID, e.DataType, e.Timestamp)
	}
	s += fmt.Sprintf(" fromgroup=%v togroup=%v", m.FromGroup, m.ToGroup)
	if m.Reject {
		s += fmt.Sprintf(" reject hint=%d", m.RejectHint)
	}
	if len(m.Context) > 0 {
		s += fmt.Sprintf(" ctx=%dB", len(m.Context))
	}
	if m.Snapshot.Metadata.Index != 0 || len(m.Snapshot.Data) > 0 {
		s += fmt.Sprintf(" snap={i%d t%d %dB cs=%v}", m.Snapshot.Metadata.Index, m.Snapshot.Metadata.Term, len(m.Snapshot.Data), m.Snapshot.Metadata.ConfState)
	}
	return s + "}"
}

func safeDecode(d *rafthttp.VerifDecoder) (m raftpb.Message, err error, pan interface{}) {
	defer func() {
		if e := recover(); e != nil {
			pan = e
		}
	}()
	m, err = d.Decode()
	return
}

// roundTrip decodes the whole stream and compares every message immediately
// and again after the whole stream was decoded (decoded messages are kept
// without copying, so a buffer shared between messages shows up then).
func roundTrip(s *Stream, rd io.Reader) *problem {
	dec := newDecoder(s.Codec, rd, s.Local, s.Remote)
	kept := make([]raftpb.Message, 0, len(s.Msgs))
	for i := range s.Msgs {
		m, err, pan := safeDecode(dec)
		if pan != nil {
			return &problem{Sig: "decoder-panic/" + s.Codec, MsgIdx: i, Summary: fmt.Sprintf("%s: decoder panicked on message %d of a well-formed stream: %v", s.Codec, i, pan)}
		}
		if err != nil {
			return &problem{Sig: "roundtrip-error/" + s.Codec, MsgIdx: i, Summary: fmt.Sprintf("%s: decoding message %d of %d of a well-formed stream failed: %v; sent %s", s.Codec, i, len(s.Msgs), err, brief(&s.Msgs[i]))}
		}
		if f := diffMsg(&s.Msgs[i], &m); f != "" {
			return &problem{Sig: "roundtrip-mismatch/" + s.Codec + "/" + f, MsgIdx: i,
				Summary: fmt.Sprintf("%s: message %d differs in %s: sent %s decoded %s", s.Codec, i, f, brief(&s.Msgs[i]), brief(&m))}
		}
		kept = append(kept, m)
	}
	if m, err, _ := safeDecode(dec); err == nil {
		return &problem{Sig: "truncation-yields-message/" + s.Codec, MsgIdx: len(s.Msgs), Summary: fmt.Sprintf("%s: decoder returned a message after the end of the stream: %s", s.Codec, brief(&m))}
	}
	for i := range kept {
		if f := diffMsg(&s.Msgs[i], &kept[i]); f != "" {
			return &problem{Sig: "roundtrip-mismatch/" + s.Codec + "/" + f + "/after-stream", MsgIdx: i,
				Summary: fmt.Sprintf("%s: message %d was equal when decoded but differs in %s after the rest of the stream was decoded (shared buffer): sent %s now %s", s.Codec, i, f, brief(&s.Msgs[i]), brief(&kept[i]))}
		}
	}
	return nil
}

// truncOffsets: every offset for streams <= 64 KiB, else boundaries and their
// neighbourhood, the buffer-limit neighbourhood inside big frames, and a sample.
func truncOffsets(s *Stream, r *rand.Rand) ([]int, bool) {
	n := len(s.Bytes)
	if n <= 64<<10 {
		out := make([]int, n)
		for i := range out {
			out[i] = i
		}
		return out, true
	}
	set := map[int]bool{}
	add := func(o int) {
		if o >= 0 && o < n {
			set[o] = true
		}
	}
	prev := 0
	for _, b := range s.Bounds {
		for _, d := range []int{-9, -8, -7, -1, 0, 1, 7, 8, 9, 16, 17} {
			add(b + d)
			add(prev + d)
		}
		if b-prev > 1<<19 {
			for _, d := range []int{-1, 0, 1, 8, 9, 17, 18} {
				add(prev + bufLimit + d)
				add(b - bufLimit + d)
			}
			add(prev + (b-prev)/2)
		}
		prev = b
	}
	for i := 0; i < 60; i++ {
		add(r.Intn(n))
	}
	var out []int
	for o := range set {
		out = append(out, o)
	}
	sort.Ints(out)
	return out, false
}

// truncation: for a cut at offset t the decoder must return exactly the
// messages that end at or before t, and then an error.
func truncation(s *Stream, offsets []int) (*problem, int) {
	done := 0
	var rd bytes.Reader
	dec := newDecoder(s.Codec, &rd, s.Local, s.Remote)
	for _, t := range offsets {
		k := sort.SearchInts(s.Bounds, t+1) // number of bounds <= t
		rd.Reset(s.Bytes[:t])
		dec.Reset(&rd)
		for i := 0; i < k; i++ {
			m, err, pan := safeDecode(dec)
			if pan != nil || err != nil {
				return &problem{Sig: "truncation-loses-prefix/" + s.Codec, MsgIdx: i, Detail: map[string]interface{}{"offset": t},
					Summary: fmt.Sprintf("%s: stream cut at byte %d (after %d complete messages): message %d was not returned: err=%v panic=%v", s.Codec, t, k, i, err, pan)}, done
			}
			if f := diffMsg(&s.Msgs[i], &m); f != "" {
				return &problem{Sig: "truncation-loses-prefix/" + s.Codec, MsgIdx: i, Detail: map[string]interface{}{"offset": t},
					Summary: fmt.Sprintf("%s: stream cut at byte %d: message %d differs in %s", s.Codec, t, i, f)}, done
			}
		}
		m, err, pan := safeDecode(dec)
		if pan != nil {
			return &problem{Sig: "truncation-panic/" + s.Codec, MsgIdx: k, Detail: map[string]interface{}{"offset": t},
				Summary: fmt.Sprintf("%s: stream cut at byte %d (%d bytes into message %d): decoder panicked: %v", s.Codec, t, t-boundBefore(s, k), k, pan)}, done
		}
		if err == nil {
			return &problem{Sig: "truncation-yields-message/" + s.Codec, MsgIdx: k, Detail: map[string]interface{}{"offset": t},
				Summary: fmt.Sprintf("%s: stream cut at byte %d (%d bytes into message %d of %d bytes): decoder returned %s instead of an error; sent was %s", s.Codec, t, t-boundBefore(s, k), k, s.Bounds[k]-boundBefore(s, k), brief(&m), brief(&s.Msgs[k]))}, done
		}
		done++
	}
	return nil, done
}

func boundBefore(s *Stream, k int) int {
	if k == 0 {
		return 0
	}
	return s.Bounds[k-1]
}

// ---- stream catalogue (function of seed, tier) -----------------------------

type plan struct {
	nMsgStreams  int // message codec, generated
	nV2Streams   int // msgappv2, generated, small
	nV2Long      int // msgappv2, 20..60 KiB, all truncation offsets
	nEdge        int // streams with frames at the 1 MiB limits
	capSteps     int
	capRuns      int
	corruptShard int
}

func mkPlan(c *vc.Ctx) plan {
	return plan{
		nMsgStreams: c.Pick(400, 8000), nV2Streams: c.Pick(800, 16000), nV2Long: c.Pick(8, 200), nEdge: c.Pick(16, 200),
		capSteps: c.Pick(800, 4000), capRuns: c.Pick(8, 32), corruptShard: 8,
	}
}

func streamRand(seed int64, kind, idx int) *rand.Rand {
	return rand.New(rand.NewSource(seed*1_000_003 + int64(kind)*7_919_017 + int64(idx)*104_729 + 5))
}

// genStream builds generated stream #idx of the given kind.
func genStream(seed int64, kind string, idx int) (*Stream, error) {
	var s *Stream
	var err error
	switch kind {
	case "msg":
		r := streamRand(seed, 1, idx)
		n := 1 + r.Intn(7)
		var msgs []raftpb.Message
		ntypes := len(raftpb.MessageType_name)
		for i := 0; i < n; i++ {
			// every stream index cycles through all message types
			msgs = append(msgs, genAnyMessage(r, (idx*5+i)%ntypes))
		}
		if r.Intn(5) == 0 {
			msgs = append(msgs, rafthttp.VerifLinkHeartbeatMessage())
		}
		s, err = encodeStream("message", 0, 0, msgs)
	case "v2":
		r := streamRand(seed, 2, idx)
		w, msgs := genV2Sequence(r, 4+r.Intn(24), 0)
		s, err = encodeStream("msgappv2", w.local, w.remote, msgs)
	case "v2long":
		r := streamRand(seed, 3, idx)
		w, msgs := genV2Sequence(r, 90+r.Intn(120), 0)
		s, err = encodeStream("msgappv2", w.local, w.remote, msgs)
	case "edge":
		r := streamRand(seed, 4, idx)
		switch idx % 4 {
		case 0, 1: // msgappv2 with entries at 1 MiB-1, 1 MiB, 1 MiB+1 (fast path and full path)
			w, msgs := genV2Sequence(r, 10+r.Intn(8), 3+r.Intn(3))
			s, err = encodeStream("msgappv2", w.local, w.remote, msgs)
		case 2: // msgappv2 full-path messages whose total size is at the limit
			w, msgs := genV2Sequence(r, 8, 0)
			for i := range msgs {
				if msgs[i].Type == raftpb.MsgApp && i%3 == 1 && len(msgs[i].Entries) > 0 {
					// grow one entry until the whole message has the target size
					tgt := bufLimit - 1 + (i/3)%3
					growMessageByEntry(&msgs[i], tgt)
				}
			}
			s, err = encodeStream("msgappv2", w.local, w.remote, msgs)
		default: // message codec at its buffer limit
			var msgs []raftpb.Message
			for i := 0; i < 7; i++ {
				m := genAnyMessage(r, r.Intn(len(raftpb.MessageType_name)))
				if i%2 == 1 {
					padMessageTo(&m, bufLimit-1+(i/2)%3)
				}
				msgs = append(msgs, m)
			}
			s, err = encodeStream("message", 0, 0, msgs)
		}
	default:
		return nil, fmt.Errorf("unknown stream kind %q", kind)
	}
	if s != nil {
		s.Source = kind
		s.Index = idx
	}
	return s, err
}

func growMessageByEntry(m *raftpb.Message, target int) {
	e := &m.Entries[len(m.Entries)-1]
	e.Data = nil
	base := m.Size()
	n := target - base - 8
	for tries := 0; tries < 10 && n > 0; tries++ {
		e.Data = make([]byte, n)
		for i := range e.Data {
			e.Data[i] = byte(i * 3)
		}
		d := target - m.Size()
		if d == 0 {
			return
		}
		n += d
	}
}

// Witness of a C16 violation.
type Witness struct {
	Seed     int64                  `json:"seed"`
	Tier     string                 `json:"tier"`
	Clause   string                 `json:"clause"` // roundtrip | truncation | corruption | captured
	Stream   *Stream                `json:"stream"`
	MsgIdx   int                    `json:"message_index"`
	Local    uint64                 `json:"local_node"`
	Remote   uint64                 `json:"remote_node"`
	Msgs     []raftpb.Message       `json:"messages,omitempty"` // explicit (shrunk) sequence when small
	Scenario *StreamScenario        `json:"scenario,omitempty"` // clause stream-reattach: the whole run
	Shrunk   bool                   `json:"shrunk"`
	Detail   map[string]interface{} `json:"detail,omitempty"`
	Summary  string                 `json:"summary"`
}

func totalSize(msgs []raftpb.Message) int {
	n := 0
	for i := range msgs {
		n += msgs[i].Size()
	}
	return n
}

// checkStream runs round-trip and truncation on one stream.
func checkStream(s *Stream, r *rand.Rand, doTrunc bool) (p *problem, clause string, truncDone int, allOffsets bool) {
	if p := roundTrip(s, bytes.NewReader(s.Bytes)); p != nil {
		return p, "roundtrip", 0, false
	}
	if p := roundTrip(s, &chunkReader{b: s.Bytes, r: r, max: 1 + r.Intn(700)}); p != nil {
		p.Summary += " (stream delivered in small chunks)"
		return p, "roundtrip", 0, false
	}
	if !doTrunc {
		return nil, "", 0, false
	}
	offs, all := truncOffsets(s, r)
	p, done := truncation(s, offs)
	return p, "truncation", done, all
}

// shrinkMsgs removes messages while the same signature is still reported.
func shrinkMsgs(s *Stream, sig string) ([]raftpb.Message, bool) {
	if totalSize(s.Msgs) > 256<<10 || len(s.Msgs) > 400 {
		return nil, false
	}
	cur := append([]raftpb.Message{}, s.Msgs...)
	fails := func(msgs []raftpb.Message) bool {
		t, err := encodeStream(s.Codec, s.Local, s.Remote, msgs)
		if err != nil {
			return false
		}
		p, _, _, _ := checkStream(t, rand.New(rand.NewSource(1)), len(t.Bytes) <= 16<<10)
		return p != nil && p.Sig == sig
	}
	if !fails(cur) {
		return nil, false
	}
	for i := len(cur) - 1; i >= 0; i-- {
		c := append(append([]raftpb.Message{}, cur[:i]...), cur[i+1:]...)
		if fails(c) {
			cur = c
		}
	}
	return cur, true
}

func runC16(c *vc.Ctx) error {
	if c.Replay != "" {
		return replayC16(c)
	}
	pl := mkPlan(c)
	// The real decoder constructors allocate a 1 MiB buffer each. Truncation and
	// corruption trials therefore reuse one decoder per stream through
	// VerifDecoder.Reset (same initial state as a constructor call, buffers
	// kept); round trips use fresh decoders. The memory limit and the resident
	// set guard are safety nets: this check must never endanger the machine.
	defer debug.SetMemoryLimit(debug.SetMemoryLimit(3 << 30))
	stopGuard := startRSSGuard(c, 4<<30)
	defer stopGuard()
	c.Ev.Rule = "message sequences (function of seed and stream index) are written by the real stream encoders and read back by the real decoders: (a) 'message' codec: every message type with arbitrary field values; (b) 'msgappv2' codec: MsgApp + link heartbeats of 1-4 interleaved raft groups between one node pair, as raft.send/peer.pick produce them, with runs of continuing appends, term changes, index gaps, empty appends, entries of 0/1 bytes and frames at 1 MiB-1/1 MiB/1 MiB+1; (c) sequences captured from a real 3-node, multi-group raft run. Oracle: field-wise equality immediately and again after the whole stream; every truncation offset (streams <= 64 KiB, sampled above) yields the sent prefix then an error; single-byte corruption yields an error or identical messages. (d) stream level (signatures stream-reattach/*): the real streamWriter goroutine is driven through in-memory connections with the same kinds of sequences, the connection is replaced at seed-chosen points with and without a preceding write error, and every connection's bytes are read by a fresh real decoder as streamReader does per connection: a connection without write error yields exactly the messages handed to it while it was working (the driver re-attaches only after the writer has taken them), one with a write error yields a prefix of them, and nothing is written to a closed connection. " +
		"A stream is non-trivial when it holds >= 2 messages; distinct per (codec, frame-type sequence, group interleaving pattern)."
	c.Ev.Assume("msgappv2 is checked only inside the domain the transport gives it (MsgApp and link heartbeats, From/To equal to the replica ids of FromGroup/ToGroup, FromGroup.NodeId = sending node, ToGroup.NodeId = receiving node, group name a function of the group identity, Term >= 1, LogTerm <= Term, entries consecutive from Index+1)")
	c.Ev.Assume("byte fields are compared as byte strings: nil and empty are the same value")
	c.Ev.Assume("MsgSnap normally travels through the pipeline (plain protobuf in an HTTP body), not through a stream codec; it is still pushed through the 'message' codec here")

	var mu sync.Mutex
	frames := map[string]int64{}
	var truncPoints, truncStreamsAll, truncStreamsSampled, msgsTotal, bytesTotal int64
	reported := map[string]int{}
	typesSeen := map[string]int64{}

	report := func(s *Stream, p *problem, clause string) {
		mu.Lock()
		reported[p.Sig]++
		first := reported[p.Sig] == 1
		mu.Unlock()
		w := Witness{Seed: c.Seed, Tier: c.Tier, Clause: clause, Stream: s, MsgIdx: p.MsgIdx, Local: s.Local, Remote: s.Remote, Detail: p.Detail, Summary: p.Summary}
		if first {
			if msgs, ok := shrinkMsgs(s, p.Sig); ok {
				w.Msgs, w.Shrunk = msgs, true
			}
		}
		if w.Msgs == nil && totalSize(s.Msgs) < 64<<10 {
			w.Msgs = s.Msgs
		}
		c.Violation(p.Sig, p.Summary, w)
	}

	account := func(s *Stream) {
		fp := s.Codec + ":"
		groups := map[uint64]int{}
		prev := 0
		mu.Lock()
		defer mu.Unlock()
		for i, b := range s.Bounds {
			t := "msg"
			if s.Codec == "msgappv2" {
				switch s.Bytes[prev] {
				case 0:
					t = "hb"
				case 1:
					t = "appentries"
				case 2:
					t = "app"
				}
			}
			frames[s.Codec+"/"+t]++
			if b-prev > bufLimit {
				frames[s.Codec+"/frame>1MiB"]++
			}
			typesSeen[s.Msgs[i].Type.String()]++
			gi, ok := groups[s.Msgs[i].FromGroup.GroupId]
			if !ok {
				gi = len(groups)
				groups[s.Msgs[i].FromGroup.GroupId] = gi
			}
			if i < 40 {
				fp += fmt.Sprintf("%c%d", t[0], gi)
				if s.Codec == "message" {
					fp += fmt.Sprintf("t%d", s.Msgs[i].Type)
				}
			}
			prev = b
		}
		msgsTotal += int64(len(s.Msgs))
		bytesTotal += int64(len(s.Bytes))
		if len(s.Msgs) >= 2 {
			c.Ev.Nontrivial(fp)
		}
	}

	type job struct {
		kind string
		idx  int
	}
	var jobs []job
	for i := 0; i < pl.nV2Long; i++ {
		jobs = append(jobs, job{"v2long", i})
	}
	for i := 0; i < pl.nEdge; i++ {
		jobs = append(jobs, job{"edge", i})
	}
	for i := 0; i < pl.nMsgStreams; i++ {
		jobs = append(jobs, job{"msg", i})
	}
	for i := 0; i < pl.nV2Streams; i++ {
		jobs = append(jobs, job{"v2", i})
	}
	phase.Store("generated streams: round trip and truncation")
	c.ParallelFor(len(jobs), func(j int) {
		jb := jobs[j]
		s, err := genStream(c.Seed, jb.kind, jb.idx)
		if err != nil {
			c.Violation("encode-error/"+s.Codec, fmt.Sprintf("%s: encoder failed on %s stream %d: %v", s.Codec, jb.kind, jb.idx, err), Witness{Seed: c.Seed, Tier: c.Tier, Clause: "roundtrip", Stream: s})
			return
		}
		account(s)
		r := streamRand(c.Seed, 9, j)
		p, clause, done, all := checkStream(s, r, true)
		c.Ev.Eval()
		mu.Lock()
		truncPoints += int64(done)
		if all {
			truncStreamsAll++
		} else {
			truncStreamsSampled++
		}
		mu.Unlock()
		if p != nil {
			report(s, p, clause)
		}
		if j < 3 {
			var heads []string
			for i := range s.Msgs {
				if i >= 4 {
					break
				}
				heads = append(heads, brief(&s.Msgs[i]))
			}
			c.Ev.Sample(4, map[string]interface{}{"kind": jb.kind, "index": jb.idx, "codec": s.Codec, "bytes": len(s.Bytes), "messages": len(s.Msgs), "first_messages": heads})
		}
	})

	// captured real traffic
	capStats := map[string]int{}
	phase.Store("captured raft traffic")
	// The raft package draws election timeouts from a package-global PRNG:
	// re-seed it per run and run the captures one after the other, so that the
	// captured sequences are a function of the seed.
	type capStream struct {
		s   *Stream
		run int
	}
	var capStreams []capStream
	for run := 0; run < pl.capRuns; run++ {
		raft.VerifSeedRand(c.Seed*131 + int64(run))
		streams, st, probs := captureRun(c.Seed, run, pl.capSteps)
		for k, v := range st {
			capStats[k] += v
		}
		for _, pr := range probs {
			report(pr.s, pr.p, "captured")
		}
		for _, s := range streams {
			if len(s.Msgs) > 0 {
				capStreams = append(capStreams, capStream{s, run})
			}
		}
	}
	c.ParallelFor(len(capStreams), func(i int) {
		s, run := capStreams[i].s, capStreams[i].run
		account(s)
		r := streamRand(c.Seed, 10, run*1000+i)
		// the live comparison was done while the cluster ran; here: re-decode and all truncation points of a prefix
		t := prefixStream(s, c.Pick(12, 60)<<10)
		p, clause, done, all := checkStream(t, r, true)
		c.Ev.Eval()
		mu.Lock()
		truncPoints += int64(done)
		if all {
			truncStreamsAll++
		} else {
			truncStreamsSampled++
		}
		mu.Unlock()
		if p != nil {
			report(t, p, "captured-"+clause)
		}
	})

	// stream level: the real streamWriter with re-attached connections
	phase.Store("stream writer re-attach")
	rafthttp.SetLogLevel(-1)
	nScen := c.Pick(600, 12000)
	var scStats scenarioStats
	scKinds := map[string]int64{}
	c.ParallelFor(nScen, func(i int) {
		sc := genStreamScenario(c.Seed, i)
		p, st, err := runStreamScenario(sc)
		c.Ev.Eval()
		if err != nil {
			c.Inconclusive(fmt.Sprintf("stream-reattach scenario %d: %v", i, err))
			return
		}
		mu.Lock()
		scKinds[sc.codec()+"/"+sc.Kind]++
		scStats.reattachPlain += st.reattachPlain
		scStats.reattachAfterError += st.reattachAfterError
		scStats.boundaryContinuing += st.boundaryContinuing
		scStats.handed += st.handed
		scStats.decoded += st.decoded
		scStats.lostAllowed += st.lostAllowed
		scStats.unreachableReports += st.unreachableReports
		if p != nil {
			reported[p.Sig]++
		}
		first := p != nil // scenarios are small and a run takes about a millisecond: every witness is shrunk
		mu.Unlock()
		if st.reattachPlain+st.reattachAfterError > 0 {
			c.Ev.Nontrivial("stream:" + st.pattern)
		}
		if p != nil {
			w := Witness{Seed: c.Seed, Tier: c.Tier, Clause: "stream-reattach", Scenario: sc, MsgIdx: p.MsgIdx, Local: sc.Local, Remote: sc.Remote, Summary: p.Summary}
			if first {
				w.Scenario, w.Shrunk = shrinkScenario(sc, p.Sig), true
			}
			c.Violation(p.Sig, p.Summary, w)
		}
	})
	c.Ev.Set("stream_reattach", map[string]interface{}{
		"scenarios_by_kind":            scKinds,
		"reattach_without_write_error": scStats.reattachPlain,
		"reattach_after_write_error":   scStats.reattachAfterError,
		"first_message_after_reattach_continues_the_last_one_of_the_old_connection": scStats.boundaryContinuing,
		"messages_handed_to_a_working_connection":                                   scStats.handed,
		"messages_read_back_by_fresh_decoders":                                      scStats.decoded,
		"messages_lost_on_connections_with_a_write_error_allowed":                   scStats.lostAllowed,
		"report_unreachable_calls":                                                  scStats.unreachableReports,
	})
	fmt.Printf("C16 stream-reattach: %d scenarios %v: %d re-attaches without and %d after a write error, %d boundaries where the next append continues the old connection, %d handed, %d read back, %d lost on failed connections (allowed)\n",
		nScen, scKinds, scStats.reattachPlain, scStats.reattachAfterError, scStats.boundaryContinuing, scStats.handed, scStats.decoded, scStats.lostAllowed)

	// single-byte corruption (child processes: a corrupted length may kill the process)
	phase.Store("corruption children")
	if err := runCorruption(c, pl); err != nil {
		return err
	}

	c.Ev.Set("frames_by_type", frames)
	c.Ev.Set("message_types_sent", typesSeen)
	c.Ev.Count("messages_round_tripped", msgsTotal)
	c.Ev.Count("stream_bytes", bytesTotal)
	c.Ev.Count("truncation_points_checked", truncPoints)
	c.Ev.Count("streams_with_every_truncation_offset", truncStreamsAll)
	c.Ev.Count("streams_with_sampled_truncation_offsets", truncStreamsSampled)
	c.Ev.Set("captured_raft_traffic", capStats)
	c.Ev.Set("all_message_types_sent", len(typesSeen) == len(raftpb.MessageType_name))
	fmt.Printf("C16: %d generated streams + %d capture runs: %d messages, %d bytes, frames %v, %d truncation points, reported %v\n",
		len(jobs), pl.capRuns, msgsTotal, bytesTotal, frames, truncPoints, reported)
	return nil
}

// prefixStream returns the stream of the first messages that fit into max bytes.
func prefixStream(s *Stream, max int) *Stream {
	k := sort.SearchInts(s.Bounds, max+1)
	if k == len(s.Bounds) {
		return s
	}
	if k == 0 {
		k = 1
	}
	return &Stream{Codec: s.Codec, Local: s.Local, Remote: s.Remote, Msgs: s.Msgs[:k], Bytes: s.Bytes[:s.Bounds[k-1]], Bounds: s.Bounds[:k], Source: s.Source, Index: s.Index}
}

func replayC16(c *vc.Ctx) error {
	b, err := ioutil.ReadFile(c.Replay)
	if err != nil {
		return err
	}
	var doc struct {
		Signature string  `json:"signature"`
		Witness   Witness `json:"witness"`
	}
	if err := json.Unmarshal(b, &doc); err != nil {
		return err
	}
	w := doc.Witness
	if w.Clause == "stream-reattach" {
		if w.Scenario == nil {
			return fmt.Errorf("replay file carries no scenario")
		}
		rafthttp.SetLogLevel(-1)
		c.Ev.Eval()
		p, st, err := runStreamScenario(w.Scenario)
		fmt.Printf("C16 replay: stream-reattach scenario, %d messages, %d connections (%s)\n", len(w.Scenario.Msgs), len(w.Scenario.Segments), st.pattern)
		if err != nil {
			c.Inconclusive(err.Error())
			return nil
		}
		if p == nil {
			fmt.Printf("C16 replay: recorded signature %s did NOT reproduce\n", doc.Signature)
			return nil
		}
		c.Violation(p.Sig, p.Summary, Witness{Seed: w.Seed, Tier: w.Tier, Clause: w.Clause, Scenario: w.Scenario, MsgIdx: p.MsgIdx, Local: w.Local, Remote: w.Remote, Summary: p.Summary})
		return nil
	}
	var s *Stream
	switch {
	case len(w.Msgs) > 0 && w.Stream != nil:
		s, err = encodeStream(w.Stream.Codec, w.Local, w.Remote, w.Msgs)
	case w.Stream != nil && (w.Stream.Source == "msg" || w.Stream.Source == "v2" || w.Stream.Source == "v2long" || w.Stream.Source == "edge"):
		s, err = genStream(w.Seed, w.Stream.Source, w.Stream.Index)
	default:
		return fmt.Errorf("replay file carries neither messages nor a regenerable stream")
	}
	if err != nil {
		return err
	}
	c.Ev.Eval()
	fmt.Printf("C16 replay: %s stream, %d messages, %d bytes, clause %s\n", s.Codec, len(s.Msgs), len(s.Bytes), w.Clause)
	if w.Clause == "corruption" {
		hugeBudget = [2]int{0, 0} // never risk the replaying process
		res := corruptStream(s, 0, 1<<30, nil)
		for sig, ex := range res.examples {
			c.Violation(sig, ex.Summary, Witness{Seed: w.Seed, Tier: w.Tier, Clause: "corruption", Stream: s, Msgs: w.Msgs, Local: s.Local, Remote: s.Remote, Detail: ex.Detail, Summary: ex.Summary})
		}
		return nil
	}
	p, clause, _, _ := checkStream(s, rand.New(rand.NewSource(1)), true)
	if p == nil {
		fmt.Printf("C16 replay: recorded signature %s did NOT reproduce\n", doc.Signature)
		return nil
	}
	c.Violation(p.Sig, p.Summary, Witness{Seed: w.Seed, Tier: w.Tier, Clause: clause, Stream: s, Msgs: w.Msgs, MsgIdx: p.MsgIdx, Local: s.Local, Remote: s.Remote, Detail: p.Detail, Summary: p.Summary})
	return nil
}

var phase atomic.Value // string: what the check is doing, for the memory guard's message

func rssBytes() int64 {
	b, err := ioutil.ReadFile("/proc/self/statm")
	if err != nil {
		return 0
	}
	f := strings.Fields(string(b))
	if len(f) < 2 {
		return 0
	}
	pages, _ := strconv.ParseInt(f[1], 10, 64)
	return pages * int64(os.Getpagesize())
}

// startRSSGuard aborts the whole check (exit 2, inconclusive) when the
// resident set exceeds limit.
func startRSSGuard(c *vc.Ctx, limit int64) func() {
	stop := make(chan struct{})
	var peak int64
	go func() {
		t := time.NewTicker(100 * time.Millisecond)
		defer t.Stop()
		for {
			select {
			case <-stop:
				return
			case <-t.C:
				r := rssBytes()
				if r > atomic.LoadInt64(&peak) {
					atomic.StoreInt64(&peak, r)
				}
				if r > limit {
					ph, _ := phase.Load().(string)
					fmt.Printf("INCONCLUSIVE property=%s resident set %d MiB exceeds the %d MiB guard during %q; aborting without verdict\n", c.ID, r>>20, limit>>20, ph)
					os.RemoveAll(c.Scratch)
					os.Exit(2)
				}
			}
		}
	}()
	return func() {
		close(stop)
		c.Ev.Set("peak_resident_set_mib", atomic.LoadInt64(&peak)>>20)
	}
}
