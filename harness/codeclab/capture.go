package codeclab

import (
	"bytes"
	"fmt"
	"io"
	"math/rand"

	"github.com/youzan/ZanRedisDB/raft/raftpb"
	"github.com/youzan/ZanRedisDB/transport/rafthttp"
)

type liveStream struct {
	s    *Stream
	buf  bytes.Buffer
	all  bytes.Buffer
	enc  *rafthttp.VerifEncoder
	dec  *rafthttp.VerifDecoder
	kept []raftpb.Message
	bad  bool
}

type capProb struct {
	s *Stream
	p *problem
}

// captureRun runs the small raft cluster and pushes every produced message
// through the codec peer.pick would choose (MsgApp -> msgappv2, everything
// else -> message), one long-lived encoder/decoder pair per directed node pair
// and codec, exactly one stream each, as in the transport.
func captureRun(seed int64, run, steps int) ([]*Stream, map[string]int, []capProb) {
	r := streamRand(seed, 20, run)
	live := map[string]*liveStream{}
	var order []string
	var probs []capProb
	route := func(fromNode, toNode uint64, m raftpb.Message) (raftpb.Message, bool) {
		codec := "message"
		if rafthttp.VerifPickIsMsgAppV2(m) {
			codec = "msgappv2"
		}
		key := fmt.Sprintf("%d>%d/%s", fromNode, toNode, codec)
		ls := live[key]
		if ls == nil {
			ls = &liveStream{s: &Stream{Codec: codec, Local: toNode, Remote: fromNode, Source: "captured:" + key, Index: run}}
			ls.enc = newEncoder(codec, io.MultiWriter(&ls.buf, &ls.all))
			ls.dec = newDecoder(codec, &ls.buf, toNode, fromNode)
			live[key] = ls
			order = append(order, key)
		}
		if ls.bad {
			return m, true // stream already reported; keep the cluster going on the original
		}
		// occasionally a link heartbeat goes first, as the stream writer's ticker does
		if r.Intn(12) == 0 {
			hb := rafthttp.VerifLinkHeartbeatMessage()
			ls.s.Msgs = append(ls.s.Msgs, cloneMsg(hb))
			if err := ls.enc.Encode(&hb); err == nil {
				ls.s.Bounds = append(ls.s.Bounds, ls.all.Len())
				if dm, err, pan := safeDecode(ls.dec); err != nil || pan != nil || !rafthttp.VerifIsLinkHeartbeatMessage(&dm) {
					ls.bad = true
					probs = append(probs, capProb{ls.s, &problem{Sig: "roundtrip-mismatch/" + codec + "/type", MsgIdx: len(ls.s.Msgs) - 1,
						Summary: fmt.Sprintf("%s (captured traffic %s): link heartbeat came back as %s err=%v panic=%v", codec, key, brief(&dm), err, pan)}})
					return m, true
				}
				ls.kept = append(ls.kept, hb)
			}
		}
		ls.s.Msgs = append(ls.s.Msgs, cloneMsg(m))
		i := len(ls.s.Msgs) - 1
		mm := m
		if err := ls.enc.Encode(&mm); err != nil {
			ls.bad = true
			probs = append(probs, capProb{ls.s, &problem{Sig: "encode-error/" + codec, MsgIdx: i, Summary: fmt.Sprintf("%s (captured traffic %s): encode failed: %v", codec, key, err)}})
			return m, true
		}
		ls.s.Bounds = append(ls.s.Bounds, ls.all.Len())
		dm, err, pan := safeDecode(ls.dec)
		switch {
		case pan != nil:
			ls.bad = true
			probs = append(probs, capProb{ls.s, &problem{Sig: "decoder-panic/" + codec, MsgIdx: i, Summary: fmt.Sprintf("%s (captured traffic %s): decoder panicked on message %d: %v", codec, key, i, pan)}})
			return m, true
		case err != nil:
			ls.bad = true
			probs = append(probs, capProb{ls.s, &problem{Sig: "roundtrip-error/" + codec, MsgIdx: i, Summary: fmt.Sprintf("%s (captured traffic %s): decoding message %d failed: %v; sent %s", codec, key, i, err, brief(&m))}})
			return m, true
		}
		if f := diffMsg(&ls.s.Msgs[i], &dm); f != "" {
			ls.bad = true
			probs = append(probs, capProb{ls.s, &problem{Sig: "roundtrip-mismatch/" + codec + "/" + f, MsgIdx: i,
				Summary: fmt.Sprintf("%s (captured traffic %s): message %d differs in %s: sent %s decoded %s", codec, key, i, f, brief(&ls.s.Msgs[i]), brief(&dm))}})
			return m, true
		}
		ls.kept = append(ls.kept, dm)
		// raft mutates stepped messages in place (appendEntry assigns Term/Index of
		// forwarded proposals), so the receiver gets its own copy and the decoder's
		// output stays untouched for the comparison at the end of the stream
		return cloneMsg(dm), true
	}
	cl := newCapCluster(rand.New(rand.NewSource(r.Int63())), 2+run%2, route)
	cl.run(steps)
	var out []*Stream
	for _, key := range order {
		ls := live[key]
		ls.s.Bytes = ls.all.Bytes()
		if !ls.bad {
			for i := range ls.kept {
				if f := diffMsg(&ls.s.Msgs[i], &ls.kept[i]); f != "" {
					probs = append(probs, capProb{ls.s, &problem{Sig: "roundtrip-mismatch/" + ls.s.Codec + "/" + f + "/after-stream", MsgIdx: i,
						Summary: fmt.Sprintf("%s (captured traffic %s): message %d was equal when decoded but differs in %s after later messages were decoded", ls.s.Codec, key, i, f)}})
					break
				}
			}
		}
		if len(ls.s.Bounds) == len(ls.s.Msgs) {
			out = append(out, ls.s)
		}
		cl.Stats["captured_streams"]++
		cl.Stats["captured_messages/"+ls.s.Codec] += len(ls.s.Msgs)
	}
	return out, cl.Stats, probs
}
