// Package codeclab is engine E6: it checks property C16 (raft messages arrive
// as sent through the stream codecs) by driving the real rafthttp encoders and
// decoders (through the verif-tagged constructors in
// transport/rafthttp/verif_export.go) over generated and captured message
// sequences, every truncation point of the byte stream, and single-byte
// corruptions.
package codeclab

import (
	"bytes"
	"fmt"
	"math/rand"

	"github.com/youzan/ZanRedisDB/raft/raftpb"
	"github.com/youzan/ZanRedisDB/transport/rafthttp"
)

const bufLimit = rafthttp.VerifMsgAppV2BufSize // 1 MiB: internal buffer of both decoders and of the v2 encoder

var edgeU64 = []uint64{0, 1, 2, 127, 128, 255, 256, 16383, 16384, 1<<32 - 1, 1 << 32, 1<<63 - 1, 1 << 63, ^uint64(0)}

func u64(r *rand.Rand) uint64 {
	switch r.Intn(4) {
	case 0:
		return edgeU64[r.Intn(len(edgeU64))]
	case 1:
		return uint64(r.Intn(1000))
	}
	return r.Uint64() >> uint(r.Intn(64))
}

func rbytes(r *rand.Rand, n int) []byte {
	b := make([]byte, n)
	r.Read(b)
	return b
}

func optBytes(r *rand.Rand, max int) []byte {
	switch r.Intn(6) {
	case 0:
		return nil
	case 1:
		return []byte{}
	}
	return rbytes(r, 1+r.Intn(max))
}

var names = []string{"", "ns-0", "default-12", "名前空間-3", "a", "namespace_with_a_rather_long_name-1023"}

func genGroup(r *rand.Rand) raftpb.Group {
	return raftpb.Group{NodeId: u64(r), Name: names[r.Intn(len(names))], GroupId: u64(r), RaftReplicaId: u64(r)}
}

func genEntry(r *rand.Rand, maxData int) raftpb.Entry {
	e := raftpb.Entry{
		Type:  raftpb.EntryType(r.Intn(len(raftpb.EntryType_name))),
		Term:  u64(r),
		Index: u64(r),
		Data:  optBytes(r, maxData),
		ID:    u64(r),
	}
	switch r.Intn(4) {
	case 0:
		e.DataType = int32(r.Uint32())
		e.Timestamp = int64(r.Uint64())
	case 1:
		e.DataType = int32(r.Intn(4))
		e.Timestamp = 1600000000000000000 + int64(r.Intn(1<<30))
	case 2:
		e.DataType = -1
		e.Timestamp = -1
	}
	return e
}

func genConfState(r *rand.Rand) raftpb.ConfState {
	var cs raftpb.ConfState
	for n := r.Intn(4); n > 0; n-- {
		cs.Nodes = append(cs.Nodes, u64(r))
	}
	for n := r.Intn(4); n > 0; n-- {
		g := genGroup(r)
		cs.Groups = append(cs.Groups, &g)
	}
	for n := r.Intn(3); n > 0; n-- {
		cs.Learners = append(cs.Learners, u64(r))
	}
	for n := r.Intn(3); n > 0; n-- {
		g := genGroup(r)
		cs.LearnerGroups = append(cs.LearnerGroups, &g)
	}
	return cs
}

// genAnyMessage: the "message" stream codec must carry any message: all
// message types, arbitrary field values.
func genAnyMessage(r *rand.Rand, typ int) raftpb.Message {
	m := raftpb.Message{
		Type:    raftpb.MessageType(typ),
		To:      u64(r),
		From:    u64(r),
		Term:    u64(r),
		LogTerm: u64(r),
		Index:   u64(r),
		Commit:  u64(r),
	}
	if r.Intn(3) > 0 {
		m.FromGroup = genGroup(r)
		m.ToGroup = genGroup(r)
	}
	if r.Intn(2) == 0 {
		for n := r.Intn(5); n > 0; n-- {
			m.Entries = append(m.Entries, genEntry(r, 160))
		}
	}
	if r.Intn(3) == 0 || m.Type == raftpb.MsgSnap {
		m.Snapshot = raftpb.Snapshot{Data: optBytes(r, 120)}
		m.Snapshot.Metadata = raftpb.SnapshotMetadata{Index: u64(r), Term: u64(r), ConfState: genConfState(r)}
	}
	if r.Intn(3) == 0 {
		m.Reject = true
		m.RejectHint = u64(r)
	}
	if r.Intn(3) == 0 {
		m.Context = optBytes(r, 60)
	}
	return m
}

// padMessageTo grows m.Context until m.Size() == target (message-level size
// limits of both codecs are tests on the marshalled size).
func padMessageTo(m *raftpb.Message, target int) bool {
	m.Context = nil
	base := m.Size()
	if base+2 > target {
		return false
	}
	n := target - base - 2
	for tries := 0; tries < 8 && n >= 0; tries++ {
		m.Context = make([]byte, n)
		for i := range m.Context {
			m.Context[i] = byte(i * 7)
		}
		d := target - m.Size()
		if d == 0 {
			return true
		}
		n += d
	}
	return false
}

// padEntryTo sets e.Data so that e.Size() == target.
func padEntryTo(e *raftpb.Entry, target int) bool {
	e.Data = nil
	base := e.Size()
	if base+2 > target {
		return false
	}
	n := target - base - 2
	for tries := 0; tries < 8 && n >= 0; tries++ {
		e.Data = make([]byte, n)
		for i := range e.Data {
			e.Data[i] = byte(i*13 + 1)
		}
		d := target - e.Size()
		if d == 0 {
			return true
		}
		n += d
	}
	return false
}

// ---- msgappv2 domain -------------------------------------------------------
//
// What the transport gives the msgappv2 codec (peer.pick, streamWriter.run,
// raft.send, raft.sendAppend): MsgApp messages and link heartbeats on the one
// stream from a remote node R to the local node L, for any number of raft
// groups the two nodes share. For a MsgApp of group g sent by R's replica:
//   From = FromGroup.RaftReplicaId, FromGroup = the sender's own group record {NodeId: R, Name, GroupId, RaftReplicaId}
//   To   = ToGroup.RaftReplicaId,   ToGroup = the progress' group record {NodeId: L, GroupId, RaftReplicaId} (Name as stored in the membership)
//   Term = the leader's term (>= 1), LogTerm = term of the entry at Index, LogTerm <= Term
//   Entries consecutive from Index+1, entry terms in [LogTerm, Term], non-decreasing
//   no Snapshot, Reject, RejectHint, Context
// The group record is a function of the group identity (GroupId, replica ids): Name never changes for one identity.

type v2Group struct {
	from, to  raftpb.Group
	term      uint64
	lastTerm  uint64 // term of the entry at `next-1` as the leader knows it
	next      uint64 // index of the next entry to send
	commit    uint64
	timestamp int64
}

type v2World struct {
	local, remote uint64
	groups        []*v2Group
}

func newV2World(r *rand.Rand) *v2World {
	w := &v2World{local: 1 + uint64(r.Intn(1000)), remote: 2000 + uint64(r.Intn(1000))}
	if r.Intn(8) == 0 {
		w.local, w.remote = u64(r)|1, u64(r)|2
		if w.local == w.remote {
			w.remote++
		}
	}
	n := 1 + r.Intn(4)
	// Replica ids are allocated per partition, starting at 1: the groups two
	// nodes share normally have THE SAME sender and receiver replica ids and
	// differ only in GroupId (and name). That is the default shape; a minority
	// of worlds has some or all groups on distinct replica ids (members were
	// replaced in some partitions).
	shape := r.Intn(10) // 0..6 all groups same replica ids, 7..8 mixed, 9 all distinct
	sharedFrom, sharedTo := uint64(1+r.Intn(3)), uint64(1+r.Intn(3))
	if sharedTo == sharedFrom {
		sharedTo = sharedFrom%3 + 1
	}
	noName := r.Intn(4) == 0 // membership records without a name: GroupId is the only difference
	for i := 0; i < n; i++ {
		gid := uint64(100 + i)
		name := fmt.Sprintf("ns%d-%d", i/2, i%2)
		from, to := sharedFrom, sharedTo
		if shape == 9 || (shape >= 7 && r.Intn(2) == 0) {
			from, to = uint64(10*i+1+r.Intn(3)), uint64(10*i+5+r.Intn(3))
		}
		g := &v2Group{
			from: raftpb.Group{NodeId: w.remote, Name: name, GroupId: gid, RaftReplicaId: from},
			to:   raftpb.Group{NodeId: w.local, Name: name, GroupId: gid, RaftReplicaId: to},
			term: 1 + uint64(r.Intn(5)),
			next: 1 + uint64(r.Intn(50)),
		}
		if noName || r.Intn(3) == 0 {
			g.to.Name = "" // NewRawNode / ConfChange records may carry no name
		}
		g.lastTerm = g.term
		if r.Intn(3) == 0 && g.term > 1 {
			g.lastTerm = g.term - 1
		}
		g.commit = g.next - 1
		g.timestamp = 1600000000000000000
		w.groups = append(w.groups, g)
	}
	return w
}

func (g *v2Group) entry(r *rand.Rand, idx, term uint64, dataLen int) raftpb.Entry {
	g.timestamp += int64(r.Intn(1000000))
	e := raftpb.Entry{Term: term, Index: idx, ID: u64(r), Timestamp: g.timestamp, DataType: int32(r.Intn(3))}
	if r.Intn(12) == 0 {
		e.Type = raftpb.EntryConfChange
	}
	switch {
	case dataLen < 0:
		e.Data = nil
	case dataLen == 0:
		e.Data = []byte{}
	default:
		e.Data = rbytes(r, dataLen)
	}
	return e
}

// app builds the next MsgApp of group g: nEnt entries continuing at g.next.
func (g *v2Group) app(r *rand.Rand, nEnt int, dataLen func() int) raftpb.Message {
	m := raftpb.Message{Type: raftpb.MsgApp, From: g.from.RaftReplicaId, To: g.to.RaftReplicaId, FromGroup: g.from, ToGroup: g.to,
		Term: g.term, LogTerm: g.lastTerm, Index: g.next - 1}
	t := g.lastTerm
	for i := 0; i < nEnt; i++ {
		if t < g.term && r.Intn(3) == 0 {
			t = g.term
		}
		m.Entries = append(m.Entries, g.entry(r, g.next+uint64(i), t, dataLen()))
	}
	if nEnt > 0 {
		g.next += uint64(nEnt)
		g.lastTerm = t
	}
	if r.Intn(2) == 0 && g.commit < g.next-1 {
		g.commit += 1 + uint64(r.Intn(int(g.next-1-g.commit)))
	}
	m.Commit = g.commit
	return m
}

// genV2Sequence builds a sequence inside the msgappv2 domain with interleaved
// groups, runs of continuing appends, term changes, index gaps (probe after a
// reject, or a jump), empty appends and link heartbeats.
func genV2Sequence(r *rand.Rand, n int, bigEvery int) (*v2World, []raftpb.Message) {
	w := newV2World(r)
	// Aligned worlds: the groups two nodes share often sit at the same term and
	// at the same (or neighbouring) log index - fresh partitions of one
	// namespace, idle groups exchanging empty appends. Then the continuation
	// test of the compact encoding is decided by the group identity alone.
	aligned := r.Intn(2) == 0
	if aligned {
		for _, g := range w.groups {
			g.term, g.lastTerm, g.next = w.groups[0].term, w.groups[0].term, w.groups[0].next
			g.commit = g.next - 1
		}
	}
	var out []raftpb.Message
	cur := w.groups[r.Intn(len(w.groups))]
	var encIndex, encTerm uint64 // what the previous append left behind: last index and term (the true stream state S)
	var prevG *v2Group           // group of the previous append
	// Resends and gaps are legal raft traffic (after a reject or an unreachable
	// report the leader sends again from an earlier index; after a snapshot from
	// a later one). A seed-chosen fraction of follow-ups goes to the same group
	// and term with Index in {S-2, S-1, S, S+1}: only Index == S may take the
	// compact form, so any drift between the encoder's and the decoder's idea of
	// S shows up right here.
	nearFrac := []int{0, 10, 25, 50}[r.Intn(4)]
	nearD := []int{-1, -1, 0, -2, 1} // weights: the slot right below S is the most telling one
	forceNear := -100                // != -100: the next append must be a near follow-up with this offset
	bigK, bigCombo := 0, r.Intn(20)
	bigSizes := []int{bufLimit - 1, bufLimit, bufLimit + 1, 2*bufLimit + 1 + r.Intn(4096)}
	// near re-targets group g to Index = S+d of the same term; false if impossible
	near := func(g *v2Group, d int) bool {
		if g == nil || encTerm == 0 || int64(encIndex)+int64(d) < 0 {
			return false
		}
		g.term, g.lastTerm, g.next = encTerm, encTerm, uint64(int64(encIndex)+int64(d))+1
		return true
	}
	for len(out) < n {
		x := r.Intn(100)
		big := bigEvery > 0 && len(out)%bigEvery == bigEvery-1
		isNear := false
		switch {
		case forceNear != -100 && near(prevG, forceNear):
			cur, isNear = prevG, true
			forceNear = -100
		case big && near(prevG, 0):
			// the message with the big entry continues the stream: compact form
			cur, isNear = prevG, true
		case prevG != nil && r.Intn(100) < nearFrac && near(prevG, nearD[r.Intn(len(nearD))]):
			cur, isNear = prevG, true
		}
		forceNear = -100
		switch {
		case isNear:
		case x < 8:
			out = append(out, rafthttp.VerifLinkHeartbeatMessage())
			continue
		case x < 34: // switch group (interleaving)
			cur = w.groups[r.Intn(len(w.groups))]
			if aligned && encTerm >= cur.term && r.Intn(10) < 6 {
				// this group happens to be exactly where the previous message of the other group ended
				cur.term, cur.lastTerm, cur.next = encTerm, encTerm, encIndex+1
				if cur.commit > encIndex {
					cur.commit = encIndex
				}
			}
		case x < 39: // new term: the leader was re-elected; its first append still refers to an older last term
			d := 1 + uint64(r.Intn(3))
			if aligned {
				for _, g := range w.groups {
					g.term += d
				}
			} else {
				cur.term += d
			}
		case x < 45: // the leader's log caught up with its term: steady state from now on
			cur.lastTerm = cur.term
		case x < 50: // follower rejected: go back
			if cur.next > 1 {
				cur.next = 1 + uint64(r.Intn(int(cur.next)))
				cur.lastTerm = 1 + uint64(r.Intn(int(cur.term)))
			}
		case x < 53: // jump forward (after a snapshot was sent through the pipeline)
			cur.next += 1 + uint64(r.Intn(1000))
			cur.commit = cur.next - 1
		}
		nEnt := 0
		switch y := r.Intn(10); {
		case y < 3:
			nEnt = 0
		case y < 7:
			nEnt = 1
		default:
			nEnt = 2 + r.Intn(6)
		}
		dl := func() int {
			switch z := r.Intn(20); {
			case z == 0:
				return -1
			case z == 1:
				return 0
			case z == 2:
				return 1
			case z < 18:
				return 2 + r.Intn(60)
			}
			return 200 + r.Intn(1500)
		}
		if big && nEnt == 0 {
			nEnt = 1
		}
		m := cur.app(r, nEnt, dl)
		if big {
			// entries around the internal buffer limit: marshalled entry size
			// 1 MiB-1, 1 MiB, 1 MiB+1 and 2 MiB+, each followed by an append whose
			// Index sits at S-2, S-1, S or S+1 (all 20 weighted combinations are
			// walked through: 7 is coprime to 20)
			combo := (bigCombo + 7*bigK) % 20
			bigK++
			padEntryTo(&m.Entries[r.Intn(len(m.Entries))], bigSizes[combo%4])
			forceNear = nearD[combo/4]
		}
		encIndex, encTerm = m.Index+uint64(len(m.Entries)), m.Term
		prevG = cur
		out = append(out, m)
	}
	return w, out
}

func cloneMsg(m raftpb.Message) raftpb.Message {
	// Marshal/Unmarshal is itself part of what is under test: copy by hand.
	c := m
	c.Context = append([]byte(nil), m.Context...)
	if m.Context == nil {
		c.Context = nil
	}
	c.Entries = nil
	for _, e := range m.Entries {
		ce := e
		if e.Data != nil {
			ce.Data = append([]byte{}, e.Data...)
		}
		c.Entries = append(c.Entries, ce)
	}
	if m.Snapshot.Data != nil {
		c.Snapshot.Data = append([]byte{}, m.Snapshot.Data...)
	}
	cs := m.Snapshot.Metadata.ConfState
	c.Snapshot.Metadata.ConfState = raftpb.ConfState{Nodes: append([]uint64(nil), cs.Nodes...), Learners: append([]uint64(nil), cs.Learners...)}
	for _, g := range cs.Groups {
		gg := *g
		c.Snapshot.Metadata.ConfState.Groups = append(c.Snapshot.Metadata.ConfState.Groups, &gg)
	}
	for _, g := range cs.LearnerGroups {
		gg := *g
		c.Snapshot.Metadata.ConfState.LearnerGroups = append(c.Snapshot.Metadata.ConfState.LearnerGroups, &gg)
	}
	return c
}

// diffMsg returns the name of the first field in which got differs from want
// ("" if none). Byte fields are compared as byte strings (nil == empty): the
// property speaks of the bytes, not of Go nil-ness.
func diffMsg(want, got *raftpb.Message) string {
	switch {
	case want.Type != got.Type:
		return "type"
	case want.To != got.To:
		return "to"
	case want.From != got.From:
		return "from"
	case want.Term != got.Term:
		return "term"
	case want.LogTerm != got.LogTerm:
		return "logterm"
	case want.Index != got.Index:
		return "index"
	case want.Commit != got.Commit:
		return "commit"
	case len(want.Entries) != len(got.Entries):
		return "entries.len"
	}
	for i := range want.Entries {
		a, b := &want.Entries[i], &got.Entries[i]
		switch {
		case a.Type != b.Type:
			return "entry.type"
		case a.Term != b.Term:
			return "entry.term"
		case a.Index != b.Index:
			return "entry.index"
		case !bytes.Equal(a.Data, b.Data):
			return "entry.data"
		case a.ID != b.ID:
			return "entry.id"
		case a.DataType != b.DataType:
			return "entry.datatype"
		case a.Timestamp != b.Timestamp:
			return "entry.timestamp"
		}
	}
	if f := diffGroup(&want.FromGroup, &got.FromGroup); f != "" {
		return "fromgroup." + f
	}
	if f := diffGroup(&want.ToGroup, &got.ToGroup); f != "" {
		return "togroup." + f
	}
	switch {
	case !bytes.Equal(want.Snapshot.Data, got.Snapshot.Data):
		return "snapshot.data"
	case want.Snapshot.Metadata.Index != got.Snapshot.Metadata.Index:
		return "snapshot.index"
	case want.Snapshot.Metadata.Term != got.Snapshot.Metadata.Term:
		return "snapshot.term"
	}
	a, b := &want.Snapshot.Metadata.ConfState, &got.Snapshot.Metadata.ConfState
	if !eqU64s(a.Nodes, b.Nodes) {
		return "snapshot.confstate.nodes"
	}
	if !eqU64s(a.Learners, b.Learners) {
		return "snapshot.confstate.learners"
	}
	if f := diffGroups(a.Groups, b.Groups); f != "" {
		return "snapshot.confstate.groups"
	}
	if f := diffGroups(a.LearnerGroups, b.LearnerGroups); f != "" {
		return "snapshot.confstate.learnergroups"
	}
	switch {
	case want.Reject != got.Reject:
		return "reject"
	case want.RejectHint != got.RejectHint:
		return "rejecthint"
	case !bytes.Equal(want.Context, got.Context):
		return "context"
	}
	return ""
}

func diffGroup(a, b *raftpb.Group) string {
	switch {
	case a.NodeId != b.NodeId:
		return "nodeid"
	case a.GroupId != b.GroupId:
		return "groupid"
	case a.RaftReplicaId != b.RaftReplicaId:
		return "replicaid"
	case a.Name != b.Name:
		return "name"
	}
	return ""
}

func diffGroups(a, b []*raftpb.Group) string {
	if len(a) != len(b) {
		return "len"
	}
	for i := range a {
		if f := diffGroup(a[i], b[i]); f != "" {
			return f
		}
	}
	return ""
}

func eqU64s(a, b []uint64) bool {
	if len(a) != len(b) {
		return false
	}
	for i := range a {
		if a[i] != b[i] {
			return false
		}
	}
	return true
}
