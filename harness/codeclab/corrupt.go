package codeclab

import (
	"bytes"
	"encoding/binary"
	"encoding/json"
	"fmt"
	"io/ioutil"
	"os"
	"os/exec"
	"path/filepath"
	"runtime/debug"
	"strconv"
	"strings"
	"syscall"
	"time"

	"github.com/youzan/ZanRedisDB/raft/raftpb"
	"github.com/youzan/ZanRedisDB/transport/rafthttp"

	"verif/harness/vc"
)

var flipMasks = []byte{0x01, 0x80, 0xff}

type lenField struct {
	off  int
	kind string // size | count
}

// lengthFields locates the 8-byte big-endian length and count fields of a
// well-formed stream from the format documented in msgappv2_codec.go and
// msg_codec.go. It is used only to predict which flips turn a length into a
// multi-gigabyte allocation (those are executed a bounded number of times,
// because the process may not survive them); it is not part of any oracle.
func lengthFields(s *Stream) ([]lenField, bool) {
	var out []lenField
	prev := 0
	for _, end := range s.Bounds {
		p := prev
		if s.Codec == "message" {
			if p+8 > end {
				return nil, false
			}
			out = append(out, lenField{p, "size"})
			if p+8+int(binary.BigEndian.Uint64(s.Bytes[p:])) != end {
				return nil, false
			}
			prev = end
			continue
		}
		switch s.Bytes[p] {
		case 0:
			p++
		case 1:
			p++
			if p+8 > end {
				return nil, false
			}
			out = append(out, lenField{p, "count"})
			n := int(binary.BigEndian.Uint64(s.Bytes[p:]))
			p += 8
			for i := 0; i < n; i++ {
				if p+8 > end {
					return nil, false
				}
				out = append(out, lenField{p, "size"})
				p += 8 + int(binary.BigEndian.Uint64(s.Bytes[p:]))
			}
			p += 8
		case 2:
			p++
			if p+8 > end {
				return nil, false
			}
			out = append(out, lenField{p, "size"})
			p += 8 + int(binary.BigEndian.Uint64(s.Bytes[p:]))
		default:
			return nil, false
		}
		if p != end {
			return nil, false
		}
		prev = end
	}
	return out, true
}

type example struct {
	Summary     string                 `json:"summary"`
	Detail      map[string]interface{} `json:"detail"`
	StreamBytes int                    `json:"stream_bytes"`
	Kind        string                 `json:"kind"`
	Index       int                    `json:"index"`
}

type corruptResult struct {
	Flips, Detected, Identical, Undetected, Panics, SkippedHuge, ExecutedHuge int64
	UndetectedByField                                                         map[string]int64
	ByCodec                                                                   map[string]int64
	examples                                                                  map[string]*example
	Examples                                                                  map[string]*example
	Streams                                                                   int64
	NextPos                                                                   int
}

func newCorruptResult() *corruptResult {
	return &corruptResult{UndetectedByField: map[string]int64{}, ByCodec: map[string]int64{}, examples: map[string]*example{}}
}

func (a *corruptResult) merge(b *corruptResult) {
	a.Flips += b.Flips
	a.Detected += b.Detected
	a.Identical += b.Identical
	a.Undetected += b.Undetected
	a.Panics += b.Panics
	a.SkippedHuge += b.SkippedHuge
	a.ExecutedHuge += b.ExecutedHuge
	a.Streams += b.Streams
	for k, v := range b.UndetectedByField {
		a.UndetectedByField[k] += v
	}
	for k, v := range b.ByCodec {
		a.ByCodec[k] += v
	}
	for k, e := range b.Examples {
		if cur, ok := a.examples[k]; !ok || e.StreamBytes < cur.StreamBytes {
			a.examples[k] = e
		}
	}
	for k, e := range b.examples {
		if cur, ok := a.examples[k]; !ok || e.StreamBytes < cur.StreamBytes {
			a.examples[k] = e
		}
	}
}

// Flips that turn a length or count field into a multi-GiB value are executed
// only a bounded number of times per process: budget[0] for values the runtime
// rejects outright (>= 2^47: makeslice panics), budget[1] for values it tries
// to allocate (the process dies with "out of memory" under the address-space limit).
var hugeBudget = [2]int{1, 1}

// corruptStream flips single bytes of the stream and classifies what the
// decoder does with the result. progress (may be nil) is called before every
// decode with the flip number.
func corruptStream(s *Stream, startFlip, maxPositions int, progress func(flip int)) *corruptResult {
	res := newCorruptResult()
	res.Streams = 1
	n := len(s.Bytes)
	var positions []int
	if n <= maxPositions {
		for i := 0; i < n; i++ {
			positions = append(positions, i)
		}
	} else {
		r := streamRand(int64(n), 31, s.Index)
		seen := map[int]bool{}
		fields, _ := lengthFields(s)
		for i, f := range fields {
			if i >= 6 {
				break
			}
			for j := 0; j < 8; j++ {
				seen[f.off+j] = true
			}
		}
		for len(seen) < maxPositions {
			seen[r.Intn(n)] = true
		}
		for p := range seen {
			positions = append(positions, p)
		}
		sortInts(positions)
	}
	fields, parsed := lengthFields(s)
	fieldAt := map[int]lenField{}
	if parsed {
		for _, f := range fields {
			for j := 0; j < 8; j++ {
				fieldAt[f.off+j] = f
			}
		}
	}
	buf := make([]byte, n)
	var rd bytes.Reader
	dec := newDecoder(s.Codec, &rd, s.Local, s.Remote)
	flip := -1
	for _, p := range positions {
		for _, mask := range flipMasks {
			flip++
			if flip < startFlip {
				continue
			}
			if f, ok := fieldAt[p]; ok && s.Codec == "msgappv2" {
				v := binary.BigEndian.Uint64(s.Bytes[f.off:])
				nv := v ^ (uint64(mask) << (8 * uint(7-(p-f.off))))
				if (f.kind == "size" && nv > 64<<20) || (f.kind == "count" && nv > 200000) {
					cls := 0
					if nv < 1<<47 {
						cls = 1
					}
					if (cls == 1 && nv < 4<<30) || hugeBudget[cls] <= 0 {
						res.SkippedHuge++
						continue
					}
					hugeBudget[cls]--
					res.ExecutedHuge++
				}
			}
			if progress != nil {
				progress(flip)
			}
			copy(buf, s.Bytes)
			buf[p] ^= mask
			res.Flips++
			res.ByCodec[s.Codec]++
			rd.Reset(buf)
			dec.Reset(&rd)
			outcome := ""
			for i := 0; i <= len(s.Msgs)+1; i++ {
				m, err, pan := safeDecode(dec)
				if pan != nil {
					res.Panics++
					outcome = "panic"
					sig := "corruption-panic/" + s.Codec
					if _, ok := res.examples[sig]; !ok {
						res.examples[sig] = &example{StreamBytes: n, Kind: s.Source, Index: s.Index,
							Summary: fmt.Sprintf("%s: byte %d of a %d-byte stream xor 0x%02x: the decoder panics on message %d: %v", s.Codec, p, n, mask, i, pan),
							Detail:  map[string]interface{}{"offset": p, "mask": mask, "message_index": i, "panic": fmt.Sprint(pan), "field": fieldName(fieldAt, p)}}
					}
					break
				}
				if err != nil {
					if i >= len(s.Msgs) {
						outcome = "identical" // every message arrived unchanged, then end of stream
					} else {
						outcome = "detected"
					}
					break
				}
				var f string
				if i >= len(s.Msgs) {
					f = "extra-message"
				} else {
					f = diffMsg(&s.Msgs[i], &m)
				}
				if f != "" {
					outcome = "undetected"
					res.Undetected++
					res.UndetectedByField[s.Codec+"/"+f]++
					sig := "corruption-undetected/" + s.Codec
					if _, ok := res.examples[sig]; !ok {
						sent := "(none)"
						if i < len(s.Msgs) {
							sent = brief(&s.Msgs[i])
						}
						res.examples[sig] = &example{StreamBytes: n, Kind: s.Source, Index: s.Index,
							Summary: fmt.Sprintf("%s: byte %d of a %d-byte stream xor 0x%02x: message %d is returned without error but differs in %s: sent %s decoded %s", s.Codec, p, n, mask, i, f, sent, brief(&m)),
							Detail:  map[string]interface{}{"offset": p, "mask": mask, "message_index": i, "field": f}}
					}
					break
				}
			}
			switch outcome {
			case "detected":
				res.Detected++
			case "identical":
				res.Identical++
			}
		}
	}
	return res
}

func fieldName(m map[int]lenField, p int) string {
	if f, ok := m[p]; ok {
		return f.kind
	}
	return "payload"
}

func sortInts(a []int) {
	for i := 1; i < len(a); i++ {
		for j := i; j > 0 && a[j-1] > a[j]; j-- {
			a[j-1], a[j] = a[j], a[j-1]
		}
	}
}

// tinyStreams are the smallest meaningful streams: they give minimal witnesses.
func tinyStreams() []*Stream {
	var out []*Stream
	hb := raftpb.Message{Type: raftpb.MsgHeartbeat, From: 11, To: 12, Term: 3, Commit: 9,
		FromGroup: raftpb.Group{NodeId: 1, Name: "ns-0", GroupId: 100, RaftReplicaId: 11}, ToGroup: raftpb.Group{NodeId: 2, Name: "ns-0", GroupId: 100, RaftReplicaId: 12}}
	s, _ := encodeStream("message", 0, 0, []raftpb.Message{hb})
	s.Source, s.Index = "tiny", 0
	out = append(out, s)
	app := raftpb.Message{Type: raftpb.MsgApp, From: 11, To: 12, Term: 3, LogTerm: 3, Index: 7, Commit: 7,
		FromGroup: hb.FromGroup, ToGroup: hb.ToGroup, Entries: []raftpb.Entry{{Term: 3, Index: 8, Data: []byte("hello"), ID: 1}}}
	app2 := app
	app2.Index, app2.Commit = 8, 8
	app2.Entries = []raftpb.Entry{{Term: 3, Index: 9, Data: []byte("world"), ID: 2}}
	s, _ = encodeStream("msgappv2", 2, 1, []raftpb.Message{app, app2, rafthttp.VerifLinkHeartbeatMessage()})
	s.Source, s.Index = "tiny", 1
	out = append(out, s)
	return out
}

type corruptJob struct {
	kind string
	idx  int
}

func corruptJobs(tier string) []corruptJob {
	k := 60
	if tier == "thorough" {
		k = 900
	}
	jobs := []corruptJob{{"tiny", 0}, {"tiny", 1}}
	for i := 0; i < k; i++ {
		jobs = append(jobs, corruptJob{"msg", i}, corruptJob{"v2", i})
	}
	return jobs
}

func corruptJobStream(seed int64, j corruptJob) (*Stream, error) {
	if j.kind == "tiny" {
		return tinyStreams()[j.idx], nil
	}
	return genStream(seed, j.kind, j.idx)
}

// corruptChild: codeclab-corrupt <seed> <tier> <shard> <nshards> <startPos> <startFlip> <hugeBudget> <out> <progress>
func corruptChild(args []string) int {
	if len(args) < 9 {
		fmt.Fprintln(os.Stderr, "usage: codeclab-corrupt <seed> <tier> <shard> <nshards> <startPos> <startFlip> <hugeBudget> <out> <progress>")
		return 2
	}
	seed, _ := strconv.ParseInt(args[0], 10, 64)
	tier := args[1]
	shard, _ := strconv.Atoi(args[2])
	nshards, _ := strconv.Atoi(args[3])
	startPos, _ := strconv.Atoi(args[4])
	startFlip, _ := strconv.Atoi(args[5])
	hb, _ := strconv.Atoi(args[6])
	hugeBudget = [2]int{hb, hb}
	outPath, progPath := args[7], args[8]
	// a corrupted length must not be able to take the machine down
	if raceEnabled {
		// the race runtime needs terabytes of address space: no RLIMIT_AS there,
		// no deliberately huge lengths, only the resident-set guard below
		hugeBudget = [2]int{0, 0}
	} else {
		// room for the message decoder's own 512 MB cap (an untouched allocation
		// costs address space, not memory), nothing like the terabytes a corrupted
		// msgappv2 length asks for
		lim := syscall.Rlimit{Cur: 4 << 30, Max: 4 << 30}
		syscall.Setrlimit(syscall.RLIMIT_AS, &lim)
	}
	go func() {
		for {
			time.Sleep(100 * time.Millisecond)
			if r := rssBytes(); r > 1536<<20 {
				fmt.Fprintf(os.Stderr, "codeclab-corrupt: resident set %d MiB exceeds the guard: out of memory\n", r>>20)
				os.Exit(3)
			}
		}
	}()
	debug.SetMemoryLimit(768 << 20)
	pf, err := os.Create(progPath)
	if err != nil {
		fmt.Fprintln(os.Stderr, err)
		return 2
	}
	defer pf.Close()
	jobs := corruptJobs(tier)
	total := newCorruptResult()
	write := func(next int, done bool) {
		total.NextPos = next
		total.Examples = total.examples
		b, _ := json.Marshal(map[string]interface{}{"result": total, "done": done})
		ioutil.WriteFile(outPath+".tmp", b, 0644)
		os.Rename(outPath+".tmp", outPath)
	}
	for pos := startPos; pos < len(jobs); pos++ {
		if pos%nshards != shard {
			continue
		}
		s, err := corruptJobStream(seed, jobs[pos])
		if err != nil {
			continue
		}
		sf := 0
		if pos == startPos {
			sf = startFlip
		}
		line := make([]byte, 0, 64)
		r := corruptStream(s, sf, 900, func(flip int) {
			line = append(line[:0], fmt.Sprintf("%-10d %-10d\n", pos, flip)...)
			pf.WriteAt(line, 0)
		})
		total.merge(r)
		write(pos+1, false)
	}
	write(len(jobs), true)
	return 0
}

func runCorruption(c *vc.Ctx, pl plan) error {
	bin, err := os.Executable()
	if err != nil {
		return err
	}
	nshards := pl.corruptShard
	total := newCorruptResult()
	crashes := map[string]*example{}
	results := make([]*corruptResult, nshards)
	crashEx := make([][]*example, nshards)
	inconcl := make([]string, nshards)
	c.ParallelFor(nshards, func(sh int) {
		acc := newCorruptResult()
		results[sh] = acc
		startPos, startFlip, huge := 0, 0, 1
		for attempt := 0; attempt < 60; attempt++ {
			out := filepath.Join(c.Scratch, fmt.Sprintf("corrupt-%d-%d.json", sh, attempt))
			prog := filepath.Join(c.Scratch, fmt.Sprintf("corrupt-%d-%d.progress", sh, attempt))
			cmd := exec.Command(bin, "--child", "codeclab-corrupt", strconv.FormatInt(c.Seed, 10), c.Tier, strconv.Itoa(sh), strconv.Itoa(nshards),
				strconv.Itoa(startPos), strconv.Itoa(startFlip), strconv.Itoa(huge), out, prog)
			var stderr bytes.Buffer
			cmd.Stderr = &stderr
			cmd.Stdout = &stderr
			done := make(chan error, 1)
			if err := cmd.Start(); err != nil {
				inconcl[sh] = err.Error()
				return
			}
			go func() { done <- cmd.Wait() }()
			select {
			case <-done:
			case <-time.After(time.Duration(c.Pick(300, 2400)) * time.Second):
				cmd.Process.Kill()
				<-done
				inconcl[sh] = "watchdog"
				return
			}
			var doc struct {
				Result *corruptResult `json:"result"`
				Done   bool           `json:"done"`
			}
			if b, err := ioutil.ReadFile(out); err == nil {
				json.Unmarshal(b, &doc)
			}
			if doc.Result != nil {
				acc.merge(doc.Result)
			}
			if doc.Done {
				return
			}
			// the child died: which flip?
			pb, _ := ioutil.ReadFile(prog)
			var pos, flip int
			if _, err := fmt.Sscanf(string(pb), "%d %d", &pos, &flip); err != nil {
				inconcl[sh] = "corruption child died without progress record: " + tail(stderr.String(), 400)
				return
			}
			jobs := corruptJobs(c.Tier)
			se := stderr.String()
			why := "died"
			switch {
			case strings.Contains(se, "out of memory") || strings.Contains(se, "cannot allocate memory"):
				why = "out-of-memory"
			case strings.Contains(se, "fatal error:"):
				why = "fatal-error"
			}
			codec := "message"
			if jobs[pos].kind == "v2" || (jobs[pos].kind == "tiny" && jobs[pos].idx == 1) {
				codec = "msgappv2"
			}
			crashEx[sh] = append(crashEx[sh], &example{Kind: jobs[pos].kind, Index: jobs[pos].idx,
				Summary: fmt.Sprintf("%s: a single flipped byte (stream %s#%d, flip #%d = position index %d, mask 0x%02x) kills the decoding process: %s", codec, jobs[pos].kind, jobs[pos].idx, flip, flip/len(flipMasks), flipMasks[flip%len(flipMasks)], why),
				Detail:  map[string]interface{}{"codec": codec, "why": why, "stream_kind": jobs[pos].kind, "stream_index": jobs[pos].idx, "flip": flip, "stderr_head": head(se, 600)}})
			startPos, startFlip, huge = pos, flip+1, 0
		}
	})
	var deaths int64
	for sh := 0; sh < nshards; sh++ {
		if inconcl[sh] != "" {
			c.Inconclusive("corruption shard " + strconv.Itoa(sh) + ": " + inconcl[sh])
			continue
		}
		total.merge(results[sh])
		for _, e := range crashEx[sh] {
			sig := "corruption-crash/" + e.Detail["codec"].(string)
			if _, ok := crashes[sig]; !ok {
				crashes[sig] = e
			}
			total.ByCodec["crash/"+e.Detail["codec"].(string)]++
			deaths++
		}
	}
	c.Ev.Count("corruption_flips", total.Flips)
	c.Ev.Count("corruption_detected_by_error", total.Detected)
	c.Ev.Count("corruption_identical_messages", total.Identical)
	c.Ev.Count("corruption_undetected_different_message", total.Undetected)
	c.Ev.Count("corruption_decoder_panics", total.Panics)
	c.Ev.Count("corruption_huge_length_flips_executed", total.ExecutedHuge)
	c.Ev.Count("corruption_huge_length_flips_skipped", total.SkippedHuge)
	c.Ev.Count("corruption_process_deaths", deaths)
	c.Ev.Set("corruption_undetected_by_codec_and_field", total.UndetectedByField)
	c.Ev.Set("corruption_flips_by_codec", total.ByCodec)
	emit := func(sig string, e *example) {
		w := Witness{Seed: c.Seed, Tier: c.Tier, Clause: "corruption", Summary: e.Summary, Detail: e.Detail}
		if e.Kind == "tiny" {
			s := tinyStreams()[e.Index]
			w.Stream, w.Msgs, w.Local, w.Remote = s, s.Msgs, s.Local, s.Remote
		} else if s, err := genStream(c.Seed, e.Kind, e.Index); err == nil {
			w.Stream, w.Local, w.Remote = s, s.Local, s.Remote
			if totalSize(s.Msgs) < 64<<10 {
				w.Msgs = s.Msgs
			}
		}
		c.Violation(sig, e.Summary, w)
	}
	for sig, e := range total.examples {
		emit(sig, e)
	}
	for sig, e := range crashes {
		emit(sig, e)
	}
	fmt.Printf("C16 corruption: %d flips: %d detected, %d identical, %d undetected, %d decoder panics, %d process deaths, %d huge-length flips skipped\n",
		total.Flips, total.Detected, total.Identical, total.Undetected, total.Panics, deaths, total.SkippedHuge)
	return nil
}

func tail(s string, n int) string {
	if len(s) > n {
		return s[len(s)-n:]
	}
	return s
}

func head(s string, n int) string {
	if len(s) > n {
		return s[:n]
	}
	return s
}
