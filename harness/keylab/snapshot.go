package keylab

import (
	"bytes"
	"encoding/binary"
	"fmt"
	"hash/maphash"
	"math"
	"sort"

	"github.com/youzan/ZanRedisDB/engine"
	rr "github.com/youzan/ZanRedisDB/rockredis"
)

// ent is one engine key of a snapshot. For "head" keys (table counter, KV
// value, collection meta key, json document) L is a digest of what the real
// read API returns for that key NOW (value / all fields / members / scores /
// list elements / lengths / stored expire time): the logical content.
//
// smlab.LogicalDump renders the same information as text; rendering (quoting
// 10 KB names) for every step of every world costs 10x more than the reads, so
// the comparison works on digests and the text form is produced only for
// witnesses (replay mode).
type ent struct {
	K, V []byte
	L    uint64
	HasL bool
	o    *owner
}

var digestSeed = maphash.MakeSeed()

func (w *world) ownerOf(e *ent) *owner {
	if e.o == nil {
		o := classifyRaw(e.K, w.compact)
		e.o = &o
	}
	return e.o
}

// snapshot reads the complete engine content (zero-copy compare against the
// previous snapshot: unchanged keys and values share memory with prev) and
// then the logical content of every head key through the rockredis read API.
func (w *world) snapshot(prev []ent) []ent {
	w.lab.FlushHLL()
	db := w.lab.DB()
	it, err := db.VerifEngine().GetIterator(engine.IteratorOpts{})
	if err != nil {
		panic(fmt.Sprintf("keylab: raw iterator: %v", err))
	}
	out := make([]ent, 0, len(prev)+16)
	j := 0
	for it.SeekToFirst(); it.Valid(); it.Next() {
		rk, rv := it.RefKey(), it.RefValue()
		for j < len(prev) && bytes.Compare(prev[j].K, rk) < 0 {
			j++
		}
		var e ent
		if j < len(prev) && bytes.Equal(prev[j].K, rk) {
			e.K, e.o = prev[j].K, prev[j].o
			if bytes.Equal(prev[j].V, rv) {
				e.V = prev[j].V
			} else {
				e.V = append([]byte{}, rv...)
			}
		} else {
			e.K = append([]byte{}, rk...)
			e.V = append([]byte{}, rv...)
		}
		out = append(out, e)
	}
	it.Close()
	var buf []byte
	for i := range out {
		buf = buf[:0]
		var ok bool
		buf, ok = w.logicalOf(&out[i], buf)
		if ok {
			out[i].L = maphash.Bytes(digestSeed, buf)
			out[i].HasL = true
		}
	}
	return out
}

func appBytes(b []byte, x []byte) []byte {
	var l [4]byte
	binary.BigEndian.PutUint32(l[:], uint32(len(x)))
	b = append(b, l[:]...)
	return append(b, x...)
}

func appInt(b []byte, n int64) []byte {
	var l [8]byte
	binary.BigEndian.PutUint64(l[:], uint64(n))
	return append(b, l[:]...)
}

func appErr(b []byte, err error) []byte {
	if err == nil {
		return append(b, 0)
	}
	b = append(b, 1)
	return appBytes(b, []byte(err.Error()))
}

// logicalOf appends the canonical logical content of a head key.
func (w *world) logicalOf(e *ent, b []byte) ([]byte, bool) {
	if len(e.K) == 0 {
		return b, false
	}
	db := w.lab.DB()
	exp := func(b []byte, dt byte, tk []byte) []byte {
		if !w.compact {
			return b // local_deletion: the expire index records are engine keys themselves
		}
		at, found, err := db.VerifExpireAt(dt, tk)
		b = appInt(b, at)
		if found {
			b = append(b, 1)
		} else {
			b = append(b, 0)
		}
		return appErr(b, err)
	}
	switch e.K[0] {
	case rr.TableMetaType:
		t, err := rr.VerifDecodeTableMetaKey(e.K)
		if err != nil {
			return appBytes(b, e.V), true
		}
		n, cerr := db.GetTableKeyCount(t)
		return appErr(appInt(b, n), cerr), true
	case rr.TableIndexMetaType:
		return appBytes(b, e.V), true
	case rr.KVType:
		tk, _ := rr.VerifDecodeKVKey(e.K)
		v, err := db.KVGet(tk)
		if v == nil {
			b = append(b, 0)
		} else {
			b = appBytes(append(b, 1), v)
		}
		return exp(appErr(b, err), rr.KVType, tk), true
	case rr.HSizeType:
		tk, _ := rr.VerifHDecodeSizeKey(e.K)
		n, lerr := db.HLen(tk)
		_, recs, err := db.HGetAll(tk)
		b = appErr(appErr(appInt(b, n), lerr), err)
		for _, r := range recs {
			b = appErr(appBytes(appBytes(b, r.Rec.Key), r.Rec.Value), r.Err)
		}
		return exp(b, rr.HashType, tk), true
	case rr.LMetaType:
		tk, _ := rr.VerifLDecodeMetaKey(e.K)
		n, lerr := db.LLen(tk)
		es, err := db.LRange(tk, 0, -1)
		b = appErr(appErr(appInt(b, n), lerr), err)
		for _, x := range es {
			b = appBytes(b, x)
		}
		return exp(b, rr.ListType, tk), true
	case rr.SSizeType:
		tk, _ := rr.VerifSDecodeSizeKey(e.K)
		n, lerr := db.SCard(tk)
		ms, err := db.SMembers(tk)
		b = appErr(appErr(appInt(b, n), lerr), err)
		for _, x := range ms {
			b = appBytes(b, x)
		}
		return exp(b, rr.SetType, tk), true
	case rr.ZSizeType:
		tk, _ := rr.VerifZDecodeSizeKey(e.K)
		n, lerr := db.ZCard(tk)
		ps, err := db.ZRange(tk, 0, -1)
		b = appErr(appErr(appInt(b, n), lerr), err)
		for _, p := range ps {
			b = appInt(appBytes(b, p.Member), int64(math.Float64bits(p.Score)))
		}
		return exp(b, rr.ZSetType, tk), true
	case rr.BitmapMetaType:
		tk, _ := rr.VerifBitDecodeMetaKey(e.K)
		n, err := db.BitCountV2(tk, 0, -1)
		b = appErr(appInt(b, n), err)
		for _, off := range []int64{5, 8192 * 3} {
			bit, gerr := db.BitGetV2(tk, off)
			b = appErr(appInt(b, bit), gerr)
		}
		return exp(b, rr.BitmapType, tk), true
	case rr.JSONType:
		t, rk, err := rr.VerifDecodeJSONKey(e.K)
		if err != nil {
			return appBytes(b, e.V), true
		}
		vs, gerr := db.JGet(rr.VerifPackRedisKey(t, rk), []byte(""))
		b = appErr(b, gerr)
		for _, v := range vs {
			b = appBytes(b, []byte(v))
		}
		return b, true
	}
	return b, false
}

// headKeyOf returns the engine key whose presence means "tuple k exists".
func headKeyOf(k tkey) []byte {
	tk := k.tk()
	switch k.Type {
	case "kv":
		return rr.VerifEncodeKVKey(tk)
	case "hash":
		return rr.VerifHEncodeSizeKey(tk)
	case "list":
		return rr.VerifLEncodeMetaKey(tk)
	case "set":
		return rr.VerifSEncodeSizeKey(tk)
	case "zset":
		return rr.VerifZEncodeSizeKey(tk)
	case "bitmap":
		return rr.VerifBitEncodeMetaKey(tk)
	case "json":
		e, _ := rr.VerifEncodeJSONKey([]byte(k.Table), []byte(k.Key))
		return e
	}
	return nil
}

func findEnt(s []ent, k []byte) *ent {
	i := sort.Search(len(s), func(i int) bool { return bytes.Compare(s[i].K, k) >= 0 })
	if i < len(s) && bytes.Equal(s[i].K, k) {
		return &s[i]
	}
	return nil
}

type change struct {
	before, after *ent
}

func (c change) key() []byte {
	if c.before != nil {
		return c.before.K
	}
	return c.after.K
}

func (c change) rawChanged() bool {
	return c.before == nil || c.after == nil || !bytes.Equal(c.before.V, c.after.V)
}

func (c change) logicalChanged() bool {
	switch {
	case c.before == nil:
		return c.after.HasL
	case c.after == nil:
		return c.before.HasL
	}
	return c.before.HasL != c.after.HasL || c.before.L != c.after.L
}

func (c change) how() string {
	switch {
	case c.before != nil && c.after != nil:
		return "changed"
	case c.before != nil:
		return "removed"
	}
	return "added"
}

// diffSnap merges two snapshots; fn is called for every key of either side
// (same=true when neither the raw value nor the logical digest changed).
func diffSnap(a, b []ent, fn func(c change, same bool)) {
	i, j := 0, 0
	for i < len(a) || j < len(b) {
		switch {
		case j >= len(b) || (i < len(a) && bytes.Compare(a[i].K, b[j].K) < 0):
			fn(change{before: &a[i]}, false)
			i++
		case i >= len(a) || bytes.Compare(a[i].K, b[j].K) > 0:
			fn(change{after: &b[j]}, false)
			j++
		default:
			c := change{before: &a[i], after: &b[j]}
			// unchanged values share memory: pointer comparison first
			same := (len(a[i].V) == len(b[j].V) && (len(a[i].V) == 0 || &a[i].V[0] == &b[j].V[0] || bytes.Equal(a[i].V, b[j].V))) && a[i].HasL == b[j].HasL && a[i].L == b[j].L
			fn(c, same)
			i++
			j++
		}
	}
}
