package keylab

import (
	"fmt"

	rr "github.com/youzan/ZanRedisDB/rockredis"
)

// owner is what an engine key decodes to.
type owner struct {
	Kind    string // counter | tableindex | kv | meta | elem | zscore | json | exptime | expmeta | unknown
	Type    string // logical type kv|hash|list|set|zset|bitmap|json ("" for counter/tableindex/unknown)
	Table   string
	Key     string
	Sub     string
	KeyPart string // the key bytes embedded in an element key (versioned form under wait_compact)
	HasSub  bool
	Ver     int64
	HasVer  bool
	Codec   string // decoder used
	Err     string // decode error
	Panic   bool   // the decoder panicked
}

func (o owner) String() string {
	s := fmt.Sprintf("%s/%s table=%s key=%s", o.Kind, o.Type, qs(o.Table), qs(o.Key))
	if o.HasSub {
		s += " sub=" + qs(o.Sub)
	}
	if o.HasVer {
		s += fmt.Sprintf(" ver=%d", o.Ver)
	}
	if o.Err != "" {
		s += " ERR=" + o.Err
	}
	return s
}

func typeOfDT(dt byte) string {
	switch dt {
	case rr.KVType:
		return "kv"
	case rr.HashType, rr.HSizeType:
		return "hash"
	case rr.ListType, rr.LMetaType:
		return "list"
	case rr.SetType, rr.SSizeType:
		return "set"
	case rr.ZSetType, rr.ZSizeType, rr.ZScoreType:
		return "zset"
	case rr.BitmapType, rr.BitmapMetaType:
		return "bitmap"
	case rr.JSONType:
		return "json"
	}
	return ""
}

// classifyRaw decodes an engine key with the NON-recovering decoders of the
// real code: a panic is reported (Panic=true), it is a finding when the key
// was written by the real write path.
func classifyRaw(k []byte, compact bool) (o owner) {
	defer func() {
		if e := recover(); e != nil {
			o.Panic = true
			o.Err = fmt.Sprintf("PANIC: %v", e)
		}
	}()
	if len(k) == 0 {
		return owner{Kind: "unknown", Err: "empty engine key"}
	}
	splitTK := func(o *owner, tk []byte) {
		t, rk, err := rr.VerifExtractTableFromRedisKey(tk)
		if err != nil {
			o.Err = err.Error()
			return
		}
		o.Table, o.Key = string(t), string(rk)
	}
	verKey := func(o *owner, keypart []byte) {
		o.KeyPart = string(keypart)
		if !compact {
			o.Key = string(keypart)
			return
		}
		rk, ver, err := rr.VerifRawDecodeVerKey(keypart)
		if err != nil {
			// not a versioned key: only the legacy bitmap conversion writes these
			o.Key = string(keypart)
			o.Err = "unversioned element key under wait_compact: " + err.Error()
			return
		}
		o.Key, o.Ver, o.HasVer = string(rk), ver, true
	}
	dt := k[0]
	switch dt {
	case rr.TableMetaType:
		o = owner{Kind: "counter", Codec: "tablemeta"}
		t, err := rr.VerifDecodeTableMetaKey(k)
		if err != nil {
			o.Err = err.Error()
		}
		o.Table = string(t)
	case rr.TableIndexMetaType:
		o = owner{Kind: "tableindex", Codec: "tableindexmeta"}
		_, t, err := rr.VerifDecodeTableIndexMetaKey(k)
		if err != nil {
			o.Err = err.Error()
		}
		o.Table = string(t)
	case rr.KVType:
		o = owner{Kind: "kv", Type: "kv", Codec: "kv"}
		tk, err := rr.VerifDecodeKVKey(k)
		if err != nil {
			o.Err = err.Error()
			return
		}
		splitTK(&o, tk)
	case rr.HSizeType, rr.LMetaType, rr.SSizeType, rr.ZSizeType, rr.BitmapMetaType:
		o = owner{Kind: "meta", Type: typeOfDT(dt), Codec: "meta-" + typeOfDT(dt)}
		_, tk, err := rr.VerifDecodeAnyMetaKey(k)
		if err != nil {
			o.Err = err.Error()
			return
		}
		splitTK(&o, tk)
	case rr.HashType, rr.SetType, rr.ZSetType:
		o = owner{Kind: "elem", Type: typeOfDT(dt), Codec: "collsubkey"}
		_, t, kp, sub, err := rr.VerifRawDecodeCollSubKey(k)
		if err != nil {
			o.Err = err.Error()
			return
		}
		o.Table, o.Sub, o.HasSub = string(t), string(sub), true
		verKey(&o, kp)
	case rr.ZScoreType:
		o = owner{Kind: "zscore", Type: "zset", Codec: "zscore"}
		t, kp, m, _, err := rr.VerifRawZDecodeScoreKey(k)
		if err != nil {
			o.Err = err.Error()
			return
		}
		o.Table, o.Sub, o.HasSub = string(t), string(m), true
		verKey(&o, kp)
	case rr.ListType:
		o = owner{Kind: "elem", Type: "list", Codec: "list"}
		t, kp, _, err := rr.VerifRawLDecodeListKey(k)
		if err != nil {
			o.Err = err.Error()
			return
		}
		o.Table = string(t)
		verKey(&o, kp)
	case rr.BitmapType:
		o = owner{Kind: "elem", Type: "bitmap", Codec: "bitmap"}
		t, kp, _, err := rr.VerifRawDecodeBitmapKey(k)
		if err != nil {
			o.Err = err.Error()
			return
		}
		o.Table = string(t)
		verKey(&o, kp)
	case rr.JSONType:
		o = owner{Kind: "json", Type: "json", Codec: "json"}
		t, rk, err := rr.VerifRawDecodeJSONKey(k)
		if err != nil {
			o.Err = err.Error()
			return
		}
		o.Table, o.Key = string(t), string(rk)
	case rr.ExpTimeType:
		o = owner{Kind: "exptime", Codec: "exptime"}
		edt, tk, _, err := rr.VerifExpDecodeTimeKey(k)
		if err != nil {
			o.Err = err.Error()
			return
		}
		o.Type = typeOfDT(edt)
		splitTK(&o, tk)
	case rr.ExpMetaType:
		o = owner{Kind: "expmeta", Codec: "expmeta"}
		edt, tk, err := rr.VerifExpDecodeMetaKey(k)
		if err != nil {
			o.Err = err.Error()
			return
		}
		o.Type = typeOfDT(edt)
		splitTK(&o, tk)
	default:
		o = owner{Kind: "unknown", Err: fmt.Sprintf("unknown type byte %d", dt)}
	}
	return o
}
