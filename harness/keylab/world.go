package keylab

import (
	"bytes"
	"encoding/binary"
	"fmt"
	"os"
	"path/filepath"
	"sort"
	"strconv"
	"strings"

	"github.com/youzan/ZanRedisDB/common"
	rr "github.com/youzan/ZanRedisDB/rockredis"

	"verif/harness/smlab"
)

// C12 part 1: behavioural non-interference on the real state machine.
//
// A world is one real store (smlab.Lab) populated with every tuple of a small
// adversarial universe. A step applies ONE write on target tuple(s) A through
// the real apply path; afterwards the complete raw engine content and the
// complete logical content are compared with the state before the step:
//   - every added / removed / changed engine key must decode (exported
//     decoders of the real code) to A's own data, meta, version or expire-index
//     keys or to the key counter of A's table;
//   - every logical line that changed must be A's line (or the counter of A's
//     table); for operations that name sub-keys only the named fields / members
//     of A may change;
//   - range operations must remove everything they address.
// The state after a step is the state before the next one, so every write that
// the harness itself needs (population, re-population after a clear) is a
// checked step too.

const tsBase = int64(1893456000) * 1e9 // 2030-01-01: log timestamps far from the wall clock

var allTypes = []string{"kv", "hash", "list", "set", "zset", "bitmap", "json"}

type tkey struct{ Type, Table, Key string }

func (k tkey) tk() []byte { return pack(k.Table, k.Key) }
func (k tkey) String() string {
	return fmt.Sprintf("%s %s:%s", k.Type, qs(k.Table), qs(k.Key))
}

type target struct {
	tkey
	Subs      []string // named sub-keys; nil = the whole key
	TableWide bool     // the whole table (DeleteTableRange), all types
	RangeFrom []byte   // partial table delete [RangeFrom, RangeTo)
	RangeTo   []byte
	AlsoKV    bool // bitmap writes migrate a legacy KV bitmap of the same name
}

type worldSpec struct {
	ID     int         `json:"id"`
	Kind   string      `json:"kind"` // K | T | S | M | BIG | TABLE
	Engine string      `json:"engine"`
	Policy string      `json:"policy"`
	Tables []string    `json:"-"`
	Keys   []string    `json:"-"`
	Subs   []string    `json:"-"`
	Types  []string    `json:"types"`
	Rounds int         `json:"rounds"`
	Act    int         `json:"act_types_per_pair"` // quick tier: operate on this many types per (table,key); all types are populated; 0 = all
	Stream int64       `json:"stream"`
	pairs  [][2]string // (table, key)
	bigN   int
}

type stepRec struct {
	N      int      `json:"n"`
	Op     string   `json:"op"`
	Target string   `json:"target"`
	Cmd    []string `json:"cmd,omitempty"`
	Reply  string   `json:"reply,omitempty"`
}

type world struct {
	spec    worldSpec
	s       sink
	lab     *smlab.Lab
	compact bool
	ts      int64
	uniq    int64
	prev    []ent
	removal map[tkey]string // last operation that removed the key
	kvVal   map[tkey]string
	univ    []tkey
	steps   int
	recent  []stepRec
	stopAt  int // replay: stop after this step (0 = run all)
	failed  int
	sigSeen map[string]int

	nontrivial map[string]struct{}
	counts     map[string]int64
	rel        map[[2]string]string
}

func (w *world) count(k string, n int64) { w.counts[k] += n }

func openWorld(s sink, scratch string, spec worldSpec) (*world, error) {
	dir := filepath.Join(scratch, fmt.Sprintf("w%d-%s-%s-%s", spec.ID, spec.Kind, spec.Engine, spec.Policy))
	// everything stays in the memtable: a pebble store that has flushed sstables re-reads index blocks on every Get
	// (the per-step full logical dump is thousands of Gets)
	l, err := smlab.Open(smlab.Opts{Engine: spec.Engine, ExpirePolicy: spec.Policy, Dir: dir, WriteBufferSize: 96 << 20, BlockCache: 64 << 20})
	if err != nil {
		return nil, err
	}
	w := &world{spec: spec, s: s, lab: l, compact: spec.Policy != "local_deletion", ts: tsBase + int64(spec.ID)*1e12,
		removal: map[tkey]string{}, kvVal: map[tkey]string{}, nontrivial: map[string]struct{}{}, counts: map[string]int64{}, rel: map[[2]string]string{}}
	w.prev = w.snapshot(nil)
	return w, nil
}

func (w *world) close() {
	for k, n := range w.counts {
		w.s.Count(k, n)
	}
	for fp := range w.nontrivial {
		w.s.Nontrivial(fp)
	}
	w.lab.Destroy()
}

func (w *world) nextVal() string {
	w.uniq++
	return fmt.Sprintf("v%d.%d", w.spec.ID, w.uniq)
}

func (w *world) nextTs() int64 {
	w.ts += 1e6
	return w.ts
}

func (w *world) present(k tkey) bool {
	return findEnt(w.prev, headKeyOf(k)) != nil
}

// ---- content of one collection (for the sub-key level checks) ----

func (w *world) content(k tkey) (map[string]string, []string) {
	db := w.lab.DB()
	tk := k.tk()
	m := map[string]string{}
	switch k.Type {
	case "hash":
		_, recs, _ := db.HGetAll(tk)
		for _, r := range recs {
			m[string(r.Rec.Key)] = string(r.Rec.Value)
		}
	case "set":
		ms, _ := db.SMembers(tk)
		for _, e := range ms {
			m[string(e)] = ""
		}
	case "zset":
		ps, _ := db.ZRange(tk, 0, -1)
		for _, p := range ps {
			m[string(p.Member)] = strconv.FormatFloat(p.Score, 'g', -1, 64)
		}
	case "list":
		es, _ := db.LRange(tk, 0, -1)
		out := make([]string, len(es))
		for i, e := range es {
			out[i] = string(e)
		}
		return nil, out
	}
	return m, nil
}

// ---- one step ----

type stepT struct {
	Op      string
	Targets []target
	Cmd     *smlab.Cmd
	API     func(w *world) error
	// expectations
	Removes     bool              // the target keys must be gone afterwards
	ExpectErr   bool              // the command must be refused and nothing may change
	CreatesMap  map[string]string // content if the (single) target was absent before
	CreatesList []string
}

type violationWitness struct {
	World  worldSpec `json:"world"`
	Tables []string  `json:"tables_q"`
	Keys   int       `json:"n_keys"`
	Step   int       `json:"step"`
	Op     string    `json:"op"`
	Target string    `json:"target"`
	Cmd    []string  `json:"cmd_q,omitempty"`
	Reply  string    `json:"reply,omitempty"`
	Offend string    `json:"offending"`
	Before string    `json:"before,omitempty"`
	After  string    `json:"after,omitempty"`
	Recent []stepRec `json:"recent_steps"`
	Replay string    `json:"replay_note"`
}

func (w *world) witness(st *stepT, reply, offend, before, after string) violationWitness {
	var tq []string
	for _, t := range w.spec.Tables {
		tq = append(tq, strconv.Quote(t))
	}
	vw := violationWitness{World: w.spec, Tables: tq, Keys: len(w.spec.Keys), Step: w.steps, Op: st.Op, Target: targetsString(st.Targets), Reply: reply,
		Offend: offend, Before: before, After: after, Recent: append([]stepRec{}, w.recent...),
		Replay: "worlds and steps are a function of (seed, tier, world id): --replay re-runs this world up to this step"}
	if st.Cmd != nil {
		vw.Cmd = smlab.QuoteArgs(clip(*st.Cmd))
	}
	return vw
}

func clip(c smlab.Cmd) smlab.Cmd {
	n := smlab.Cmd{}
	for _, a := range c.Args {
		if len(a) > 80 {
			a = append(append([]byte{}, a[:40]...), []byte(fmt.Sprintf("...(%d bytes)", len(a)))...)
		}
		n.Args = append(n.Args, a)
	}
	return n
}

func targetsString(ts []target) string {
	var p []string
	for _, t := range ts {
		s := t.tkey.String()
		if t.TableWide {
			s = "table " + qs(t.Table)
			if t.RangeFrom != nil || t.RangeTo != nil {
				s += fmt.Sprintf(" range [%s,%s)", qb(t.RangeFrom), qb(t.RangeTo))
			}
		}
		if t.Subs != nil {
			var q []string
			for _, x := range t.Subs {
				q = append(q, qs(x))
			}
			s += " subs=" + strings.Join(q, ",")
		}
		p = append(p, s)
	}
	return strings.Join(p, " + ")
}

func inRange(key string, from, to []byte) bool {
	if from != nil && bytes.Compare([]byte(key), from) < 0 {
		return false
	}
	if to != nil && bytes.Compare([]byte(key), to) >= 0 {
		return false
	}
	return true
}

// allowedOwner: may the step change an engine key that decodes to o?
func (st *stepT) allowedOwner(o owner) bool {
	for _, t := range st.Targets {
		if o.Table != t.Table {
			continue
		}
		if o.Kind == "counter" {
			return true
		}
		if t.TableWide {
			if o.Kind == "tableindex" || o.Kind == "unknown" {
				continue
			}
			if t.RangeFrom == nil && t.RangeTo == nil {
				return true
			}
			if inRange(o.Key, t.RangeFrom, t.RangeTo) {
				return true
			}
			continue
		}
		if o.Key != t.Key || o.Type == "" {
			continue
		}
		if o.Type != t.Type && !(t.AlsoKV && o.Type == "kv") {
			continue
		}
		if t.Subs != nil && o.HasSub && o.Type == t.Type {
			ok := false
			for _, s := range t.Subs {
				if s == o.Sub {
					ok = true
				}
			}
			if !ok {
				continue
			}
		}
		return true
	}
	return false
}

// kvOnly: every target is a plain KV key (the operations of the kv script).
func (st *stepT) kvOnly() bool {
	for _, t := range st.Targets {
		if t.TableWide || t.Type != "kv" || t.AlsoKV {
			return false
		}
	}
	return len(st.Targets) > 0 && !st.ExpectErr
}

func counterValue(v []byte) int64 {
	if len(v) != 8 {
		return 0
	}
	return int64(binary.LittleEndian.Uint64(v))
}

func (st *stepT) allowedLine(kind, table, key string) bool {
	for _, t := range st.Targets {
		if table != t.Table {
			continue
		}
		if kind == "counter" {
			return true
		}
		if t.TableWide {
			if kind == "tableindex" || kind == "other" {
				continue
			}
			if (t.RangeFrom == nil && t.RangeTo == nil) || inRange(key, t.RangeFrom, t.RangeTo) {
				return true
			}
			continue
		}
		if key == t.Key && (kind == t.Type || (t.AlsoKV && kind == "kv")) {
			return true
		}
	}
	return false
}

func (w *world) relOf(a, b string) string {
	k := [2]string{a, b}
	if r, ok := w.rel[k]; ok {
		return r
	}
	r := relClass(a, b)
	w.rel[k] = r
	return r
}

// doStep applies the step and runs all oracles. It returns false when the
// world should stop (replay target reached).
func (w *world) doStep(st *stepT) bool {
	w.steps++
	var subBefore []map[string]string
	for _, t := range st.Targets {
		if t.Subs != nil && !t.TableWide {
			m, _ := w.content(t.tkey)
			subBefore = append(subBefore, m)
		} else {
			subBefore = append(subBefore, nil)
		}
	}
	wasPresent := make([]bool, len(st.Targets))
	for i, t := range st.Targets {
		if !t.TableWide {
			wasPresent[i] = w.present(t.tkey)
		}
	}
	reply := ""
	isErr := false
	if st.Cmd != nil {
		r := w.lab.ApplyOne(w.nextTs(), *st.Cmd)
		reply = r.Canon()
		isErr = r.IsErr() || r.Kind == "rejected" || r.Kind == "unanswered"
		if len(reply) > 200 {
			reply = reply[:200] + "..."
		}
	} else if st.API != nil {
		if err := st.API(w); err != nil {
			reply = "-ERR(" + err.Error() + ")"
			isErr = true
		} else {
			reply = "ok"
		}
	}
	rec := stepRec{N: w.steps, Op: st.Op, Target: targetsString(st.Targets), Reply: reply}
	if st.Cmd != nil {
		rec.Cmd = smlab.QuoteArgs(clip(*st.Cmd))
	}
	w.recent = append(w.recent, rec)
	if len(w.recent) > 6 {
		w.recent = w.recent[1:]
	}
	cur := w.snapshot(w.prev)
	w.count("ops_by_family/"+st.Op, 1)
	if isErr {
		w.count("ops_refused", 1)
	}
	typeA := "table"
	if !st.Targets[0].TableWide {
		typeA = st.Targets[0].Type
	}

	// ---- raw + logical oracle over the merged before/after snapshots ----
	nB, nRaw := 0, 0
	t0 := st.Targets[0]
	// exact table bookkeeping (kv operations): per table, kv keys created - removed and the counter before/after
	type tblAcc struct {
		made, gone      int64
		cBefore, cAfter int64
		cTouched        bool
	}
	var tbl map[string]*tblAcc
	if st.kvOnly() {
		tbl = map[string]*tblAcc{}
	}
	acc := func(t string) *tblAcc {
		a := tbl[t]
		if a == nil {
			a = &tblAcc{}
			tbl[t] = a
		}
		return a
	}
	diffSnap(w.prev, cur, func(ch change, same bool) {
		var e *ent
		if ch.after != nil {
			e = ch.after
		} else {
			e = ch.before
		}
		o := w.ownerOf(e)
		if same {
			if e.HasL && o.Type != "" && !st.allowedOwner(*o) {
				nB++
				// evidence: which adversarial relation the untouched B has to A
				rel := ""
				switch {
				case o.Table != t0.Table:
					rel = "table:" + w.relOf(t0.Table, o.Table)
				case t0.TableWide:
					rel = "intable"
				case o.Key != t0.Key:
					rel = "key:" + w.relOf(t0.Key, o.Key)
				default:
					rel = "type"
				}
				if !strings.HasSuffix(rel, ":other") && !strings.HasSuffix(rel, ":other-len") {
					w.nontrivial[st.Op+"|"+typeA+"|"+o.Type+"|"+rel] = struct{}{}
				}
			}
			return
		}
		if tbl != nil && ch.rawChanged() && o.Err == "" {
			switch {
			case o.Kind == "kv" && ch.before == nil:
				acc(o.Table).made++
			case o.Kind == "kv" && ch.after == nil:
				acc(o.Table).gone++
			case o.Kind == "counter":
				a := acc(o.Table)
				a.cTouched = true
				if ch.before != nil {
					a.cBefore = counterValue(ch.before.V)
				}
				if ch.after != nil {
					a.cAfter = counterValue(ch.after.V)
				}
			}
		}
		if ch.rawChanged() {
			nRaw++
			w.count("raw_keys_decoded/"+o.Kind, 1)
			switch {
			case o.Panic:
				w.fail(st, "decoder-panic/"+o.Codec, reply, fmt.Sprintf("decoder panicked on engine key %q written by the real write path: %s", trunc(e.K, 120), o.Err), "", "")
			case w.compact && o.Type == "bitmap" && o.Kind == "elem" && strings.Contains(st.Op, "setbit") && o.Table == t0.Table && o.KeyPart == t0.Key:
				// BitSetV2 "convert old data to new": the segments of the legacy KV value are written
				// under the UNVERSIONED key (everything else under wait_compact embeds the versioned key)
				w.count("legacy_bitmap_conversion_unversioned_segments", 1)
				if o.HasVer {
					w.fail(st, "foreign-raw-key-touched/setbit-legacy-conversion", reply,
						fmt.Sprintf("SETBIT on %s converts the legacy KV value into segments under the unversioned key %s, which IS the versioned key of bitmap %s:%s version %d: engine key %q", t0.tkey, qs(t0.Key), qs(o.Table), qs(o.Key), o.Ver, trunc(e.K, 120)), "", "")
				}
			case o.Err != "" && !(o.Type == "bitmap" && strings.HasPrefix(o.Err, "unversioned")):
				w.fail(st, "codec-roundtrip/"+o.Codec, reply, fmt.Sprintf("engine key %q (%s by the step) does not decode: %s", trunc(e.K, 120), ch.how(), o.Err), "", "")
			case !st.allowedOwner(*o):
				var bv, av []byte
				if ch.before != nil {
					bv = ch.before.V
				}
				if ch.after != nil {
					av = ch.after.V
				}
				w.fail(st, "foreign-raw-key-touched/"+st.Op, reply,
					fmt.Sprintf("%s engine key %q decodes to [%s], not to the target", ch.how(), trunc(e.K, 120), o.String()),
					fmt.Sprintf("%q", trunc(bv, 120)), fmt.Sprintf("%q", trunc(av, 120)))
			}
		}
		if ch.logicalChanged() && o.Err == "" && !st.allowedOwner(*o) {
			kind := o.Type
			if kind == "" {
				kind = o.Kind
			}
			w.fail(st, "interference/"+st.Op+"/"+kind, reply,
				fmt.Sprintf("operation on [%s] changed what the read API returns for %s %s:%s (%s)", targetsString(st.Targets), kind, qs(o.Table), qs(o.Key), ch.how()), "", "")
		}
	})
	// the key counter of a table may change only by the number of keys of THAT table the operation created / removed.
	// (One command per apply batch here: the counter is documented as inexact only for batched commands.)
	for t, a := range tbl {
		w.count("table_counter_exact_checks", 1)
		if d := a.cAfter - a.cBefore; d != a.made-a.gone {
			w.fail(st, "table-counter-wrong/"+st.Op, reply,
				fmt.Sprintf("the operation created %d and removed %d kv keys of table %s, but the key counter of that table changed by %d (%d -> %d)", a.made, a.gone, qs(t), d, a.cBefore, a.cAfter), "", "")
		}
	}
	if st.ExpectErr && (nRaw > 0 || !isErr) {
		w.fail(st, "overlimit-accepted/"+st.Op, reply, fmt.Sprintf("over-limit name: reply %s, %d engine keys changed (must be refused without effect)", reply, nRaw), "", "")
	}
	w.count("pairs_evaluated", int64(nB))
	w.count("tuples_evaluated", 1)

	// ---- sub-key level (named fields / members only) ----
	for i, t := range st.Targets {
		if subBefore[i] == nil {
			continue
		}
		after, _ := w.content(t.tkey)
		named := map[string]bool{}
		for _, s := range t.Subs {
			named[s] = true
		}
		for f, v := range subBefore[i] {
			if named[f] {
				continue
			}
			if av, ok := after[f]; !ok || av != v {
				w.fail(st, "interference/"+st.Op+"/"+t.Type+"-subkey", reply,
					fmt.Sprintf("operation naming sub-keys %v of %s changed sub-key %s", quoteAll(t.Subs), t.tkey, qs(f)), clipS(v), clipS(av))
				break
			}
			w.count("subkey_pairs_evaluated", 1)
		}
		for f := range after {
			if _, ok := subBefore[i][f]; !ok && !named[f] {
				w.fail(st, "interference/"+st.Op+"/"+t.Type+"-subkey", reply,
					fmt.Sprintf("operation naming sub-keys %v of %s created sub-key %s", quoteAll(t.Subs), t.tkey, qs(f)), "", clipS(after[f]))
				break
			}
		}
	}

	// ---- range operations must remove everything they address ----
	if st.Removes && !isErr {
		for ti, t := range st.Targets {
			if !t.TableWide && !wasPresent[ti] {
				continue // nothing to remove: the key did not exist (for the read path) before the step
			}
			if t.TableWide {
				w.checkTableRemoved(st, t, cur, reply)
				for _, p := range w.spec.pairs {
					if p[0] == t.Table && ((t.RangeFrom == nil && t.RangeTo == nil) || inRange(p[1], t.RangeFrom, t.RangeTo)) {
						for _, typ := range w.spec.Types {
							w.removal[tkey{typ, p[0], p[1]}] = st.Op
						}
					}
				}
				continue
			}
			if he := findEnt(cur, headKeyOf(t.tkey)); he != nil {
				w.fail(st, "range-op-missed-key/"+st.Op, reply, fmt.Sprintf("%s is still there (head engine key %q) after %s", t.tkey, trunc(he.K, 120), st.Op), "", "")
			}
			left := 0
			var first string
			for i := range cur {
				kv := &cur[i]
				o := w.ownerOf(kv)
				if o.Table != t.Table || o.Key != t.Key || o.Type != t.Type {
					continue
				}
				switch o.Kind {
				case "exptime", "expmeta":
					w.count("expire_index_left_after_remove", 1)
					continue
				case "elem", "zscore":
					if w.compact {
						// wait_compact deletes only the meta key, old versions are left to compaction
						w.count("stale_version_elements_left_after_remove", 1)
						continue
					}
				}
				left++
				if first == "" {
					first = fmt.Sprintf("%q [%s]", trunc(kv.K, 120), o.String())
				}
			}
			if left > 0 {
				w.fail(st, "range-op-missed-key/"+st.Op, reply, fmt.Sprintf("%d engine keys of %s remain after %s, first: %s", left, t.tkey, st.Op, first), "", "")
			}
			w.removal[t.tkey] = st.Op
		}
	}

	// ---- a key created from nothing holds exactly what was written ----
	if len(st.Targets) == 1 && !isErr && !wasPresent[0] && (st.CreatesMap != nil || st.CreatesList != nil) {
		t := st.Targets[0]
		m, l := w.content(t.tkey)
		why := w.removal[t.tkey]
		sigc := "range-op-missed-key/" + why
		if why == "" {
			// never removed before: the fresh key shows content that was not written to it
			why = "never-existed"
			sigc = "interference/" + st.Op + "/" + t.Type + "-fresh-key-content"
		}
		if st.CreatesMap != nil && !sameMap(m, st.CreatesMap) {
			w.fail(st, sigc, reply, fmt.Sprintf("%s was absent (last removal: %s); after %s it holds %d elements, written %d", t.tkey, why, st.Op, len(m), len(st.CreatesMap)), fmt.Sprint(clipMap(st.CreatesMap)), fmt.Sprint(clipMap(m)))
		}
		if st.CreatesList != nil && !sameList(l, st.CreatesList) {
			w.fail(st, sigc, reply, fmt.Sprintf("%s was absent (last removal: %s); after %s it holds %d elements, written %d", t.tkey, why, st.Op, len(l), len(st.CreatesList)), "", "")
		}
		w.count("recreate_exact_checks", 1)
	}

	w.prev = cur
	w.s.Eval(1)
	return w.stopAt == 0 || w.steps < w.stopAt
}

func quoteAll(ss []string) []string {
	out := make([]string, len(ss))
	for i, s := range ss {
		out[i] = qs(s)
	}
	return out
}

func clipS(s string) string {
	if len(s) > 300 {
		return s[:150] + fmt.Sprintf("...(%d bytes)...", len(s)) + s[len(s)-100:]
	}
	return s
}

func clipMap(m map[string]string) map[string]string {
	out := map[string]string{}
	for k, v := range m {
		out[qs(k)] = clipS(v)
		if len(out) >= 8 {
			break
		}
	}
	return out
}

func sameMap(a, b map[string]string) bool {
	if len(a) != len(b) {
		return false
	}
	for k, v := range a {
		if bv, ok := b[k]; !ok || bv != v {
			return false
		}
	}
	return true
}

func sameList(a, b []string) bool {
	if len(a) != len(b) {
		return false
	}
	for i := range a {
		if a[i] != b[i] {
			return false
		}
	}
	return true
}

func (w *world) fail(st *stepT, sig, reply, summary, before, after string) {
	w.failed++
	if w.sigSeen == nil {
		w.sigSeen = map[string]int{}
	}
	w.sigSeen[sig]++
	if w.sigSeen[sig] > 2 || len(w.sigSeen) > 40 {
		w.s.Count("alarms_suppressed_in_world", 1)
		w.s.Count("alarms_by_signature/"+sig, 1)
		if os.Getenv("KEYLAB_VERBOSE") != "" { // development aid only
			fmt.Printf("  (suppressed) %s: [world %d step %d %s] %s\n", sig, w.spec.ID, w.steps, st.Op, summary)
		}
		return
	}
	w.s.Violation(sig, fmt.Sprintf("[world %d %s %s/%s step %d %s] %s", w.spec.ID, w.spec.Kind, w.spec.Engine, w.spec.Policy, w.steps, st.Op, summary),
		w.witness(st, reply, summary, before, after))
}

// checkTableRemoved: after a whole / partial table delete.
func (w *world) checkTableRemoved(st *stepT, t target, cur []ent, reply string) {
	whole := t.RangeFrom == nil && t.RangeTo == nil
	sigOp := st.Op
	// per key of the table: which kinds of engine keys are left
	type left struct {
		meta, elems int
		first       string
	}
	leftBy := map[tkey]*left{}
	for i := range cur {
		kv := &cur[i]
		o := w.ownerOf(kv)
		if o.Table != t.Table || o.Type == "" {
			if o.Table == t.Table && o.Kind == "counter" && whole {
				w.fail(st, "range-op-missed-key/"+sigOp+"/counter", reply, "the table key counter is left after a whole-table delete", "", fmt.Sprintf("%q", kv.K))
			}
			continue
		}
		if !whole && !inRange(o.Key, t.RangeFrom, t.RangeTo) {
			continue
		}
		if o.Kind == "exptime" || o.Kind == "expmeta" {
			w.count("expire_index_left_after_remove", 1)
			continue
		}
		k := tkey{o.Type, o.Table, o.Key}
		l := leftBy[k]
		if l == nil {
			l = &left{first: fmt.Sprintf("%q [%s]", trunc(kv.K, 120), o.String())}
			leftBy[k] = l
		}
		if o.Kind == "elem" || o.Kind == "zscore" {
			l.elems++
		} else {
			l.meta++
		}
	}
	// report once per type
	seenType := map[string]bool{}
	var ks []tkey
	for k := range leftBy {
		ks = append(ks, k)
	}
	sort.Slice(ks, func(i, j int) bool { return ks[i].String() < ks[j].String() })
	for _, k := range ks {
		l := leftBy[k]
		if l.meta == 0 && w.compact && !whole {
			// only elements without meta: what every clear leaves behind under wait_compact
			w.count("stale_version_elements_left_after_remove", int64(l.elems))
			continue
		}
		if seenType[k.Type] {
			continue
		}
		seenType[k.Type] = true
		w.fail(st, "range-op-missed-key/"+sigOp+"/"+k.Type, reply,
			fmt.Sprintf("after %s of %s: %s still has %d meta/value and %d element engine keys, first: %s", st.Op, targetsString([]target{t}), k, l.meta, l.elems, l.first), "", "")
	}
}

var _ = common.MaxKeySize
var _ = rr.KVType
