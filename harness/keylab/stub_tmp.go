package keylab

import "verif/harness/vc"

func runC13(c *vc.Ctx) error            { return nil }
func c12RaceChild(args []string) int    { return 0 }
func c13AsanChild(args []string) int    { return 0 }
func runC12RaceChild(c *vc.Ctx, s sink) {}
