package keylab

import (
	"encoding/json"
	"fmt"
	"io/ioutil"
	"math/rand"
	"os"
	"sort"
	"strconv"
	"strings"
	"sync"
	"time"

	"verif/harness/vc"
)

// keyAlphabetFixed: adversarial key names incl. the maximum legal lengths. A
// client key is "namespace:table:key" and the proposing node limits that to
// maxKey bytes: with namespace "default" and table "t" the longest key a
// client can write has maxKey-len("default:t:") bytes.
func keyAlphabetFixed(table string) []string {
	n := append([]string{""}, baseNames()...)
	maxClient := maxKey - len("default:") - len(table) - 1
	n = append(n, rep('L', 255), rep('L', 256), rep('K', maxClient), rep('K', maxClient-1)+"L", rep('K', maxClient-1))
	return n
}

func subAlphabetFixed() []string {
	n := append([]string{""}, baseNames()...)
	n = append(n, rep('l', 255), rep('l', 256), rep('k', maxSub), rep('k', maxSub-1)+"l")
	return n
}

type combo struct{ engine, policy string }

var combos = []combo{{"mem", "wait_compact"}, {"mem", "local_deletion"}, {"pebble", "wait_compact"}, {"pebble", "local_deletion"}}

// planWorlds: the list of worlds is a function of (seed, tier) only.
func planWorlds(seed int64, thorough bool) []worldSpec {
	var out []worldSpec
	id := 0
	nK, nT, nS, nM, rounds := 28, 18, 24, 2, 1
	actK, actT, actM := 3, 2, 1
	if thorough {
		nK, nT, nS, nM, rounds = 48, 44, 48, 3, 2
		actK, actT, actM = 0, 0, 0
	}
	add := func(kind string, c combo, f func(r *rand.Rand, sp *worldSpec)) {
		id++
		sp := worldSpec{ID: id, Kind: kind, Engine: c.engine, Policy: c.policy, Types: allTypes, Rounds: rounds, Stream: int64(id)}
		r := rand.New(rand.NewSource(seed*1000003 + int64(id)*7919 + 29))
		f(r, &sp)
		out = append(out, sp)
	}
	for _, c := range combos {
		// K: one table (plus two decoy tables), the key alphabet
		add("K", c, func(r *rand.Rand, sp *worldSpec) {
			sp.Tables = []string{"t", "t1", "s"}
			sp.Act = actK
			sp.Rounds = 1 // one round already applies every operation family to every tuple (exhaustive pairs)
			sp.Keys = pickAlphabet(r, keyAlphabetFixed("t"), nK, true, true)
			sp.Subs = []string{"a", "a:", ""}
			for _, k := range sp.Keys {
				sp.pairs = append(sp.pairs, [2]string{"t", k})
			}
			sp.pairs = append(sp.pairs, [2]string{"t1", "a"}, [2]string{"t1", "a:"}, [2]string{"s", "a"}, [2]string{"s", ":a"})
		})
		// T: the table alphabet, two keys per table
		add("T", c, func(r *rand.Rand, sp *worldSpec) {
			sp.Tables = pickAlphabet(r, tableNames(), nT, false, false)
			sp.Act = actT
			sp.Rounds = 1
			sp.Keys = []string{"a", "a:b"}
			sp.Subs = []string{"a", "a:", "\x00"}
			for _, t := range sp.Tables {
				for _, k := range sp.Keys {
					sp.pairs = append(sp.pairs, [2]string{t, k})
				}
			}
		})
		// S: the sub-key alphabet inside two neighbouring collections per type
		add("S", c, func(r *rand.Rand, sp *worldSpec) {
			sp.Tables = []string{"t"}
			sp.Keys = []string{"a", "aa", "a:"}
			sp.Subs = pickAlphabet(r, subAlphabetFixed(), nS, true, true)
			for _, k := range sp.Keys {
				sp.pairs = append(sp.pairs, [2]string{"t", k})
			}
		})
		for i := 0; i < nM; i++ {
			// M: random mix of hostile tables, keys and sub-keys
			add("M", c, func(r *rand.Rand, sp *worldSpec) {
				sp.Tables = pickAlphabet(r, tableNames(), 5, false, false)
				sp.Act = actM
				sp.Keys = pickAlphabet(r, keyAlphabetFixed("tttttttttttt"), 7, true, true)
				sp.Subs = pickAlphabet(r, subAlphabetFixed(), 4, true, true)
				for _, t := range sp.Tables {
					for _, k := range sp.Keys {
						if len(t)+len(k) < maxKey-16 {
							sp.pairs = append(sp.pairs, [2]string{t, k})
						}
					}
				}
			})
		}
		// TABLE: whole and partial table deletes
		add("TABLE", c, func(r *rand.Rand, sp *worldSpec) {
			n := 10
			if thorough {
				n = 30
			}
			sp.Tables = pickAlphabet(r, tableNames(), n, false, false)
			sp.Keys = []string{"a", "aa", "b", "c", "kkkkkkkkkk", rep('x', 42)}
			sp.Subs = []string{"a", "a:", "b"}
			for _, t := range sp.Tables {
				for _, k := range sp.Keys {
					sp.pairs = append(sp.pairs, [2]string{t, k})
				}
			}
		})
		// BIG: collections above RangeDeleteNum (the DeleteRange paths of the clears)
		if thorough || c.engine == "mem" {
			add("BIG", c, func(r *rand.Rand, sp *worldSpec) {
				sp.Tables = []string{"t", "t1"}
				sp.Keys = []string{"a", "a:", "a;", "a\x00", "aa", "b", "\x00a", "a9", "\x00\x01a"}
				sp.Subs = []string{"a", "a:", "f02500"}
				sp.Types = []string{"hash", "list", "set", "zset", "bitmap"}
				sp.bigN = 5003
				for _, k := range sp.Keys {
					sp.pairs = append(sp.pairs, [2]string{"t", k})
				}
				sp.pairs = append(sp.pairs, [2]string{"t1", "a"})
			})
		}
	}
	return out
}

func (w *world) universe() []tkey {
	var out []tkey
	for _, p := range w.spec.pairs {
		for _, t := range w.spec.Types {
			out = append(out, tkey{t, p[0], p[1]})
		}
	}
	return out
}

// acts: in the quick tier only Act of the types of every (table, key) pair are
// operated on (all are populated and observed); the choice rotates with the pair.
func (w *world) acts(univIdx int) bool {
	if w.spec.Act <= 0 {
		return true
	}
	nt := len(w.spec.Types)
	pair, typ := univIdx/nt, univIdx%nt
	return ((typ-pair*3-w.spec.ID)%nt+nt)%nt < w.spec.Act
}

// multiTableKeys: a, its same-table partner, then one key of each of up to
// two OTHER tables of the world (same type), deterministic in a.
func (w *world) multiTableKeys(a, partner tkey) []tkey {
	ks := []tkey{a}
	if partner != a && partner.Table == a.Table {
		ks = append(ks, partner)
	}
	if w.univ == nil {
		w.univ = w.universe()
	}
	start := 0
	for i, k := range w.univ {
		if k == a {
			start = i
			break
		}
	}
	seen := map[string]bool{a.Table: true}
	for d := 1; d < len(w.univ) && len(seen) < 3; d++ {
		b := w.univ[(start+d)%len(w.univ)]
		if b.Type == a.Type && !seen[b.Table] {
			seen[b.Table] = true
			ks = append(ks, b)
		}
	}
	if len(seen) > 1 {
		w.count("multi_table_batches", 1)
	}
	return ks
}

func partnerOf(univ []tkey, i int) tkey {
	a := univ[i]
	for d := 1; d < len(univ); d++ {
		b := univ[(i+d)%len(univ)]
		if b.Type == a.Type && b.Table == a.Table && b.Key != a.Key {
			return b
		}
	}
	for d := 1; d < len(univ); d++ {
		b := univ[(i+d)%len(univ)]
		if b.Type == a.Type && b != a {
			return b
		}
	}
	return a
}

// run executes the whole plan of the world.
func (w *world) run() {
	r := rand.New(rand.NewSource(int64(w.spec.ID)*104729 + 5))
	univ := w.universe()
	step := func(st *stepT) bool { return w.doStep(st) }
	// population: every tuple is created by a checked step
	for i, a := range univ {
		if !step(w.buildOp(r, createOp[a.Type], a, partnerOf(univ, i), nil)) {
			return
		}
	}
	switch w.spec.Kind {
	case "K", "T", "M":
		for round := 0; round < w.spec.Rounds; round++ {
			for _, i := range r.Perm(len(univ)) {
				a := univ[i]
				if !w.acts(i) {
					continue
				}
				for _, op := range scripts[a.Type] {
					if !step(w.buildOp(r, op, a, partnerOf(univ, i), nil)) {
						return
					}
				}
			}
			for _, st := range w.overLimitSteps(w.spec.Tables[0]) {
				if !step(st) {
					return
				}
			}
		}
	case "S":
		for round := 0; round < w.spec.Rounds; round++ {
			for _, i := range r.Perm(len(univ)) {
				a := univ[i]
				ss, ok := subScripts[a.Type]
				if !ok {
					continue
				}
				// first fill the collection with the whole sub-key alphabet
				for _, sub := range w.spec.Subs {
					if !step(w.buildOp(r, ss[0], a, a, []string{sub})) {
						return
					}
				}
				for _, si := range r.Perm(len(w.spec.Subs)) {
					for _, op := range ss[1:] {
						if !step(w.buildOp(r, op, a, a, []string{w.spec.Subs[si]})) {
							return
						}
					}
				}
				// whole-collection operations with the full alphabet inside
				for _, op := range scripts[a.Type] {
					if !step(w.buildOp(r, op, a, partnerOf(univ, i), nil)) {
						return
					}
				}
			}
		}
	case "TABLE":
		w.runTable(r, univ)
	case "BIG":
		w.runBig(r, univ)
	}
}

func (w *world) runTable(r *rand.Rand, univ []tkey) {
	tables := w.spec.Tables
	apiDelete := func(table string, from, to []byte) *stepT {
		op := "DeleteTableRange"
		if from != nil || to != nil {
			op = "DeleteTableRange-partial"
		}
		return &stepT{Op: op, Targets: []target{{tkey: tkey{Table: table}, TableWide: true, RangeFrom: from, RangeTo: to}}, Removes: true,
			API: func(w *world) error { return w.lab.DB().DeleteTableRange(false, table, from, to) }}
	}
	// give some keys a TTL first (expire-index records under local_deletion)
	for i, a := range univ {
		if i%5 == 0 {
			exp := map[string]string{"kv": "expire", "hash": "hexpire", "list": "lexpire", "set": "sexpire", "zset": "zexpire", "bitmap": "bexpire"}[a.Type]
			if exp != "" {
				if !w.doStep(w.buildOp(r, exp, a, a, nil)) {
					return
				}
			}
		}
	}
	partial := [][2][]byte{
		{[]byte("a"), []byte("b")},
		{[]byte("aa"), []byte("c")},
		{nil, []byte("b")},
		{[]byte("b"), nil},
		{[]byte(rep('w', 40)), []byte(rep('y', 50))},
		{[]byte("a"), []byte("bb")},
	}
	for i, t := range tables {
		var st *stepT
		if i < len(partial) && i < len(tables)/2 {
			st = apiDelete(t, partial[i][0], partial[i][1])
		} else {
			st = apiDelete(t, nil, nil)
		}
		if !w.doStep(st) {
			return
		}
	}
	// the tables can be re-created afterwards
	for i, a := range univ {
		if i%3 == 0 {
			if !w.doStep(w.buildOp(r, createOp[a.Type], a, a, nil)) {
				return
			}
		}
	}
}

func (w *world) runBig(r *rand.Rand, univ []tkey) {
	n := w.spec.bigN
	big := func(typ string) tkey { return tkey{typ, "t", "a"} }
	names := make([]string, n)
	for i := range names {
		names[i] = fmt.Sprintf("f%05d", i)
	}
	chunk := 2400
	grow := func(a tkey) bool {
		for off := 0; off < n; off += chunk {
			end := off + chunk
			if end > n {
				end = n
			}
			var args []string
			name := ""
			switch a.Type {
			case "hash":
				name = "hmset"
				for _, f := range names[off:end] {
					args = append(args, f, w.nextVal())
				}
			case "set":
				name = "sadd"
				args = append(args, names[off:end]...)
			case "zset":
				name = "zadd"
				for i, f := range names[off:end] {
					args = append(args, strconv.Itoa(off+i), f)
				}
			case "list":
				name = "rpush"
				for range names[off:end] {
					args = append(args, "e")
				}
			}
			if !w.doStep(&stepT{Op: "grow-" + name, Targets: []target{{tkey: a}}, Cmd: w.cmd(name, a, args...)}) {
				return false
			}
		}
		return true
	}
	for _, typ := range []string{"hash", "set", "zset", "list"} {
		a := big(typ)
		clear := map[string]string{"hash": "hclear", "set": "sclear", "zset": "zclear", "list": "lclear"}[typ]
		if !grow(a) {
			return
		}
		st := w.buildOp(r, clear, a, a, nil)
		st.Op = clear + "-big"
		if !w.doStep(st) {
			return
		}
		// re-create: nothing of the old content may come back
		if !w.doStep(w.buildOp(r, createOp[typ], a, a, nil)) {
			return
		}
		if typ == "list" {
			if !grow(a) {
				return
			}
			// head trim and tail trim above RangeDeleteNum (DeleteRange paths of ltrim)
			if !w.doStep(&stepT{Op: "ltrim-big-head", Targets: []target{{tkey: a}}, Cmd: w.cmd("ltrim", a, "5001", "-1")}) {
				return
			}
			if !grow(a) {
				return
			}
			if !w.doStep(&stepT{Op: "ltrim-big-tail", Targets: []target{{tkey: a}}, Cmd: w.cmd("ltrim", a, "0", "0")}) {
				return
			}
		}
		if typ == "zset" {
			if !grow(a) {
				return
			}
			if !w.doStep(&stepT{Op: "zremrangebyrank-big", Targets: []target{{tkey: a}}, Cmd: w.cmd("zremrangebyrank", a, "0", "4000")}) {
				return
			}
			if !w.doStep(&stepT{Op: "zremrangebyscore-big", Targets: []target{{tkey: a}}, Cmd: w.cmd("zremrangebyscore", a, "-inf", "+inf"), Removes: true}) {
				return
			}
		}
	}
	// bitmap: size above RangeDeleteNum segments (storage level only: the proposing node limits the offset to 16 Mbit)
	a := big("bitmap")
	if !w.doStep(&stepT{Op: "grow-setbit", Targets: []target{{tkey: a, AlsoKV: true}}, Cmd: w.cmd("setbitv2", a, strconv.Itoa(5002*8192+7), "1")}) {
		return
	}
	st := w.buildOp(r, "bitclear", a, a, nil)
	st.Op = "bitclear-big"
	if !w.doStep(st) {
		return
	}
	w.doStep(w.buildOp(r, "setbit", a, a, nil))
}

// ---------------------------------------------------------------------------

func runInterference(c *vc.Ctx, s sink) error {
	specs := planWorlds(c.Seed, c.Thorough())
	if only := os.Getenv("KEYLAB_ONLY_WORLDS"); only != "" { // development aid only
		var sel []worldSpec
		for _, sp := range specs {
			for _, f := range strings.Split(only, ",") {
				if f == strconv.Itoa(sp.ID) || f == sp.Kind {
					sel = append(sel, sp)
					break
				}
			}
		}
		specs = sel
	}
	var mu sync.Mutex
	var firstErr error
	kinds := map[string]int{}
	for _, sp := range specs {
		kinds[sp.Kind+"/"+sp.Engine+"/"+sp.Policy]++
	}
	// long worlds first
	order := make([]int, len(specs))
	for i := range order {
		order[i] = i
	}
	weight := map[string]int{"K": 5, "S": 4, "T": 4, "BIG": 3, "M": 2, "TABLE": 1}
	sort.SliceStable(order, func(i, j int) bool { return weight[specs[order[i]].Kind] > weight[specs[order[j]].Kind] })
	c.ParallelFor(len(specs), func(i int) {
		sp := specs[order[i]]
		w, err := openWorld(s, c.Scratch, sp)
		if err != nil {
			mu.Lock()
			if firstErr == nil {
				firstErr = fmt.Errorf("world %d: %v", sp.ID, err)
			}
			mu.Unlock()
			return
		}
		if ms, err := strconv.Atoi(os.Getenv("KEYLAB_MAX_STEPS")); err == nil && ms > 0 { // development aid only
			w.stopAt = ms
		}
		t0 := time.Now()
		w.run()
		steps := w.steps
		if sp.Kind != "BIG" {
			s.Sample(8, map[string]interface{}{"world": sp, "last_steps": w.recent})
		}
		w.close()
		mu.Lock()
		fmt.Printf("  world %2d %-5s %-6s %-14s tables=%d keys=%d subs=%d steps=%d alarms=%d %.1fs\n", sp.ID, sp.Kind, sp.Engine, sp.Policy, len(sp.Tables), len(sp.Keys), len(sp.Subs), steps, w.failed, time.Since(t0).Seconds())
		mu.Unlock()
		s.Count("worlds/"+sp.Kind, 1)
		s.Max("alphabet_max/"+sp.Kind+"/tables", int64(len(sp.Tables)))
		s.Max("alphabet_max/"+sp.Kind+"/keys", int64(len(sp.Keys)))
		s.Max("alphabet_max/"+sp.Kind+"/subkeys", int64(len(sp.Subs)))
	})
	return firstErr
}

func finishC12Evidence(c *vc.Ctx) {
	c.Ev.Rule = "Behavioural part: worlds = real state machines (engines mem, pebble x expire policies wait_compact, local_deletion) populated with ALL " +
		"(type x table x key x sub-key) tuples of a small universe whose names come from an adversarial alphabet (prefixes of each other, ':' ';' '9', bytes equal to " +
		"2-byte length prefixes, 0x00/0xff, 8-byte memcmp group boundary, 'meta:' prefix, versioned-key look-alikes, empty, maximum legal lengths); a case = ONE write " +
		"(every write command family, clears, *MCLEAR, multi-key DEL/MSET/PLSET, EXPIRE/PERSIST, DeleteTableRange whole/partial) on target A followed by a full raw + logical " +
		"dump diff against ALL other tuples B of the world (K worlds: key alphabet in one table; T: table alphabet; S: sub-key alphabet inside neighbouring collections; " +
		"M: random mixes; BIG: collections above RangeDeleteNum; TABLE: table deletes). evaluations = steps + codec universes. A case is non-trivial when an unchanged B " +
		"exists that is adjacent to A in the adversarial sense (shares a prefix, differs by a separator / last byte +-1 / 0x00 / 0xff, or is the same name under another type); " +
		"distinct = distinct (operation family, type of A, type of B, relation class). Codec part: decode(encode(x))==x, alias encoders, injectivity over the union of all key " +
		"kinds in one engine key space, range containment for every range helper, element order, memcomparable round trip + order over ([]byte,int64,float64) tuples."
	c.Ev.Set("exhaustive_pairs", c.Thorough())
	c.Ev.Assume("engines mem and pebble only (RocksDB cannot run here, DESIGN section 4)")
	c.Ev.Assume("SETBIT on a name that holds a legacy KV-format bitmap/string migrates (and deletes) the KV value by design (BitSetV2 'convert old data to new'): a bitmap write may change the kv tuple of the SAME table:key")
	c.Ev.Assume("under wait_compact a clear deletes only the meta key; element keys of the old version stay until compaction: they must decode to the cleared key itself and must not come back after re-creation")
	c.Ev.Assume("expire-index records (local_deletion) are not removed by DEL/clear/table delete (policy behaviour shared with overwrites); counted, not alarmed")
	c.Ev.Assume("*MCLEAR and bitmap sizes above 16 Mbit are storage-level only (no client entry point); NaN scores/floats: no documented order, not demanded")
	c.Ev.Assume("names longer than the limits are refused by the proposing node; the check exercises the storage layer's own limit checks (table:key for KV, key without table for collections)")
}

// ---- replay ----

type replayDoc struct {
	Seed      int64  `json:"seed"`
	Tier      string `json:"tier"`
	Signature string `json:"signature"`
	Witness   struct {
		World struct {
			ID int `json:"id"`
		} `json:"world"`
		Step  int    `json:"step"`
		Codec string `json:"codec"`
	} `json:"witness"`
}

func replayC12(c *vc.Ctx, s sink) error {
	b, err := ioutil.ReadFile(c.Replay)
	if err != nil {
		return err
	}
	var d replayDoc
	if err := json.Unmarshal(b, &d); err != nil {
		return err
	}
	if d.Witness.World.ID == 0 {
		fmt.Printf("replay: codec witness (%s): re-running the codec identities for seed %d tier %s\n", d.Signature, d.Seed, d.Tier)
		runCodecIdentities(s, d.Seed, d.Tier == "thorough")
		return nil
	}
	for _, sp := range planWorlds(d.Seed, d.Tier == "thorough") {
		if sp.ID != d.Witness.World.ID {
			continue
		}
		fmt.Printf("replay: world %d (%s %s/%s) up to step %d\n", sp.ID, sp.Kind, sp.Engine, sp.Policy, d.Witness.Step)
		w, err := openWorld(s, c.Scratch, sp)
		if err != nil {
			return err
		}
		w.stopAt = d.Witness.Step
		w.run()
		w.close()
		return nil
	}
	return fmt.Errorf("replay: world %d not in the plan of seed %d tier %s", d.Witness.World.ID, d.Seed, d.Tier)
}
