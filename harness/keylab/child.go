package keylab

import (
	"bytes"
	"fmt"
	"io/ioutil"
	"os"
	"os/exec"
	"path/filepath"
	"strconv"
	"strings"
	"sync"

	"verif/harness/smlab"
	"verif/harness/vc"
)

// Sanitizer children.
//
// C12 thorough: the codec identities, the decoder fuzz and a reduced set of
// behavioural worlds run a second time in a child built with -race, i.e. with
// checkptr instrumentation: a bad unsafe conversion on an adversarial length
// is a process-fatal "fatal error: checkptr", which the parent reports.
// C13 thorough: the pebble scan chains run a second time in a child built with
// -asan (pebble hands out C-allocated memory; iterator lifetimes).

func runSanitizerChild(c *vc.Ctx, s sink, variant, child, prefix string, extraArgs ...string) {
	bin := vc.VariantBinary(variant)
	if _, err := os.Stat(bin); err != nil {
		c.Ev.Set(prefix+"_child", "not run: "+bin+" missing (run through ./check)")
		fmt.Printf("  %s child not run: %s missing\n", variant, bin)
		return
	}
	scratch := filepath.Join(c.Scratch, prefix+"-child")
	os.MkdirAll(scratch, 0755)
	args := append([]string{"--child", child, strconv.FormatInt(c.Seed, 10), c.Tier, scratch}, extraArgs...)
	cmd := exec.Command(bin, args...)
	cmd.Env = append(os.Environ(),
		"GORACE=halt_on_error=0 log_path="+filepath.Join(scratch, "race"),
		"ASAN_OPTIONS=detect_leaks=0:halt_on_error=1:log_path="+filepath.Join(scratch, "asan"),
		"VERIF_WORKERS="+strconv.Itoa(c.Workers))
	var stderr bytes.Buffer
	cmd.Stderr = &stderr
	out, err := cmd.StdoutPipe()
	if err != nil {
		c.Inconclusive(prefix + " child: " + err.Error())
		return
	}
	if err := cmd.Start(); err != nil {
		c.Inconclusive(prefix + " child: " + err.Error())
		return
	}
	lines, done, other := replayChildLines(out, s, prefix)
	werr := cmd.Wait()
	c.Ev.Count(prefix+"_child/protocol_lines", int64(lines))
	se := stderr.String()
	// sanitizer reports
	files, _ := filepath.Glob(filepath.Join(scratch, "race*"))
	nRace := 0
	var firstRace string
	for _, f := range files {
		b, _ := ioutil.ReadFile(f)
		n := strings.Count(string(b), "WARNING: DATA RACE")
		nRace += n
		if n > 0 && firstRace == "" {
			firstRace = clipS(string(b))
		}
	}
	nRace += strings.Count(se, "WARNING: DATA RACE")
	c.Ev.Count(prefix+"_child/race_reports", int64(nRace))
	if nRace > 0 {
		// the workload is single-threaded per store; a report involves background goroutines of the
		// store (not the key mapping): listed, decided by the properties that own those mechanisms
		c.Ev.Set(prefix+"_child/first_race_report", firstRace)
	}
	asanFiles, _ := filepath.Glob(filepath.Join(scratch, "asan*"))
	fatal := ""
	for _, pat := range []string{"fatal error: checkptr", "fatal error:", "ERROR: AddressSanitizer", "panic:"} {
		if i := strings.Index(se, pat); i >= 0 {
			fatal = se[i:]
			break
		}
	}
	for _, f := range asanFiles {
		b, _ := ioutil.ReadFile(f)
		if strings.Contains(string(b), "ERROR: AddressSanitizer") {
			fatal = string(b)
		}
	}
	if len(fatal) > 6000 {
		fatal = fatal[:6000]
	}
	switch {
	case fatal != "":
		sig := "child-crash/" + variant
		if strings.Contains(fatal, "checkptr") {
			sig = "checkptr/" + firstRepoFrame(fatal)
		} else if strings.Contains(fatal, "AddressSanitizer") {
			sig = "asan/" + firstRepoFrame(fatal)
		}
		s.Violation(sig, fmt.Sprintf("%s child died: %s", variant, strings.SplitN(fatal, "\n", 2)[0]),
			map[string]interface{}{"variant": variant, "child": child, "args": args, "stderr": fatal, "last_stdout": tail(other, 20)})
	case werr != nil || !done:
		c.Inconclusive(fmt.Sprintf("%s child ended without result (err=%v done=%v): %s", prefix, werr, done, clipS(se)))
	default:
		c.Ev.Set(prefix+"_child", "completed under -"+variant)
	}
}

func tail(ss []string, n int) []string {
	if len(ss) > n {
		return ss[len(ss)-n:]
	}
	return ss
}

func firstRepoFrame(trace string) string {
	for _, ln := range strings.Split(trace, "\n") {
		ln = strings.TrimSpace(ln)
		if i := strings.Index(ln, "github.com/youzan/ZanRedisDB/"); i >= 0 {
			f := ln[i+len("github.com/youzan/ZanRedisDB/"):]
			if j := strings.IndexAny(f, "( \t"); j > 0 {
				f = f[:j]
			}
			return f
		}
	}
	return "unknown-frame"
}

func runC12RaceChild(c *vc.Ctx, s sink) {
	fmt.Printf("C12 %s seed=%d: -race (checkptr) child\n", c.Tier, c.Seed)
	runSanitizerChild(c, s, "race", "c12-race", "race")
}

// c12RaceChild: vcheck-race --child c12-race <seed> <tier> <scratch>
func c12RaceChild(args []string) int {
	if len(args) < 3 {
		fmt.Fprintln(os.Stderr, "usage: --child c12-race <seed> <tier> <scratch>")
		return 2
	}
	seed, _ := strconv.ParseInt(args[0], 10, 64)
	scratch := args[2]
	smlab.QuietLogs(scratch)
	s := newLineSink(os.Stdout)
	// codec identities on the quick-tier universe (the race build is ~10x slower)
	runCodecIdentities(s, seed, false)
	// reduced behavioural worlds: one of each kind, alternating engines and policies
	var specs []worldSpec
	seen := map[string]bool{}
	for _, sp := range planWorlds(seed, false) {
		pick := map[string]string{"K": "mem/wait_compact", "S": "pebble/local_deletion", "M": "pebble/wait_compact", "T": "mem/local_deletion", "BIG": "mem/local_deletion"}
		if pick[sp.Kind] == sp.Engine+"/"+sp.Policy && !seen[sp.Kind] {
			seen[sp.Kind] = true
			specs = append(specs, sp)
		}
	}
	var wg sync.WaitGroup
	for _, sp := range specs {
		wg.Add(1)
		go func(sp worldSpec) {
			defer wg.Done()
			w, err := openWorld(s, scratch, sp)
			if err != nil {
				s.Progress("world %d: %v", sp.ID, err)
				return
			}
			w.run()
			steps := w.steps
			w.close()
			s.Progress("world %d %s %s/%s steps=%d alarms=%d", sp.ID, sp.Kind, sp.Engine, sp.Policy, steps, w.failed)
		}(sp)
	}
	wg.Wait()
	childDone()
	return 0
}
