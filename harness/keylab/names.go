// Package keylab (checks C12 and C13) observes the REAL key mapping of
// ZanRedisDB under hostile names: behavioural non-interference between
// (type, table, key, sub-key) tuples on the real state machine (through smlab),
// direct identities of the exported key codecs and of the order-preserving
// composite codec, and exactly-once cursor scans through the real node
// handlers. See DESIGN.md section 3, C12 and C13.
package keylab

import (
	"bytes"
	"fmt"
	"math/rand"
	"strings"

	"github.com/youzan/ZanRedisDB/common"
	"github.com/youzan/ZanRedisDB/rockredis"
)

// maxKey is common.MaxKeySize (10240): limit of "table:key" for KV and of the
// key without table for collections; the proposing node limits
// "namespace:table:key" to the same number.
var maxKey = common.MaxKeySize
var maxSub = common.MaxSubKeyLen

func rep(b byte, n int) string { return strings.Repeat(string([]byte{b}), n) }

// verKeyLook is a name that is byte-identical to the versioned form of another
// name (what the wait-compact policy embeds in element keys).
func verKeyLook(rk string, ver int64) string {
	return string(rockredis.VerifEncodeVerKey([]byte(rk), ver))
}

// baseNames is the adversarial alphabet used for keys and sub-keys (fields,
// members). Every name is there for a reason:
//
//	prefixes of each other, the ':' separator (table/key/sub-key separator,
//	start separator of ranges), ';' (= ':'+1, the stop separator), '9' (= ':'-1,
//	the zset "min score" separator), bytes that look like 2-byte length prefixes,
//	0x00 / 0xff (memcmp padding and marker bytes), the 8-byte group boundary of
//	the memcomparable codec, the "meta:" prefix of meta keys, type bytes, names
//	equal to the versioned encoding of another name.
func baseNames() []string {
	n := []string{
		"a", "b", "aa", "ab", "a:", "a:b", ":a", ":", "::", "a;", ";", "a;b", "a9", "9",
		"\x00", "\x00\x00", "\x01", "\x00\x01", "\x00\x01a", "\x00\x02ab", "\x02",
		"\xff", "\xff\xff", "a\xff", "a\x00", "a\x00b", "\x00a", "a:\x00", "a:\xff",
		"meta:", "meta:a", "t:a", "a:meta:b", "\x15", "\x16t:a",
		"aaaaaaa", "aaaaaaaa", "aaaaaaaaa", "a\x00\x00\x00\x00\x00\x00\x00", "aaaaaaaa\xff",
		"\x00\x00\x00\x00\x00\x00\x00\x00\xf7",
		verKeyLook("a", 0), verKeyLook("a", 1),
	}
	return n
}

// longNames: names at the length limits (made distinct by their first byte).
func longNames() []string {
	return []string{
		rep('L', 255), rep('L', 256), rep('L', 257),
		rep('M', 65535%maxKey), // 4095: second byte of the 16-bit length non-trivial
		rep('K', maxKey-10),    // near the limit
	}
}

// tableNames is the adversarial alphabet for tables: like baseNames but
// without ':' (a client key is split at the FIRST ':' so a table can never
// contain one) and non-empty.
func tableNames() []string {
	var out []string
	seen := map[string]bool{}
	add := func(s string) {
		if s == "" || strings.IndexByte(s, ':') >= 0 || seen[s] {
			return
		}
		seen[s] = true
		out = append(out, s)
	}
	for _, s := range []string{"t", "t1", "tt", "s", "u", "t;", "t9", "t\x00", "t\xff", "T", "meta", "meta;", "\x00t", "\x01", "\x00\x01t"} {
		add(s)
	}
	for _, s := range baseNames() {
		add(s)
	}
	add(rep('t', 254))
	add(rep('t', 255))
	add(rep('t', 256))
	return out
}

// randName produces a random hostile name from the byte classes that matter.
func randName(r *rand.Rand, maxLen int, allowColon bool) string {
	classes := []byte{':', ';', '9', 0x00, 0x01, 0x02, 0xff, 0xfe, 'a', 'b', 't', 0x15, 0x16, 0x17, 0xf7}
	n := 1 + r.Intn(maxLen)
	b := make([]byte, n)
	for i := range b {
		c := classes[r.Intn(len(classes))]
		if c == ':' && !allowColon {
			c = ';'
		}
		b[i] = c
	}
	return string(b)
}

// pickAlphabet returns n distinct names: the fixed adversarial names first (in
// a seed-dependent order beyond the first `keep`), topped up with random
// hostile names.
func pickAlphabet(r *rand.Rand, fixed []string, n int, allowColon bool, allowEmpty bool) []string {
	seen := map[string]bool{}
	var out []string
	add := func(s string) bool {
		if seen[s] || (s == "" && !allowEmpty) || (!allowColon && strings.IndexByte(s, ':') >= 0) {
			return false
		}
		seen[s] = true
		out = append(out, s)
		return true
	}
	idx := r.Perm(len(fixed))
	for _, i := range idx {
		if len(out) >= n {
			break
		}
		add(fixed[i])
	}
	for len(out) < n {
		add(randName(r, 12, allowColon))
	}
	return out
}

func qs(s string) string {
	if len(s) > 48 {
		return fmt.Sprintf("%q...(%d bytes)", s[:16], len(s))
	}
	return fmt.Sprintf("%q", s)
}

func qb(b []byte) string { return qs(string(b)) }

// adjacency classes of two names (used for evidence fingerprints): which
// adversarial relation holds between a and b.
func relClass(a, b string) string {
	switch {
	case a == b:
		return "same"
	case strings.HasPrefix(b, a) || strings.HasPrefix(a, b):
		if len(a) != len(b) {
			x, y := a, b
			if len(x) > len(y) {
				x, y = y, x
			}
			switch y[len(x)] {
			case ':':
				return "prefix+sep"
			case ';':
				return "prefix+stopsep"
			case 0x00:
				return "prefix+00"
			case 0xff:
				return "prefix+ff"
			}
		}
		return "prefix"
	case len(a) == len(b) && len(a) > 0 && a[:len(a)-1] == b[:len(b)-1]:
		d := int(a[len(a)-1]) - int(b[len(b)-1])
		if d == 1 || d == -1 {
			return "lastbyte+-1"
		}
		return "lastbyte"
	case bytes.IndexByte([]byte(a), ':') >= 0 || bytes.IndexByte([]byte(b), ':') >= 0:
		return "sep-inside"
	case len(a) != len(b):
		return "other-len"
	}
	return "other"
}

func nameClass(s string) string {
	switch {
	case s == "":
		return "empty"
	case len(s) >= 255:
		return "long"
	case strings.IndexByte(s, ':') >= 0:
		return "colon"
	case strings.IndexByte(s, ';') >= 0:
		return "semicolon"
	case strings.IndexByte(s, 0) >= 0:
		return "nul"
	case strings.IndexByte(s, 0xff) >= 0:
		return "ff"
	case s[0] < 0x20:
		return "ctl"
	}
	return "plain"
}
