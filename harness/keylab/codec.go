package keylab

import (
	"bytes"
	"crypto/sha256"
	"fmt"
	"math/rand"
	"sort"
	"sync"

	rr "github.com/youzan/ZanRedisDB/rockredis"
)

// C12 part 2: direct identities of the exported key codecs.
//
//   roundtrip      decode(encode(A)) == A for every encoder/decoder pair
//   alias          the type-specific encoders agree with the generic ones
//   injectivity    enc(A) == enc(B) => A == B over the whole engine key space
//                  (all kinds of keys live in ONE engine key space)
//   containment    start <= enc(A,.) < stop for A's own elements and for no
//                  other key of the universe, for every range helper
//   order          element order inside a collection is the documented one

// kinds of engine keys
const (
	kCounter = iota
	kTIndex
	kKV
	kHSize
	kLMeta
	kSSize
	kZSize
	kBMeta
	kHash
	kSet
	kZSet
	kZScore
	kList
	kBitmap
	kJSON
	kExpTime
	kExpMeta
	kNumKinds
)

var kindName = [...]string{"counter", "tableindex", "kv", "hsize", "lmeta", "ssize", "zsize", "bitmeta",
	"hash", "set", "zset", "zscore", "list", "bitmap", "json", "exptime", "expmeta"}

var metaKinds = []struct {
	kind   int
	metaDT byte
	elemDT byte
	enc    func([]byte) []byte
	dec    func([]byte) ([]byte, error)
	codec  string
}{
	{kHSize, rr.HSizeType, rr.HashType, rr.VerifHEncodeSizeKey, rr.VerifHDecodeSizeKey, "hsize"},
	{kLMeta, rr.LMetaType, rr.ListType, rr.VerifLEncodeMetaKey, rr.VerifLDecodeMetaKey, "lmeta"},
	{kSSize, rr.SSizeType, rr.SetType, rr.VerifSEncodeSizeKey, rr.VerifSDecodeSizeKey, "ssize"},
	{kZSize, rr.ZSizeType, rr.ZSetType, rr.VerifZEncodeSizeKey, rr.VerifZDecodeSizeKey, "zsize"},
	{kBMeta, rr.BitmapMetaType, rr.BitmapType, rr.VerifBitEncodeMetaKey, rr.VerifBitDecodeMetaKey, "bitmeta"},
}

// rec is one engine key of the codec universe with its owner.
type rec struct {
	enc  []byte
	kind int8
	t    int16 // table index
	k    int16 // key index (-1 none)
	s    int16 // sub index (-1 none)
	v    int8  // version index (-1: unversioned / local-deletion form)
	x    int32 // extra: score index, seq index, segment index, itype, when index, dt
}

func (r rec) sameOwner(o rec) bool {
	return r.kind == o.kind && r.t == o.t && r.k == o.k && r.s == o.s && r.v == o.v && r.x == o.x
}

type codecUniverse struct {
	policy string // "local" | "compact"
	tables []string
	keys   []string
	subs   []string
	vers   []int64
	scores []float64
	seqs   []int64
	segs   []int64
	whens  []int64
	recs   []rec
	// number of records per (kind, table) and per (kind, table, key, ver)
	perTable map[[2]int]int
	perKey   map[[4]int]int
	ticks    map[[2]string]int64
}

func (u *codecUniverse) describe(r rec) string {
	s := fmt.Sprintf("%s table=%s", kindName[r.kind], qs(u.tables[r.t]))
	if r.k >= 0 {
		s += " key=" + qs(u.keys[r.k])
	}
	if r.v >= 0 {
		s += fmt.Sprintf(" ver=%d", u.vers[r.v])
	}
	if r.s >= 0 {
		s += " sub=" + qs(u.subs[r.s])
	}
	switch int(r.kind) {
	case kZScore:
		s += fmt.Sprintf(" score=%v", u.scores[r.x])
	case kList:
		s += fmt.Sprintf(" seq=%d", u.seqs[r.x])
	case kBitmap:
		s += fmt.Sprintf(" seg=%d", u.segs[r.x])
	case kTIndex:
		s += fmt.Sprintf(" itype=%d", r.x)
	case kExpTime:
		s += fmt.Sprintf(" dt=%d when=%d", r.x>>8, u.whens[r.x&0xff])
	case kExpMeta:
		s += fmt.Sprintf(" dt=%d", r.x)
	}
	return s
}

func (u *codecUniverse) add(r rec) {
	u.recs = append(u.recs, r)
	u.perTable[[2]int{int(r.kind), int(r.t)}]++
	if r.k >= 0 {
		u.perKey[[4]int{int(r.kind), int(r.t), int(r.k), int(r.v)}]++
	}
}

func (u *codecUniverse) tick(kind, codec string) {
	if u.ticks == nil {
		u.ticks = map[[2]string]int64{}
	}
	u.ticks[[2]string{kind, codec}]++
}

func (u *codecUniverse) flushTicks(s sink) {
	for k, n := range u.ticks {
		s.Count("codec_identities/"+k[0]+"/"+k[1], n)
	}
	u.ticks = nil
}

func isLong(s string) bool { return len(s) >= 200 }

// verKeyOf returns the key part embedded in element keys.
func (u *codecUniverse) verKeyOf(k int, v int) []byte {
	if v < 0 {
		return []byte(u.keys[k])
	}
	return rr.VerifEncodeVerKey([]byte(u.keys[k]), u.vers[v])
}

func pack(t, k string) []byte { return rr.VerifPackRedisKey([]byte(t), []byte(k)) }

type codecWitness struct {
	Codec  string `json:"codec"`
	Policy string `json:"policy,omitempty"`
	A      string `json:"a"`
	B      string `json:"b,omitempty"`
	Enc    string `json:"encoding,omitempty"`
	Got    string `json:"got,omitempty"`
	Note   string `json:"note,omitempty"`
}

// buildUniverse encodes every tuple of the universe with the canonical
// encoder of its kind, checking the round trip of each encoding on the way.
func buildUniverse(s sink, policy string, tables, keys, subs []string, thorough bool) *codecUniverse {
	u := &codecUniverse{policy: policy, tables: tables, keys: keys, subs: subs,
		perTable: map[[2]int]int{}, perKey: map[[4]int]int{}}
	if policy == "compact" {
		u.vers = []int64{0, 1695600000123456789}
		if thorough {
			u.vers = append(u.vers, -1)
		}
	}
	u.scores = []float64{0, 1, -1, 1.5, negZero(), inf(1), inf(-1), 1e300, -1e300, 5e-324, 255, 256}
	u.seqs = []int64{rr.VerifListMinSeq, rr.VerifListInitialSeq - 1, rr.VerifListInitialSeq, rr.VerifListInitialSeq + 1, rr.VerifListInitialSeq + 255, rr.VerifListInitialSeq + 256, rr.VerifListMaxSeq}
	u.segs = []int64{0, 1024, 2048, 255 * 1024, 256 * 1024, 1 << 31}
	u.whens = []int64{1, 255, 256, 1695600000, 1<<32 - 2}
	nv := len(u.vers)
	versOf := func() []int {
		if nv == 0 {
			return []int{-1}
		}
		r := make([]int, nv)
		for i := range r {
			r[i] = i
		}
		return r
	}
	for ti, t := range tables {
		tb := []byte(t)
		// table counter
		{
			e := rr.VerifEncodeTableMetaKey(tb)
			d, err := rr.VerifDecodeTableMetaKey(e)
			if u.tick("roundtrip", "tablemeta"); !(err == nil && bytes.Equal(d, tb)) {
				rtFail(s, policy, "tablemeta", "table="+qs(t), e, fmt.Sprintf("%q err=%v", d, err))
			}
			u.add(rec{enc: e, kind: kCounter, t: int16(ti), k: -1, s: -1, v: -1})
		}
		for _, it := range []byte{1, 2} {
			e := rr.VerifEncodeTableIndexMetaKey(tb, it)
			dit, d, err := rr.VerifDecodeTableIndexMetaKey(e)
			if u.tick("roundtrip", "tableindexmeta"); !(err == nil && dit == it && bytes.Equal(d, tb)) {
				rtFail(s, policy, "tableindexmeta", fmt.Sprintf("table=%s itype=%d", qs(t), it), e, fmt.Sprintf("%d %q err=%v", dit, d, err))
			}
			u.add(rec{enc: e, kind: kTIndex, t: int16(ti), k: -1, s: -1, v: -1, x: int32(it)})
		}
		for ki, k := range keys {
			if isLong(t) && isLong(k) {
				continue
			}
			kb := []byte(k)
			tk := pack(t, k)
			// pack / extract
			{
				dt, dk, err := rr.VerifExtractTableFromRedisKey(tk)
				if u.tick("roundtrip", "packrediskey"); !(err == nil && bytes.Equal(dt, tb) && bytes.Equal(dk, kb)) {
					rtFail(s, policy, "packrediskey", fmt.Sprintf("table=%s key=%s", qs(t), qs(k)), tk, fmt.Sprintf("%q %q err=%v", dt, dk, err))
				}
			}
			// kv
			{
				e := rr.VerifEncodeKVKey(tk)
				d, err := rr.VerifDecodeKVKey(e)
				if u.tick("roundtrip", "kv"); !(err == nil && bytes.Equal(d, tk)) {
					rtFail(s, policy, "kv", "tk="+qb(tk), e, fmt.Sprintf("%q err=%v", d, err))
				}
				dt2, d2, err2 := rr.VerifDecodeAnyMetaKey(e)
				if u.tick("roundtrip", "anymeta"); !(err2 == nil && dt2 == rr.KVType && bytes.Equal(d2, tk)) {
					rtFail(s, policy, "anymeta", "kv tk="+qb(tk), e, fmt.Sprintf("%d %q err=%v", dt2, d2, err2))
				}
				if mk, err := rr.VerifEncodeMetaKey(rr.KVType, tk); err != nil {
					if u.tick("roundtrip", "encodemetakey"); !(false) {
						rtFail(s, policy, "encodemetakey", "kv tk="+qb(tk), nil, err.Error())
					}
				} else {
					if u.tick("alias", "encodemetakey"); !bytes.Equal(e, mk) {
						aliasFail(s, policy, "encodemetakey", e, mk, "kv tk="+qb(tk))
					}
				}
				u.add(rec{enc: e, kind: kKV, t: int16(ti), k: int16(ki), s: -1, v: -1})
			}
			// collection meta keys
			for _, m := range metaKinds {
				e := m.enc(tk)
				d, err := m.dec(e)
				if u.tick("roundtrip", m.codec); !(err == nil && bytes.Equal(d, tk)) {
					rtFail(s, policy, m.codec, "tk="+qb(tk), e, fmt.Sprintf("%q err=%v", d, err))
				}
				dt2, d2, err2 := rr.VerifDecodeAnyMetaKey(e)
				if u.tick("roundtrip", "anymeta"); !(err2 == nil && dt2 == m.metaDT && bytes.Equal(d2, tk)) {
					rtFail(s, policy, "anymeta", m.codec+" tk="+qb(tk), e, fmt.Sprintf("%d %q err=%v", dt2, d2, err2))
				}
				for _, dt := range []byte{m.metaDT, m.elemDT} {
					mk, err := rr.VerifEncodeMetaKey(dt, tk)
					if err != nil {
						if u.tick("roundtrip", "encodemetakey"); !(false) {
							rtFail(s, policy, "encodemetakey", m.codec+" tk="+qb(tk), nil, err.Error())
						}
					} else {
						if u.tick("alias", "encodemetakey"); !bytes.Equal(e, mk) {
							aliasFail(s, policy, "encodemetakey", e, mk, fmt.Sprintf("%s dt=%d tk=%s", m.codec, dt, qb(tk)))
						}
					}
				}
				u.add(rec{enc: e, kind: int8(m.kind), t: int16(ti), k: int16(ki), s: -1, v: -1})
			}
			// json
			{
				e, err := rr.VerifEncodeJSONKey(tb, kb)
				if err != nil {
					if u.tick("roundtrip", "json"); !(false) {
						rtFail(s, policy, "json", fmt.Sprintf("table=%s key=%s", qs(t), qs(k)), nil, err.Error())
					}
				} else {
					dt, dk, derr := rr.VerifDecodeJSONKey(e)
					if u.tick("roundtrip", "json"); !(derr == nil && bytes.Equal(dt, tb) && bytes.Equal(dk, kb)) {
						rtFail(s, policy, "json", fmt.Sprintf("table=%s key=%s", qs(t), qs(k)), e, fmt.Sprintf("%q %q err=%v", dt, dk, derr))
					}
					u.add(rec{enc: e, kind: kJSON, t: int16(ti), k: int16(ki), s: -1, v: -1})
				}
			}
			// expire index (the key is "table:key" in the clear)
			for _, dt := range []byte{rr.KVType, rr.HashType, rr.ListType, rr.SetType, rr.ZSetType, rr.BitmapType} {
				e := rr.VerifExpEncodeMetaKey(dt, tk)
				ddt, d, err := rr.VerifExpDecodeMetaKey(e)
				if u.tick("roundtrip", "expmeta"); !(err == nil && ddt == dt && bytes.Equal(d, tk)) {
					rtFail(s, policy, "expmeta", fmt.Sprintf("dt=%d tk=%s", dt, qb(tk)), e, fmt.Sprintf("%d %q err=%v", ddt, d, err))
				}
				u.add(rec{enc: e, kind: kExpMeta, t: int16(ti), k: int16(ki), s: -1, v: -1, x: int32(dt)})
				for wi, w := range u.whens {
					if isLong(k) && wi > 0 {
						break
					}
					e := rr.VerifExpEncodeTimeKey(dt, tk, w)
					ddt, d, dw, err := rr.VerifExpDecodeTimeKey(e)
					if u.tick("roundtrip", "exptime"); !(err == nil && ddt == dt && dw == w && bytes.Equal(d, tk)) {
						rtFail(s, policy, "exptime", fmt.Sprintf("dt=%d tk=%s when=%d", dt, qb(tk), w), e, fmt.Sprintf("%d %q %d err=%v", ddt, d, dw, err))
					}
					u.add(rec{enc: e, kind: kExpTime, t: int16(ti), k: int16(ki), s: -1, v: -1, x: int32(dt)<<8 | int32(wi)})
				}
			}
			if k == "" {
				continue // collections need a non-empty key
			}
			for _, vi := range versOf() {
				vk := u.verKeyOf(ki, vi)
				if vi >= 0 {
					drk, dver, err := rr.VerifDecodeVerKey(vk)
					if u.tick("roundtrip", "verkey"); !(err == nil && bytes.Equal(drk, kb) && dver == u.vers[vi]) {
						rtFail(s, policy, "verkey", fmt.Sprintf("key=%s ver=%d", qs(k), u.vers[vi]), vk, fmt.Sprintf("%q %d err=%v", drk, dver, err))
					}
				}
				what := func(extra string) string {
					w := fmt.Sprintf("table=%s key=%s", qs(t), qs(k))
					if vi >= 0 {
						w += fmt.Sprintf(" ver=%d", u.vers[vi])
					}
					return w + " " + extra
				}
				// hash / set / zset member keys
				for si, sub := range subs {
					if (isLong(t) || isLong(k)) && isLong(sub) {
						continue
					}
					sb := []byte(sub)
					for _, ct := range []struct {
						kind int
						dt   byte
						enc  func(t, k, s []byte) []byte
						dec  func([]byte) ([]byte, []byte, []byte, error)
						name string
					}{
						{kHash, rr.HashType, rr.VerifHEncodeHashKey, rr.VerifHDecodeHashKey, "hash"},
						{kSet, rr.SetType, rr.VerifSEncodeSetKey, rr.VerifSDecodeSetKey, "set"},
						{kZSet, rr.ZSetType, rr.VerifZEncodeSetKey, rr.VerifZDecodeSetKey, "zset"},
					} {
						e := rr.VerifEncodeCollSubKey(ct.dt, tb, vk, sb)
						ddt, dtb, dk, ds, err := rr.VerifDecodeCollSubKey(e)
						if u.tick("roundtrip", "collsubkey"); !(err == nil && ddt == ct.dt && bytes.Equal(dtb, tb) && bytes.Equal(dk, vk) && bytes.Equal(ds, sb)) {
							rtFail(s, policy, "collsubkey", what(ct.name+" sub="+qs(sub)), e, fmt.Sprintf("%d %q %q %q err=%v", ddt, dtb, dk, ds, err))
						}
						if u.tick("alias", ct.name); !bytes.Equal(e, ct.enc(tb, vk, sb)) {
							aliasFail(s, policy, ct.name, e, ct.enc(tb, vk, sb), what(ct.name+" sub="+qs(sub)))
						}
						dtb, dk, ds, err = ct.dec(e)
						if u.tick("roundtrip", ct.name); !(err == nil && bytes.Equal(dtb, tb) && bytes.Equal(dk, vk) && bytes.Equal(ds, sb)) {
							rtFail(s, policy, ct.name, what(ct.name+" sub="+qs(sub)), e, fmt.Sprintf("%q %q %q err=%v", dtb, dk, ds, err))
						}
						if vi >= 0 {
							cdt, ctk, cver, err := rr.VerifConvertCollDBKeyToRawKey(e)
							if u.tick("roundtrip", "convertcolldbkey"); !(err == nil && cdt == ct.dt && bytes.Equal(ctk, tk) && cver == u.vers[vi]) {
								rtFail(s, policy, "convertcolldbkey", what(ct.name+" sub="+qs(sub)), e, fmt.Sprintf("%d %q %d err=%v", cdt, ctk, cver, err))
							}
						}
						u.add(rec{enc: e, kind: int8(ct.kind), t: int16(ti), k: int16(ki), s: int16(si), v: int8(vi)})
					}
					// zset score index: only a few scores per member
					for xi, sc := range u.scores {
						if (isLong(sub) || isLong(k) || isLong(t)) && xi > 1 {
							break
						}
						if (si+xi)%3 != 0 && xi > 3 {
							continue
						}
						e := rr.VerifZEncodeScoreKey(tb, vk, sb, sc)
						dtb, dk, dm, dsc, err := rr.VerifZDecodeScoreKey(e)
						if u.tick("roundtrip", "zscore"); !(err == nil && bytes.Equal(dtb, tb) && bytes.Equal(dk, vk) && bytes.Equal(dm, sb) && dsc == sc) {
							rtFail(s, policy, "zscore", what(fmt.Sprintf("zscore member=%s score=%v", qs(sub), sc)), e, fmt.Sprintf("%q %q %q %v err=%v", dtb, dk, dm, dsc, err))
						}
						if sc == 0 && xi != 0 {
							continue // -0 encodes like +0 (numerically equal): one record
						}
						u.add(rec{enc: e, kind: kZScore, t: int16(ti), k: int16(ki), s: int16(si), v: int8(vi), x: int32(xi)})
					}
				}
				// list elements
				for xi, seq := range u.seqs {
					e := rr.VerifLEncodeListKey(tb, vk, seq)
					dtb, dk, dseq, err := rr.VerifLDecodeListKey(e)
					if u.tick("roundtrip", "list"); !(err == nil && bytes.Equal(dtb, tb) && bytes.Equal(dk, vk) && dseq == seq) {
						rtFail(s, policy, "list", what(fmt.Sprintf("list seq=%d", seq)), e, fmt.Sprintf("%q %q %d err=%v", dtb, dk, dseq, err))
					}
					u.add(rec{enc: e, kind: kList, t: int16(ti), k: int16(ki), s: -1, v: int8(vi), x: int32(xi)})
				}
				// bitmap segments
				for xi, seg := range u.segs {
					e, err := rr.VerifEncodeBitmapKey(tb, vk, seg)
					if err != nil {
						if u.tick("roundtrip", "bitmap"); !(false) {
							rtFail(s, policy, "bitmap", what(fmt.Sprintf("bitmap seg=%d", seg)), nil, err.Error())
						}
						continue
					}
					dtb, dk, dseg, err := rr.VerifDecodeBitmapKey(e)
					if u.tick("roundtrip", "bitmap"); !(err == nil && bytes.Equal(dtb, tb) && bytes.Equal(dk, vk) && dseg == seg) {
						rtFail(s, policy, "bitmap", what(fmt.Sprintf("bitmap seg=%d", seg)), e, fmt.Sprintf("%q %q %d err=%v", dtb, dk, dseg, err))
					}
					u.add(rec{enc: e, kind: kBitmap, t: int16(ti), k: int16(ki), s: -1, v: int8(vi), x: int32(xi)})
				}
			}
		}
	}
	u.flushTicks(s)
	sort.Slice(u.recs, func(i, j int) bool { return bytes.Compare(u.recs[i].enc, u.recs[j].enc) < 0 })
	s.Count("codec_universe_records/"+policy, int64(len(u.recs)))
	return u
}

func rtFail(s sink, policy, codec, a string, enc []byte, got string) {
	s.Violation("codec-roundtrip/"+codec, fmt.Sprintf("decode(encode(%s)) = %s", a, got),
		codecWitness{Codec: codec, Policy: policy, A: a, Enc: fmt.Sprintf("%q", trunc(enc, 200)), Got: got})
}

func aliasFail(s sink, policy, codec string, a, b []byte, what string) {
	s.Violation("codec-roundtrip/"+codec, "alias encoders disagree for "+what,
		codecWitness{Codec: codec, Policy: policy, A: what, Enc: fmt.Sprintf("%q", trunc(a, 200)), Got: fmt.Sprintf("%q", trunc(b, 200))})
}

func trunc(b []byte, n int) []byte {
	if len(b) > n {
		return b[:n]
	}
	return b
}

// checkInjective looks for two different tuples (of any kinds) with the same
// engine key. The records are sorted, equal encodings are adjacent.
func (u *codecUniverse) checkInjective(s sink) {
	seen := map[[20]byte]int{}
	for i := range u.recs {
		var h [20]byte
		sum := sha256.Sum256(u.recs[i].enc)
		copy(h[:], sum[:20])
		if j, ok := seen[h]; ok && bytes.Equal(u.recs[j].enc, u.recs[i].enc) && !u.recs[j].sameOwner(u.recs[i]) {
			a, b := u.recs[j], u.recs[i]
			s.Violation(fmt.Sprintf("codec-collision/%s/%s", kindName[a.kind], kindName[b.kind]),
				fmt.Sprintf("same engine key for [%s] and [%s]", u.describe(a), u.describe(b)),
				codecWitness{Codec: kindName[a.kind] + "/" + kindName[b.kind], Policy: u.policy, A: u.describe(a), B: u.describe(b), Enc: fmt.Sprintf("%q", trunc(a.enc, 300))})
		} else if !ok {
			seen[h] = i
		}
	}
	n := int64(len(u.recs))
	s.Count("collisions_checked_records/"+u.policy, n)
}

func (u *codecUniverse) lower(k []byte) int {
	return sort.Search(len(u.recs), func(i int) bool { return bytes.Compare(u.recs[i].enc, k) >= 0 })
}

// checkRange: every record in [start, stop) (closedStop: [start, stop]) must
// satisfy own(), and exactly `want` records must be inside.
func (u *codecUniverse) checkRange(s sink, helper string, what string, start, stop []byte, closedStop bool, want int, own func(r rec) bool) {
	s.Count("codec_identities/containment/"+helper, 1)
	if bytes.Compare(start, stop) > 0 {
		s.Violation("range-containment/"+helper, fmt.Sprintf("%s: start > stop", what),
			codecWitness{Codec: helper, Policy: u.policy, A: what, Enc: fmt.Sprintf("%q .. %q", trunc(start, 200), trunc(stop, 200))})
		return
	}
	lo := u.lower(start)
	inside := 0
	for i := lo; i < len(u.recs); i++ {
		c := bytes.Compare(u.recs[i].enc, stop)
		if c > 0 || (c == 0 && !closedStop) {
			break
		}
		if !own(u.recs[i]) {
			s.Violation("range-containment/"+helper, fmt.Sprintf("range of [%s] contains foreign key [%s]", what, u.describe(u.recs[i])),
				codecWitness{Codec: helper, Policy: u.policy, A: what, B: u.describe(u.recs[i]), Enc: fmt.Sprintf("%q .. %q", trunc(start, 200), trunc(stop, 200)), Got: fmt.Sprintf("%q", trunc(u.recs[i].enc, 200))})
			return
		}
		inside++
	}
	if inside != want {
		// find one own record outside
		miss := ""
		for i := range u.recs {
			if own(u.recs[i]) {
				c1 := bytes.Compare(u.recs[i].enc, start)
				c2 := bytes.Compare(u.recs[i].enc, stop)
				if c1 < 0 || c2 > 0 || (c2 == 0 && !closedStop) {
					miss = u.describe(u.recs[i]) + fmt.Sprintf(" enc=%q", trunc(u.recs[i].enc, 200))
					break
				}
			}
		}
		s.Violation("range-containment/"+helper, fmt.Sprintf("range of [%s] holds %d of its %d own keys; outside: %s", what, inside, want, miss),
			codecWitness{Codec: helper, Policy: u.policy, A: what, B: miss, Enc: fmt.Sprintf("%q .. %q", trunc(start, 200), trunc(stop, 200))})
	}
}

// checkContainment runs every collection / table range helper.
func (u *codecUniverse) checkContainment(s sink) {
	vis := []int{-1}
	if len(u.vers) > 0 {
		vis = vis[:0]
		for i := range u.vers {
			vis = append(vis, i)
		}
	}
	for ti, t := range u.tables {
		tb := []byte(t)
		// whole-table ranges
		for _, tr := range []struct {
			helper string
			dt     byte
			kinds  []int
		}{
			{"datatable/kv", rr.KVType, []int{kKV}},
			{"datatable/hash", rr.HashType, []int{kHash}},
			{"datatable/list", rr.ListType, []int{kList}},
			{"datatable/set", rr.SetType, []int{kSet}},
			{"datatable/zset", rr.ZSetType, []int{kZSet}},
			{"datatable/zscore", rr.ZScoreType, []int{kZScore}},
			{"datatable/bitmap", rr.BitmapType, []int{kBitmap}},
			{"datatable/json", rr.JSONType, []int{kJSON}},
		} {
			want := 0
			for _, k := range tr.kinds {
				want += u.perTable[[2]int{k, ti}]
			}
			kinds := tr.kinds
			u.checkRange(s, tr.helper, "table="+qs(t), rr.VerifEncodeDataTableStart(tr.dt, tb), rr.VerifEncodeDataTableEnd(tr.dt, tb), false, want,
				func(r rec) bool {
					if int(r.t) != ti {
						return false
					}
					for _, k := range kinds {
						if int(r.kind) == k {
							return true
						}
					}
					return false
				})
		}
		// json start/stop helpers
		if st, err := rr.VerifEncodeJSONStartKey(tb); err == nil {
			u.checkRange(s, "jsontable", "table="+qs(t), st, rr.VerifEncodeJSONStopKey(tb), false, u.perTable[[2]int{kJSON, ti}],
				func(r rec) bool { return int(r.kind) == kJSON && int(r.t) == ti })
		}
		// table data / meta ranges of DeleteTableRange, CompactTableRange, size estimation (whole table)
		for _, tr := range []struct {
			dt, metaDT byte
			kind, meta int
			name       string
		}{
			{rr.KVType, rr.KVType, kKV, kKV, "kv"},
			{rr.HashType, rr.HSizeType, kHash, kHSize, "hash"},
			{rr.ListType, rr.LMetaType, kList, kLMeta, "list"},
			{rr.SetType, rr.SSizeType, kSet, kSSize, "set"},
			{rr.ZSetType, rr.ZSizeType, kZSet, kZSize, "zset"},
		} {
			rgs, err := rr.VerifGetTableDataRange(tr.dt, append([]byte{}, tb...), nil, nil)
			if err != nil {
				s.Violation("range-containment/tabledatarange/"+tr.name, "error: "+err.Error(), codecWitness{Codec: "tabledatarange", A: "table=" + qs(t)})
				continue
			}
			for ri, rg := range rgs {
				kind := tr.kind
				if ri == 1 {
					kind = kZScore
				}
				u.checkRange(s, "tabledatarange/"+kindName[kind], "table="+qs(t), rg.Start, rg.Limit, false, u.perTable[[2]int{kind, ti}],
					func(r rec) bool { return int(r.kind) == kind && int(r.t) == ti })
			}
			mn, mx, err := rr.VerifGetTableMetaRange(tr.metaDT, append([]byte{}, tb...), nil, nil)
			if err != nil {
				s.Violation("range-containment/tablemetarange/"+tr.name, "error: "+err.Error(), codecWitness{Codec: "tablemetarange", A: "table=" + qs(t)})
				continue
			}
			meta := tr.meta
			u.checkRange(s, "tablemetarange/"+kindName[meta], "table="+qs(t), mn, mx, false, u.perTable[[2]int{meta, ti}],
				func(r rec) bool { return int(r.kind) == meta && int(r.t) == ti })
		}
		// SCAN/ADVSCAN page ranges from the table start cursor: open (min, max),
		// the page range runs to the end of the TYPE (the node handler cuts at the
		// table boundary), so only the lower part is checked: nothing of this table
		// may sort at or below the start cursor "table:".
		for _, sc := range []struct {
			store byte
			kind  int
		}{{rr.KVType, kKV}, {rr.HSizeType, kHSize}, {rr.LMetaType, kLMeta}, {rr.SSizeType, kSSize}, {rr.ZSizeType, kZSize}} {
			mn, _, err := rr.VerifBuildScanKeyRange(sc.store, pack(t, ""), false)
			if err != nil {
				continue
			}
			// every NON-EMPTY key of the table must be strictly above the start
			s.Count("codec_identities/containment/scanstart", 1)
			for ki, k := range u.keys {
				if k == "" || (isLong(t) && isLong(k)) {
					continue
				}
				var e []byte
				if sc.kind == kKV {
					e = rr.VerifEncodeKVKey(pack(t, k))
				} else {
					e, _ = rr.VerifEncodeMetaKey(sc.store, pack(t, k))
				}
				if bytes.Compare(e, mn) <= 0 {
					s.Violation("range-containment/scanstart", fmt.Sprintf("key %s of table %s sorts at/below the scan start cursor", qs(k), qs(t)),
						codecWitness{Codec: "scanstart", A: fmt.Sprintf("table=%s key=%s(%d)", qs(t), qs(k), ki)})
					break
				}
			}
		}
		for ki, k := range u.keys {
			if k == "" || (isLong(t) && isLong(k)) {
				continue
			}
			for _, vi := range vis {
				vk := u.verKeyOf(ki, vi)
				what := fmt.Sprintf("table=%s key=%s", qs(t), qs(k))
				if vi >= 0 {
					what += fmt.Sprintf(" ver=%d", u.vers[vi])
				}
				ownKey := func(kind int) func(r rec) bool {
					return func(r rec) bool {
						return int(r.kind) == kind && int(r.t) == ti && int(r.k) == ki && int(r.v) == vi
					}
				}
				cnt := func(kind int) int { return u.perKey[[4]int{kind, ti, ki, vi}] }
				u.checkRange(s, "hash", what, rr.VerifHEncodeStartKey(tb, vk), rr.VerifHEncodeStopKey(tb, vk), false, cnt(kHash), ownKey(kHash))
				u.checkRange(s, "set", what, rr.VerifSEncodeStartKey(tb, vk), rr.VerifSEncodeStopKey(tb, vk), false, cnt(kSet), ownKey(kSet))
				u.checkRange(s, "zset", what, rr.VerifZEncodeStartSetKey(tb, vk), rr.VerifZEncodeStopSetKey(tb, vk), false, cnt(kZSet), ownKey(kZSet))
				u.checkRange(s, "zscore", what, rr.VerifZEncodeStartKey(tb, vk), rr.VerifZEncodeStopKey(tb, vk), true, cnt(kZScore), ownKey(kZScore))
				// list: the clear range is [seq head, seq tail] closed
				u.checkRange(s, "list", what, rr.VerifLEncodeListKey(tb, vk, rr.VerifListMinSeq), rr.VerifLEncodeListKey(tb, vk, rr.VerifListMaxSeq), true, cnt(kList), ownKey(kList))
				if st, err := rr.VerifEncodeBitmapStartKey(tb, vk, 0); err == nil {
					if sp, err := rr.VerifEncodeBitmapStopKey(tb, vk); err == nil {
						u.checkRange(s, "bitmap", what, st, sp, false, cnt(kBitmap), ownKey(kBitmap))
					}
				}
				// HSCAN/SSCAN/ZSCAN page ranges from the start cursor (open both sides):
				// own elements with a non-empty name only (the empty field equals the start key)
				for _, sc := range []struct {
					dt   byte
					kind int
					name string
				}{{rr.HashType, kHash, "hscanrange"}, {rr.SetType, kSet, "sscanrange"}, {rr.ZSetType, kZSet, "zscanrange"}} {
					mn, mx, err := rr.VerifBuildSpecificDataScanKeyRange(sc.dt, tb, vk, nil, false)
					if err != nil {
						continue
					}
					want := 0
					for _, sub := range u.subs {
						if sub != "" && !((isLong(t) || isLong(k)) && isLong(sub)) {
							want++
						}
					}
					kind := sc.kind
					// open lower bound: move the start just above mn
					u.checkRange(s, sc.name, what, append(append([]byte{}, mn...), 0), mx, false, want, func(r rec) bool {
						return int(r.kind) == kind && int(r.t) == ti && int(r.k) == ki && int(r.v) == vi && u.subs[r.s] != ""
					})
				}
			}
		}
	}
}

// checkScoreRanges checks zEncodeStartScoreKey/zEncodeStopScoreKey (closed
// score intervals inside one zset) on a reduced universe.
func (u *codecUniverse) checkScoreRanges(s sink) {
	// group zscore records by owner key
	type ok struct{ t, k, v int }
	groups := map[ok][]rec{}
	for _, r := range u.recs {
		if int(r.kind) == kZScore {
			g := ok{int(r.t), int(r.k), int(r.v)}
			groups[g] = append(groups[g], r)
		}
	}
	n := 0
	for g, rs := range groups {
		if (g.t+g.k)%7 != 0 { // a deterministic seventh of the keys is enough
			continue
		}
		tb := []byte(u.tables[g.t])
		vk := u.verKeyOf(g.k, g.v)
		for _, lo := range u.scores {
			for _, hi := range u.scores {
				if lo > hi {
					continue
				}
				want := 0
				for _, r := range rs {
					if sc := u.scores[r.x]; sc >= lo && sc <= hi {
						want++
					}
				}
				lo, hi := lo, hi
				what := fmt.Sprintf("table=%s key=%s score in [%v,%v]", qs(u.tables[g.t]), qs(u.keys[g.k]), lo, hi)
				u.checkRange(s, "zscore-interval", what, rr.VerifZEncodeStartScoreKey(tb, vk, lo), rr.VerifZEncodeStopScoreKey(tb, vk, hi), true, want, func(r rec) bool {
					return int(r.kind) == kZScore && int(r.t) == g.t && int(r.k) == g.k && int(r.v) == g.v && u.scores[r.x] >= lo && u.scores[r.x] <= hi
				})
				n++
			}
		}
	}
}

// checkElementOrder: inside one collection the engine order of element keys
// is the documented order: fields/members in byte order (what HSCAN/SSCAN/
// ZSCAN return), zset score index by (score, member), list by sequence,
// bitmap by segment index; meta keys (what SCAN/ADVSCAN return) by key bytes
// inside one table.
func (u *codecUniverse) checkElementOrder(s sink) {
	type gk struct{ kind, t, k, v int }
	last := map[gk]rec{}
	bad := func(kind int, a, b rec) {
		s.Violation("codec-order/"+kindName[kind], fmt.Sprintf("engine order [%s] < [%s] contradicts the logical order", u.describe(a), u.describe(b)),
			codecWitness{Codec: kindName[kind], Policy: u.policy, A: u.describe(a), B: u.describe(b), Enc: fmt.Sprintf("%q < %q", trunc(a.enc, 150), trunc(b.enc, 150))})
	}
	for _, r := range u.recs { // ascending engine order
		var g gk
		switch int(r.kind) {
		case kHash, kSet, kZSet, kZScore, kList, kBitmap:
			g = gk{int(r.kind), int(r.t), int(r.k), int(r.v)}
		case kKV, kHSize, kLMeta, kSSize, kZSize, kBMeta:
			g = gk{int(r.kind), int(r.t), -1, -1}
		default:
			continue
		}
		p, ok := last[g]
		last[g] = r
		if !ok {
			continue
		}
		s.Count("codec_identities/order/"+kindName[r.kind], 1)
		switch int(r.kind) {
		case kHash, kSet, kZSet:
			if u.subs[p.s] >= u.subs[r.s] {
				bad(int(r.kind), p, r)
			}
		case kZScore:
			ps, rs := u.scores[p.x], u.scores[r.x]
			if ps > rs || (ps == rs && u.subs[p.s] >= u.subs[r.s]) {
				bad(kZScore, p, r)
			}
		case kList:
			if u.seqs[p.x] >= u.seqs[r.x] {
				bad(kList, p, r)
			}
		case kBitmap:
			if u.segs[p.x] >= u.segs[r.x] {
				bad(kBitmap, p, r)
			}
		default:
			if u.keys[p.k] >= u.keys[r.k] {
				bad(int(r.kind), p, r)
			}
		}
	}
}

// decoderFuzz feeds truncated and mutated encodings to every decoder. Such
// bytes cannot be produced by a client (only the encoders write engine keys),
// so a panic here is counted, not reported; under -race (checkptr) a bad
// unsafe conversion would kill the process, which the parent reports.
func (u *codecUniverse) decoderFuzz(s sink, r *rand.Rand, n int) {
	if len(u.recs) == 0 {
		return
	}
	try := func(codec string, f func()) {
		defer func() {
			if e := recover(); e != nil {
				s.Count("decoder_panics_on_unreachable_bytes/"+codec, 1)
			}
		}()
		f()
	}
	for i := 0; i < n; i++ {
		rc := u.recs[r.Intn(len(u.recs))]
		if len(rc.enc) > 400 {
			continue
		}
		var muts [][]byte
		for cut := 0; cut < len(rc.enc); cut++ {
			muts = append(muts, rc.enc[:cut])
		}
		for j := 0; j < 6 && len(rc.enc) > 1; j++ {
			m := append([]byte{}, rc.enc...)
			m[1+r.Intn(len(m)-1)] = []byte{0, 1, 0xff, 0xfe, ':', ';', 0xf7, 8}[r.Intn(8)]
			muts = append(muts, m)
		}
		muts = append(muts, append(append([]byte{}, rc.enc...), 0), append(append([]byte{}, rc.enc...), 0xff))
		for _, m := range muts {
			s.Count("decoder_fuzz_inputs", 1)
			try("collsubkey", func() { rr.VerifRawDecodeCollSubKey(m) })
			try("hash", func() { rr.VerifRawHDecodeHashKey(m) })
			try("set", func() { rr.VerifRawSDecodeSetKey(m) })
			try("zset", func() { rr.VerifRawZDecodeSetKey(m) })
			try("zscore", func() { rr.VerifRawZDecodeScoreKey(m) })
			try("list", func() { rr.VerifRawLDecodeListKey(m) })
			try("bitmap", func() { rr.VerifRawDecodeBitmapKey(m) })
			try("json", func() { rr.VerifRawDecodeJSONKey(m) })
			try("verkey", func() { rr.VerifRawDecodeVerKey(m) })
			try("convertcolldbkey", func() { rr.VerifRawConvertCollDBKeyToRawKey(m) })
			try("tableprefix", func() {
				if len(m) > 0 {
					rr.VerifRawDecodeDataTablePrefix(m, m[0])
				}
			})
			try("memcmp", func() { rr.Decode(m, 4) })
			try("meta", func() { rr.VerifDecodeAnyMetaKey(m) })
			try("exptime", func() { rr.VerifExpDecodeTimeKey(m) })
			try("expmeta", func() { rr.VerifExpDecodeMetaKey(m) })
			try("tablemeta", func() { rr.VerifDecodeTableMetaKey(m) })
			try("tableindexmeta", func() { rr.VerifDecodeTableIndexMetaKey(m) })
		}
	}
}

// codecNames picks the name pools for the codec universes.
func codecNames(r *rand.Rand, thorough bool) (tables, keys, subs []string) {
	nT, extra := 12, 6
	if thorough {
		nT, extra = 24, 20
	}
	tn := tableNames()
	if nT > len(tn) {
		nT = len(tn)
	}
	// always keep the first 8 tables (t, t1, tt, s, u, t;, t9, t\x00), sample the rest
	tables = append(tables, tn[:8]...)
	tables = append(tables, pickAlphabet(r, tn[8:], nT-8, false, false)...)
	seenT := map[string]bool{}
	var tt []string
	for _, t := range tables {
		if !seenT[t] {
			seenT[t] = true
			tt = append(tt, t)
		}
	}
	tables = tt
	base := append([]string{""}, baseNames()...)
	base = append(base, longNames()...)
	base = append(base, rep('m', maxKey))
	keys = append(keys, base...)
	subs = append(subs, base...)
	seenK := map[string]bool{}
	for _, k := range keys {
		seenK[k] = true
	}
	for i := 0; i < extra; i++ {
		for {
			n := randName(r, 18, true)
			if !seenK[n] {
				seenK[n] = true
				keys = append(keys, n)
				subs = append(subs, n)
				break
			}
		}
	}
	return
}

// runCodecIdentities is the whole codec part of C12.
func runCodecIdentities(s sink, seed int64, thorough bool) {
	r := rand.New(rand.NewSource(seed*7907 + 11))
	tables, keys, subs := codecNames(r, thorough)
	s.Count("codec_alphabet/tables", int64(len(tables)))
	s.Count("codec_alphabet/keys", int64(len(keys)))
	s.Count("codec_alphabet/subkeys", int64(len(subs)))
	var wg sync.WaitGroup
	wg.Add(1)
	go func() {
		defer wg.Done()
		runMemcmp(s, rand.New(rand.NewSource(seed*7907+13)), thorough)
	}()
	for _, policy := range []string{"local", "compact"} {
		policy := policy
		r := rand.New(rand.NewSource(seed*7907 + 17 + int64(len(policy))))
		wg.Add(1)
		go func() {
			defer wg.Done()
			u := buildUniverse(s, policy, tables, keys, subs, thorough)
			u.checkInjective(s)
			u.checkContainment(s)
			u.checkScoreRanges(s)
			u.checkElementOrder(s)
			nf := 300
			if thorough {
				nf = 3000
			}
			u.decoderFuzz(s, r, nf)
			s.Eval(1)
			s.Nontrivial("codec-universe/" + policy)
			s.Progress("codec universe %s: %d engine keys, %d tables x %d keys x %d sub-keys", policy, len(u.recs), len(tables), len(keys), len(subs))
		}()
	}
	wg.Wait()
	runLimits(s)
}
