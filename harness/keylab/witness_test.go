package keylab

import (
	"fmt"
	"os"
	"path/filepath"
	"testing"

	rr "github.com/youzan/ZanRedisDB/rockredis"

	"verif/harness/smlab"
)

// Minimal witnesses of the defects C12/C13 found on the unchanged tree.
//   cd /verif/harness && KEYLAB_WITNESS=1 go test -tags verif ./keylab -run TestWitness -v
// Each test prints what it observes and fails (t.Errorf) while the defect is
// present, so the output doubles as a reproduction recipe. Skipped unless
// KEYLAB_WITNESS is set (they are demonstrations, not regression tests).

func openLab(t *testing.T, engine, policy string) *smlab.Lab {
	if os.Getenv("KEYLAB_WITNESS") == "" {
		t.Skip("set KEYLAB_WITNESS=1 to run the witness demonstrations")
	}
	dir, err := os.MkdirTemp("", "keylab-witness")
	if err != nil {
		t.Fatal(err)
	}
	smlab.QuietLogs(dir)
	l, err := smlab.Open(smlab.Opts{Engine: engine, ExpirePolicy: policy, Dir: filepath.Join(dir, "d")})
	if err != nil {
		t.Fatal(err)
	}
	t.Cleanup(func() { l.Close(); os.RemoveAll(dir) })
	return l
}

func TestWitnessDeleteTableRangeWhole(t *testing.T) {
	l := openLab(t, "pebble", "local_deletion")
	ts := tsBase
	for _, c := range []smlab.Cmd{
		smlab.C("set", "t", "a", "v"), smlab.C("hset", "t", "a", "f", "v"), smlab.C("setbitv2", "t", "a", "1", "1"), smlab.C("json.set", "t", "a", "", `{"x":1}`),
	} {
		ts += 1e6
		l.ApplyOne(ts, c)
	}
	if err := l.DB().DeleteTableRange(false, "t", nil, nil); err != nil {
		t.Fatal(err)
	}
	fmt.Println("after DeleteTableRange(t, nil, nil):")
	fmt.Print(l.LogicalDump().String())
	if n := l.R("bitcount", "t", "a").Int; n != 0 {
		t.Errorf("bitmap t:a survives the whole-table delete: BITCOUNT=%d", n)
	}
	if r := l.R("json.get", "t", "a"); !r.Nil && r.Kind != "nil" && len(r.Bulk) > 0 {
		t.Errorf("json t:a survives the whole-table delete: %s", r.Canon())
	}
}

func TestWitnessDeleteTableRangePartialLocal(t *testing.T) {
	l := openLab(t, "pebble", "local_deletion")
	ts := tsBase
	for _, c := range []smlab.Cmd{
		smlab.C("hset", "t", "aa", "old", "1"), smlab.C("zadd", "t", "b", "1", "m"),
	} {
		ts += 1e6
		l.ApplyOne(ts, c)
	}
	// [a, b): contains "aa", does not contain "b"
	l.DB().DeleteTableRange(false, "t", []byte("a"), []byte("b"))
	fmt.Println("after DeleteTableRange(t, a, b): ZCARD b =", l.R("zcard", "t", "b").Canon(), " ZRANGE b 0 -1 =", l.R("zrange", "t", "b", "0", "-1").Canon(), " HLEN aa =", l.R("hlen", "t", "aa").Canon())
	if r := l.R("zrange", "t", "b", "0", "-1"); len(r.Arr) == 0 {
		t.Errorf("zset t:b is OUTSIDE [a,b) but lost its score index: ZCARD=%s ZRANGE=%s", l.R("zcard", "t", "b").Canon(), r.Canon())
	}
	ts += 1e6
	l.ApplyOne(ts, smlab.C("hset", "t", "aa", "new", "2"))
	r := l.R("hgetall", "t", "aa")
	fmt.Println("HSET aa new 2; HGETALL aa =", r.Canon())
	if len(r.Arr) != 2 {
		t.Errorf("hash t:aa was inside [a,b): its meta was deleted but its fields stayed; after re-creation the old field is back: %s", r.Canon())
	}
}

func TestWitnessDeleteTableRangePartialCompact(t *testing.T) {
	l := openLab(t, "pebble", "wait_compact")
	ts := tsBase
	for _, c := range []smlab.Cmd{
		smlab.C("hset", "t", "a", "f", "1"), smlab.C("rpush", "t", "a", "e"), smlab.C("zadd", "t", "a", "1", "m"),
	} {
		ts += 1e6
		l.ApplyOne(ts, c)
	}
	// [b, +inf): does not contain "a"
	l.DB().DeleteTableRange(false, "t", []byte("b"), nil)
	fmt.Println("after DeleteTableRange(t, b, nil): HLEN a =", l.R("hlen", "t", "a").Canon(), "HGETALL a =", l.R("hgetall", "t", "a").Canon(),
		" LLEN a =", l.R("llen", "t", "a").Canon(), "LRANGE a =", l.R("lrange", "t", "a", "0", "-1").Canon(), " ZCARD a =", l.R("zcard", "t", "a").Canon(), "ZRANGE a =", l.R("zrange", "t", "a", "0", "-1").Canon())
	if r := l.R("hgetall", "t", "a"); len(r.Arr) == 0 {
		t.Errorf("hash t:a is OUTSIDE [b,+inf) but lost its fields (HLEN still %s)", l.R("hlen", "t", "a").Canon())
	}
}

func TestWitnessSetbitLegacyConversionAliasesVersionedKey(t *testing.T) {
	l := openLab(t, "pebble", "wait_compact")
	ts := tsBase + 1e6
	// victim bitmap t:a, created at log timestamp ts => its segments live under the versioned key (a, ts)
	l.ApplyOne(ts, smlab.C("setbitv2", "t", "a", "1", "1"))
	before := l.R("getbit", "t", "a", "1").Canon() + l.R("getbit", "t", "a", "7").Canon()
	evil := string(rr.VerifEncodeVerKey([]byte("a"), ts))
	// a plain string under the crafted name, then SETBIT on it: BitSetV2 converts the "legacy bitmap" into
	// segments under the UNVERSIONED key `evil` == versioned key of t:a
	l.ApplyOne(ts+1e6, smlab.C("set", "t", evil, "\xff\xff\xff\xff"))
	rep := l.ApplyOne(ts+2e6, smlab.C("setbitv2", "t", evil, "100", "1"))
	after := l.R("getbit", "t", "a", "1").Canon() + l.R("getbit", "t", "a", "7").Canon()
	fmt.Printf("victim GETBIT t:a 1 / 7 before=%s after SETBIT on the crafted name=%s (reply %s)\n", before, after, rep.Canon())
	if before != after {
		t.Errorf("SETBIT on key %q overwrote segment 0 of bitmap t:a: GETBIT a 1, GETBIT a 7: %s -> %s", evil, before, after)
	}
}

func TestWitnessMemRadixZeroByte(t *testing.T) {
	for _, eng := range []string{"mem", "pebble"} {
		l := openLab(t, eng, "wait_compact")
		ts := tsBase
		for _, k := range []string{"a", "b", "d"} {
			ts += 1e6
			l.ApplyOne(ts, smlab.C("set", "t", k, "v"))
		}
		r := l.Read(smlab.C("revscan", "t", "d\x00", "count", "10"))
		fmt.Printf("%s: REVSCAN t:d\\x00 COUNT 10 -> %s\n", eng, r.Canon())
		if len(r.Arr) == 2 && len(r.Arr[1].Arr) != 3 {
			t.Errorf("engine %s: reverse scan from cursor \"d\\x00\" returns %d of 3 keys: %s", eng, len(r.Arr[1].Arr), r.Canon())
		}
		l2 := openLab(t, eng, "wait_compact")
		for _, k := range []string{"a\x00", "a\x00b", "a"} {
			ts += 1e6
			l2.ApplyOne(ts, smlab.C("set", "t", k, "v"))
		}
		r = l2.Read(smlab.C("scan", "t", "", "count", "10"))
		fmt.Printf("%s: SCAN t: COUNT 10 over {a, a\\x00, a\\x00b} -> %s\n", eng, r.Canon())
		if len(r.Arr) == 2 && len(r.Arr[1].Arr) != 3 {
			t.Errorf("engine %s: forward scan returns %d of 3 keys: %s", eng, len(r.Arr[1].Arr), r.Canon())
		}
	}
}

// Side observations (other properties): a failing SETBIT on the empty key
// leaves a partial write (C11), NaN scores are accepted (C08).
func TestWitnessSideObservations(t *testing.T) {
	l := openLab(t, "pebble", "wait_compact")
	ts := tsBase + 1e6
	l.ApplyOne(ts, smlab.C("set", "t", "", "abc"))
	rep := l.ApplyOne(ts+1e6, smlab.C("setbitv2", "t", "", "1", "1"))
	g := l.R("get", "t", "")
	fmt.Printf("SET t: abc; SETBIT t: 1 1 -> %s; GET t: -> %s\n", rep.Canon(), g.Canon())
	if rep.IsErr() && g.Kind == "nil" {
		t.Errorf("SETBIT on the empty key is refused (%s) AFTER it deleted the KV value and wrote orphan segments (partial write)", rep.Canon())
	}
	rep = l.ApplyOne(ts+3e6, smlab.C("zadd", "t", "z", "nan", "m"))
	fmt.Printf("ZADD t:z nan m -> %s; ZSCORE -> %s; ZRANGE WITHSCORES -> %s\n", rep.Canon(), l.R("zscore", "t", "z", "m").Canon(), l.R("zrange", "t", "z", "0", "-1", "withscores").Canon())
}
