package keylab

import (
	"bytes"
	"fmt"
	"math"
	"math/rand"
	"reflect"

	rr "github.com/youzan/ZanRedisDB/rockredis"
)

func negZero() float64  { return math.Copysign(0, -1) }
func inf(s int) float64 { return math.Inf(s) }

// memcmp composite codec (rockredis/memcmp_codec.go, bytes.go, number.go).
// Supported input types per memcmpEncode: byte/int8/int16/int32/int/int64
// (all decoded as int64), string/[]byte (decoded as []byte), float32/float64
// (decoded as float64), nil. uint64 is NOT supported by the composite encoder
// (only by EncodeUint directly). NaN has no documented treatment and no order:
// it is exercised (must not panic) but neither round trip nor order is demanded.

type mval struct {
	v interface{} // normalized: []byte | int64 | float64 | nil
}

func (m mval) sig() byte {
	switch m.v.(type) {
	case []byte:
		return 'b'
	case int64:
		return 'i'
	case float64:
		return 'f'
	}
	return 'n'
}

func (m mval) String() string {
	switch x := m.v.(type) {
	case []byte:
		return qb(x)
	case float64:
		if x == 0 && math.Signbit(x) {
			return "-0"
		}
		return fmt.Sprintf("%v", x)
	case nil:
		return "nil"
	}
	return fmt.Sprintf("%v", m.v)
}

func cmpVal(a, b mval) int {
	switch x := a.v.(type) {
	case []byte:
		return bytes.Compare(x, b.v.([]byte))
	case int64:
		y := b.v.(int64)
		switch {
		case x < y:
			return -1
		case x > y:
			return 1
		}
		return 0
	case float64:
		y := b.v.(float64)
		switch {
		case x < y:
			return -1
		case x > y:
			return 1
		}
		return 0
	}
	return 0
}

func cmpTuple(a, b []mval) int {
	for i := 0; i < len(a) && i < len(b); i++ {
		if c := cmpVal(a[i], b[i]); c != 0 {
			return c
		}
	}
	switch {
	case len(a) < len(b):
		return -1
	case len(a) > len(b):
		return 1
	}
	return 0
}

func sgn(x int) int {
	switch {
	case x < 0:
		return -1
	case x > 0:
		return 1
	}
	return 0
}

func tupleString(t []mval) string {
	s := "("
	for i, v := range t {
		if i > 0 {
			s += ", "
		}
		s += v.String()
	}
	return s + ")"
}

func rawVals(t []mval) []interface{} {
	out := make([]interface{}, len(t))
	for i, v := range t {
		out[i] = v.v
	}
	return out
}

func bytesPool() [][]byte {
	var p [][]byte
	for _, s := range baseNames() {
		p = append(p, []byte(s))
	}
	p = append(p, []byte{})
	// every length around the 8-byte group size with the bytes that matter
	for n := 0; n <= 17; n++ {
		for _, fill := range []byte{0x00, 0xff, 'a', 0xf7} {
			p = append(p, bytes.Repeat([]byte{fill}, n))
		}
	}
	for _, s := range [][]byte{
		{1, 2, 3}, {1, 2, 3, 0}, {1, 2, 3, 4, 5, 6, 7, 8}, {1, 2, 3, 4, 5, 6, 7, 8, 0}, {1, 2, 3, 4, 5, 6, 7}, {1, 2, 3, 4, 5, 6, 7, 0},
		{0, 0, 0, 0, 0, 0, 0, 0, 0xff}, {0, 0, 0, 0, 0, 0, 0, 0xff}, {0xff, 0, 0, 0, 0, 0, 0, 0, 0xf7},
	} {
		p = append(p, s)
	}
	// dedupe
	seen := map[string]bool{}
	var out [][]byte
	for _, b := range p {
		if !seen[string(b)] {
			seen[string(b)] = true
			out = append(out, b)
		}
	}
	return out
}

func intPool() []int64 {
	return []int64{0, 1, -1, 2, -2, 57, 58, 59, 127, 128, 255, 256, -255, -256, 1 << 31, -(1 << 31), 1<<31 - 1, 1 << 32, 1<<62 - 1000, 1 << 62,
		math.MaxInt64, math.MaxInt64 - 1, math.MinInt64, math.MinInt64 + 1, 1695600000123456789, 1695600000123456790}
}

func floatPool() []float64 {
	return []float64{0, negZero(), 1, -1, 0.5, -0.5, 1.5, 2, 255, 256, -255, 1e-300, -1e-300, 1e300, -1e300,
		math.SmallestNonzeroFloat64, -math.SmallestNonzeroFloat64, math.MaxFloat64, -math.MaxFloat64, inf(1), inf(-1),
		float64(math.MaxInt64), float64(math.MinInt64), 9007199254740993, 1695600000.5}
}

type memcmpWitness struct {
	X      string `json:"x"`
	Y      string `json:"y,omitempty"`
	EncX   string `json:"enc_x"`
	EncY   string `json:"enc_y,omitempty"`
	Got    string `json:"got"`
	Expect string `json:"expect"`
}

func checkTupleRoundTrip(s sink, what string, t []mval) []byte {
	enc, err := rr.EncodeMemCmpKey(nil, rawVals(t)...)
	s.Count("codec_identities/roundtrip/memcmp-"+what, 1)
	if err != nil {
		s.Violation("codec-roundtrip/memcmp-"+what, fmt.Sprintf("encode %s: %v", tupleString(t), err), memcmpWitness{X: tupleString(t), Got: err.Error(), Expect: "encodes"})
		return nil
	}
	dec, err := rr.Decode(enc, len(t))
	ok := err == nil && len(dec) == len(t)
	if ok {
		for i := range t {
			switch x := t[i].v.(type) {
			case []byte:
				y, isb := dec[i].([]byte)
				ok = ok && isb && bytes.Equal(x, y)
			case float64:
				y, isf := dec[i].(float64)
				ok = ok && isf && x == y // -0 == +0: the codec maps both to one encoding
			default:
				ok = ok && reflect.DeepEqual(t[i].v, dec[i])
			}
		}
	}
	if !ok {
		s.Violation("codec-roundtrip/memcmp-"+what, fmt.Sprintf("Decode(Encode(%s)) = %v err=%v", tupleString(t), dec, err),
			memcmpWitness{X: tupleString(t), EncX: fmt.Sprintf("%q", enc), Got: fmt.Sprintf("%v err=%v", dec, err), Expect: tupleString(t)})
	}
	return enc
}

func checkTupleOrder(s sink, what string, a, b []mval, ea, eb []byte) {
	if ea == nil || eb == nil {
		return
	}
	s.Count("codec_identities/order/memcmp-"+what, 1)
	want := cmpTuple(a, b)
	got := sgn(bytes.Compare(ea, eb))
	if want != got {
		s.Violation("codec-order/memcmp-"+what, fmt.Sprintf("cmp(%s, %s) = %d but cmp(encodings) = %d", tupleString(a), tupleString(b), want, got),
			memcmpWitness{X: tupleString(a), Y: tupleString(b), EncX: fmt.Sprintf("%q", ea), EncY: fmt.Sprintf("%q", eb), Got: fmt.Sprint(got), Expect: fmt.Sprint(want)})
	}
}

func runMemcmp(s sink, r *rand.Rand, thorough bool) {
	bp, ip, fp := bytesPool(), intPool(), floatPool()
	var bv, iv, fv []mval
	for _, b := range bp {
		bv = append(bv, mval{b})
	}
	for _, i := range ip {
		iv = append(iv, mval{i})
	}
	for _, f := range fp {
		fv = append(fv, mval{f})
	}
	// documented example vectors of EncodeBytes (comment in bytes.go)
	for _, ex := range []struct{ in, out []byte }{
		{[]byte{}, []byte{0, 0, 0, 0, 0, 0, 0, 0, 247}},
		{[]byte{1, 2, 3}, []byte{1, 2, 3, 0, 0, 0, 0, 0, 250}},
		{[]byte{1, 2, 3, 0}, []byte{1, 2, 3, 0, 0, 0, 0, 0, 251}},
		{[]byte{1, 2, 3, 4, 5, 6, 7, 8}, []byte{1, 2, 3, 4, 5, 6, 7, 8, 255, 0, 0, 0, 0, 0, 0, 0, 0, 247}},
	} {
		got := rr.EncodeBytes(nil, ex.in)
		s.Count("codec_identities/documented-vectors/bytes", 1)
		if !bytes.Equal(got, ex.out) {
			s.Violation("codec-roundtrip/memcmp-bytes", fmt.Sprintf("EncodeBytes(%v) = %v, documented %v", ex.in, got, ex.out),
				memcmpWitness{X: fmt.Sprint(ex.in), EncX: fmt.Sprint(got), Got: fmt.Sprint(got), Expect: fmt.Sprint(ex.out)})
		}
	}
	// single values: round trip, all pairs order
	for _, pool := range []struct {
		name string
		vs   []mval
	}{{"bytes", bv}, {"int", iv}, {"float", fv}} {
		encs := make([][]byte, len(pool.vs))
		for i, v := range pool.vs {
			encs[i] = checkTupleRoundTrip(s, pool.name, []mval{v})
		}
		for i := range pool.vs {
			for j := range pool.vs {
				checkTupleOrder(s, pool.name, []mval{pool.vs[i]}, []mval{pool.vs[j]}, encs[i], encs[j])
			}
		}
	}
	// nil, and the other accepted Go input types
	checkTupleRoundTrip(s, "nil", []mval{{nil}})
	for _, in := range []struct {
		raw  interface{}
		want interface{}
	}{
		{byte(':'), int64(':')}, {int8(-5), int64(-5)}, {int16(-300), int64(-300)}, {int32(1 << 30), int64(1 << 30)}, {int(-7), int64(-7)},
		{"a:b", []byte("a:b")}, {float32(1.5), float64(1.5)},
	} {
		s.Count("codec_identities/roundtrip/memcmp-inputtypes", 1)
		enc, err := rr.EncodeMemCmpKey(nil, in.raw)
		var dec []interface{}
		if err == nil {
			dec, err = rr.Decode(enc, 1)
		}
		if err != nil || len(dec) != 1 || !reflect.DeepEqual(dec[0], in.want) {
			s.Violation("codec-roundtrip/memcmp-inputtypes", fmt.Sprintf("Decode(Encode(%T %v)) = %v err=%v", in.raw, in.raw, dec, err),
				memcmpWitness{X: fmt.Sprintf("%T %v", in.raw, in.raw), EncX: fmt.Sprintf("%q", enc), Got: fmt.Sprint(dec), Expect: fmt.Sprint(in.want)})
		}
	}
	// NaN: must not panic; behaviour recorded only
	func() {
		defer func() {
			if e := recover(); e != nil {
				s.Violation("decoder-panic/memcmp-float", fmt.Sprintf("NaN: %v", e), memcmpWitness{X: "NaN"})
			}
		}()
		enc, _ := rr.EncodeMemCmpKey(nil, math.NaN())
		dec, err := rr.Decode(enc, 1)
		if err == nil && len(dec) == 1 {
			if f, ok := dec[0].(float64); ok && !math.IsNaN(f) {
				s.Count("observations/nan_decodes_to_non_nan", 1)
			}
		}
	}()
	// composite tuples with the shapes the key codecs use, and random shapes
	shapes := []string{"biii", "bifib", "bii", "ib", "bb", "bib", "fb", "if", "bf", "bbb", "ii", "ff", "b", "bi"}
	gen := func(shape string) []mval {
		t := make([]mval, len(shape))
		for i, c := range []byte(shape) {
			switch c {
			case 'b':
				t[i] = bv[r.Intn(len(bv))]
			case 'i':
				t[i] = iv[r.Intn(len(iv))]
			case 'f':
				t[i] = fv[r.Intn(len(fv))]
			}
		}
		return t
	}
	n := 30000
	if thorough {
		n = 600000
	}
	for k := 0; k < n; k++ {
		shape := shapes[r.Intn(len(shapes))]
		a := gen(shape)
		b := gen(shape)
		// make b share a prefix with a most of the time: the interesting comparisons
		if share := r.Intn(len(shape) + 1); share > 0 {
			copy(b[:share], a[:share])
		}
		if r.Intn(8) == 0 {
			b = b[:r.Intn(len(b)+1)] // proper prefix tuple
			if len(b) == 0 {
				b = a[:1]
			}
		}
		ea := checkTupleRoundTrip(s, "tuple", a)
		eb := checkTupleRoundTrip(s, "tuple", b)
		checkTupleOrder(s, "tuple", a, b, ea, eb)
	}
	// direct number/bytes codecs incl. the descending variants and uint
	for i, x := range bp {
		e := rr.EncodeBytes(nil, x)
		rest, d, err := rr.DecodeBytes(append(append([]byte{}, e...), 0x55))
		s.Count("codec_identities/roundtrip/bytes", 1)
		if err != nil || !bytes.Equal(d, x) || len(rest) != 1 {
			s.Violation("codec-roundtrip/memcmp-bytes", fmt.Sprintf("DecodeBytes(EncodeBytes(%s)) = %q rest=%d err=%v", qb(x), d, len(rest), err), memcmpWitness{X: qb(x), EncX: fmt.Sprintf("%q", e), Got: fmt.Sprintf("%q", d)})
		}
		// descending variant at an odd offset in the buffer (unaligned word access in fastReverseBytes)
		pre := bytes.Repeat([]byte{9}, i%4)
		ed := rr.EncodeBytesDesc(append([]byte{}, pre...), x)
		_, dd, err := rr.DecodeBytesDesc(append([]byte{}, ed[len(pre):]...))
		s.Count("codec_identities/roundtrip/bytes-desc", 1)
		if err != nil || !bytes.Equal(dd, x) {
			s.Violation("codec-roundtrip/memcmp-bytes-desc", fmt.Sprintf("DecodeBytesDesc(EncodeBytesDesc(%s)) = %q err=%v", qb(x), dd, err), memcmpWitness{X: qb(x), EncX: fmt.Sprintf("%q", ed), Got: fmt.Sprintf("%q", dd)})
		}
		for _, y := range bp {
			edy := rr.EncodeBytesDesc(nil, y)
			edx := rr.EncodeBytesDesc(nil, x)
			s.Count("codec_identities/order/bytes-desc", 1)
			if sgn(bytes.Compare(edx, edy)) != -sgn(bytes.Compare(x, y)) {
				s.Violation("codec-order/memcmp-bytes-desc", fmt.Sprintf("descending order broken for %s vs %s", qb(x), qb(y)), memcmpWitness{X: qb(x), Y: qb(y), EncX: fmt.Sprintf("%q", edx), EncY: fmt.Sprintf("%q", edy)})
			}
		}
	}
	for _, x := range ip {
		_, d, err := rr.DecodeInt(rr.EncodeInt(nil, x))
		_, dd, err2 := rr.DecodeIntDesc(rr.EncodeIntDesc(nil, x))
		_, du, err3 := rr.DecodeUint(rr.EncodeUint(nil, uint64(x)))
		_, dud, err4 := rr.DecodeUintDesc(rr.EncodeUintDesc(nil, uint64(x)))
		s.Count("codec_identities/roundtrip/int-uint-desc", 4)
		if err != nil || err2 != nil || err3 != nil || err4 != nil || d != x || dd != x || du != uint64(x) || dud != uint64(x) {
			s.Violation("codec-roundtrip/memcmp-int", fmt.Sprintf("int/uint round trip of %d: %d %d %d %d", x, d, dd, du, dud), memcmpWitness{X: fmt.Sprint(x)})
		}
		for _, y := range ip {
			s.Count("codec_identities/order/int-uint-desc", 3)
			c := sgn(bytes.Compare(rr.EncodeIntDesc(nil, x), rr.EncodeIntDesc(nil, y)))
			cu := sgn(bytes.Compare(rr.EncodeUint(nil, uint64(x)), rr.EncodeUint(nil, uint64(y))))
			cud := sgn(bytes.Compare(rr.EncodeUintDesc(nil, uint64(x)), rr.EncodeUintDesc(nil, uint64(y))))
			wi := cmpVal(mval{x}, mval{y})
			wu := 0
			if uint64(x) < uint64(y) {
				wu = -1
			} else if uint64(x) > uint64(y) {
				wu = 1
			}
			if c != -wi || cu != wu || cud != -wu {
				s.Violation("codec-order/memcmp-int", fmt.Sprintf("desc/uint order broken for %d vs %d", x, y), memcmpWitness{X: fmt.Sprint(x), Y: fmt.Sprint(y)})
			}
		}
	}
	for _, x := range fp {
		_, d, err := rr.DecodeFloat(rr.EncodeFloat(nil, x))
		_, dd, err2 := rr.DecodeFloatDesc(rr.EncodeFloatDesc(nil, x))
		s.Count("codec_identities/roundtrip/float-desc", 2)
		if err != nil || err2 != nil || d != x || dd != x {
			s.Violation("codec-roundtrip/memcmp-float", fmt.Sprintf("float round trip of %v: %v %v", x, d, dd), memcmpWitness{X: fmt.Sprint(x)})
		}
		for _, y := range fp {
			s.Count("codec_identities/order/float-desc", 1)
			c := sgn(bytes.Compare(rr.EncodeFloatDesc(nil, x), rr.EncodeFloatDesc(nil, y)))
			if c != -cmpVal(mval{x}, mval{y}) {
				s.Violation("codec-order/memcmp-float", fmt.Sprintf("desc order broken for %v vs %v", x, y), memcmpWitness{X: fmt.Sprint(x), Y: fmt.Sprint(y)})
			}
		}
	}
	s.Eval(1)
	s.Nontrivial("memcmp")
}

// runLimits records the documented size limits (the behavioural part checks
// that over-limit names are refused without side effects).
func runLimits(s sink) {
	s.Max("limits/max_key_size", int64(maxKey))
	s.Max("limits/max_subkey_len", int64(maxSub))
}
