package keylab

import (
	"fmt"
	"math/rand"
	"strconv"
	"strings"

	"verif/harness/smlab"
)

// scripts: per type, the operation families applied to one target key, in an
// order that keeps the key alive for the mutating operations and re-creates it
// after every removal.
var scripts = map[string][]string{
	"kv": {"set", "append", "setrange", "getset", "setnx", "expire", "persist", "setex", "setifeq-miss", "setifeq-hit", "delifeq-miss",
		"delifeq-hit", "setnx", "incr", "del", "incr", "incrby", "del", "pfadd", "pfadd", "set", "mset2", "plset2", "del2", "set-ex", "set",
		// multi-key writes whose keys span several TABLES (the table key counters are judged exactly, see checkTableCounters)
		"del-mt", "plset-mt", "del-mt", "mset-mt", "plset-mt"},
	"hash": {"hset", "hmset", "hsetnx", "hsetnx", "hincrby", "hdel", "hexpire", "hpersist", "hclear", "hset", "hmclear2", "hmset", "hdel-all", "hmset"},
	"list": {"rpush", "lpush", "lset", "lpop", "rpop", "ltrim", "lexpire", "lpersist", "lclear", "rpush", "lmclear2", "lfixkey", "rpush", "lpop-all", "rpush"},
	"set":  {"sadd", "sadd1", "srem", "spop", "sexpire", "spersist", "sclear", "sadd", "smclear2", "sadd", "srem-all", "sadd"},
	"zset": {"zadd", "zadd1", "zincrby", "zrem", "zremrangebyrank", "zremrangebyscore", "zremrangebylex", "zexpire", "zpersist", "zclear", "zadd",
		"zmclear2", "zfixkey", "zadd", "zremrangebyscore-all", "zadd"},
	"bitmap": {"setbit", "setbit-seg2", "setbit-off", "bexpire", "bpersist", "bitclear", "setbit", "setbit-seg2"},
	"json":   {"json.set", "json.set-path", "json.arrappend", "json.arrpop", "json.del-path", "json.del", "json.set"},
}

// sub-key scripts for the S worlds: applied per (collection, sub-key).
var subScripts = map[string][]string{
	"hash": {"hset", "hincrby", "hdel", "hsetnx"},
	"set":  {"sadd1", "srem1", "sadd1"},
	"zset": {"zadd1", "zincrby", "zrem1", "zadd1"},
}

func bs(ss ...string) [][]byte {
	out := make([][]byte, len(ss))
	for i, s := range ss {
		out[i] = []byte(s)
	}
	return out
}

func (w *world) cmd(name string, a tkey, rest ...string) *smlab.Cmd {
	c := smlab.CB(name, []byte(a.Table), []byte(a.Key), bs(rest...)...)
	return &c
}

// multiKeys builds a command whose arguments are all keys with namespace (del).
func multiKeys(name string, ks ...tkey) *smlab.Cmd {
	c := smlab.Cmd{Args: [][]byte{[]byte(name)}}
	for _, k := range ks {
		c.Args = append(c.Args, smlab.NsKey(smlab.DefaultNamespaceBase, []byte(k.Table), []byte(k.Key)))
	}
	return &c
}

// mclear builds an apply-side *MCLEAR: these commands are only registered on
// the apply side (no client entry point); the proposer format cuts the
// namespace of Args[1] only, further keys are "table:key".
func mclear(name string, ks ...tkey) *smlab.Cmd {
	c := smlab.Cmd{Args: [][]byte{[]byte(name)}}
	for i, k := range ks {
		if i == 0 {
			c.Args = append(c.Args, smlab.NsKey(smlab.DefaultNamespaceBase, []byte(k.Table), []byte(k.Key)))
		} else {
			c.Args = append(c.Args, k.tk())
		}
	}
	return &c
}

func kvPairs(name string, kvs ...string) *smlab.Cmd { // table, key, value triples
	c := smlab.Cmd{Args: [][]byte{[]byte(name)}}
	for i := 0; i+3 <= len(kvs); i += 3 {
		c.Args = append(c.Args, smlab.NsKey(smlab.DefaultNamespaceBase, []byte(kvs[i]), []byte(kvs[i+1])), []byte(kvs[i+2]))
	}
	return &c
}

func (w *world) ttl() string {
	w.uniq++
	return strconv.FormatInt(864000+w.uniq, 10)
}

// pickSubs returns n distinct sub-key names of the world, rotating.
func (w *world) pickSubs(r *rand.Rand, n int) []string {
	subs := w.spec.Subs
	if n > len(subs) {
		n = len(subs)
	}
	off := r.Intn(len(subs))
	out := make([]string, 0, n)
	for i := 0; i < n; i++ {
		out = append(out, subs[(off+i)%len(subs)])
	}
	return out
}

// existingSubs returns up to n sub-keys that the collection holds now.
func (w *world) existingSubs(a tkey, n int) []string {
	m, _ := w.content(a)
	var out []string
	for _, s := range w.spec.Subs { // deterministic order
		if _, ok := m[s]; ok {
			out = append(out, s)
			if len(out) >= n {
				break
			}
		}
	}
	return out
}

// buildOp builds one step of family op on key a. partner is another key of
// the same type for the two-key commands. sub, if non-empty-slice, forces the
// sub-key (S worlds).
func (w *world) buildOp(r *rand.Rand, op string, a tkey, partner tkey, forced []string) *stepT {
	T := func(subs []string) []target { return []target{{tkey: a, Subs: subs}} }
	whole := T(nil)
	v := w.nextVal()
	switch op {
	// ---------------- kv ----------------
	case "set":
		w.kvVal[a] = v
		return &stepT{Op: op, Targets: whole, Cmd: w.cmd("set", a, v)}
	case "set-ex":
		w.kvVal[a] = v
		return &stepT{Op: op, Targets: whole, Cmd: w.cmd("set", a, v, "ex", w.ttl())}
	case "append":
		w.kvVal[a] += v
		return &stepT{Op: op, Targets: whole, Cmd: w.cmd("append", a, v)}
	case "setrange":
		delete(w.kvVal, a)
		return &stepT{Op: op, Targets: whole, Cmd: w.cmd("setrange", a, "3", v)}
	case "getset":
		w.kvVal[a] = v
		return &stepT{Op: op, Targets: whole, Cmd: w.cmd("getset", a, v)}
	case "setnx":
		if !w.present(a) {
			w.kvVal[a] = v
		}
		return &stepT{Op: op, Targets: whole, Cmd: w.cmd("setnx", a, v)}
	case "setex":
		w.kvVal[a] = v
		return &stepT{Op: op, Targets: whole, Cmd: w.cmd("setex", a, w.ttl(), v)}
	case "expire":
		return &stepT{Op: op, Targets: whole, Cmd: w.cmd("expire", a, w.ttl())}
	case "persist":
		return &stepT{Op: op, Targets: whole, Cmd: w.cmd("persist", a)}
	case "setifeq-miss":
		return &stepT{Op: op, Targets: whole, Cmd: w.cmd("setifeq", a, "no-such-value", v)}
	case "setifeq-hit":
		old := w.kvVal[a]
		w.kvVal[a] = v
		return &stepT{Op: op, Targets: whole, Cmd: w.cmd("setifeq", a, old, v, "ex", w.ttl())}
	case "delifeq-miss":
		return &stepT{Op: op, Targets: whole, Cmd: w.cmd("delifeq", a, "no-such-value")}
	case "delifeq-hit":
		old := w.kvVal[a]
		return &stepT{Op: op, Targets: whole, Cmd: w.cmd("delifeq", a, old)}
	case "incr":
		delete(w.kvVal, a)
		return &stepT{Op: op, Targets: whole, Cmd: w.cmd("incr", a)}
	case "incrby":
		delete(w.kvVal, a)
		w.uniq++
		return &stepT{Op: op, Targets: whole, Cmd: w.cmd("incrby", a, strconv.FormatInt(w.uniq, 10))}
	case "del":
		delete(w.kvVal, a)
		return &stepT{Op: op, Targets: whole, Cmd: multiKeys("del", a), Removes: true}
	case "del2":
		delete(w.kvVal, a)
		delete(w.kvVal, partner)
		return &stepT{Op: op, Targets: []target{{tkey: a}, {tkey: partner}}, Cmd: multiKeys("del", a, partner), Removes: true}
	case "del-mt":
		// DEL a, <same-table partner>, <keys of 1-2 other tables>
		ks := w.multiTableKeys(a, partner)
		var ts []target
		for _, k := range ks {
			delete(w.kvVal, k)
			ts = append(ts, target{tkey: k})
		}
		return &stepT{Op: op, Targets: ts, Cmd: multiKeys("del", ks...), Removes: true}
	case "mset-mt", "plset-mt":
		// keys of a's table first, the key of another table LAST
		ks := w.multiTableKeys(a, partner)
		var ts []target
		var args []string
		for _, k := range ks {
			val := w.nextVal()
			w.kvVal[k] = val
			ts = append(ts, target{tkey: k})
			args = append(args, k.Table, k.Key, val)
		}
		return &stepT{Op: op, Targets: ts, Cmd: kvPairs(strings.TrimSuffix(op, "-mt"), args...)}
	case "mset2", "plset2":
		v2 := w.nextVal()
		w.kvVal[a], w.kvVal[partner] = v, v2
		return &stepT{Op: op, Targets: []target{{tkey: a}, {tkey: partner}}, Cmd: kvPairs(strings.TrimSuffix(op, "2"), a.Table, a.Key, v, partner.Table, partner.Key, v2)}
	case "pfadd":
		delete(w.kvVal, a)
		return &stepT{Op: op, Targets: whole, Cmd: w.cmd("pfadd", a, v, v+"x")}

	// ---------------- hash ----------------
	case "hset", "hsetnx":
		subs := forced
		if subs == nil {
			subs = w.pickSubs(r, 1)
		}
		st := &stepT{Op: op, Targets: T(subs), Cmd: w.cmd(op, a, subs[0], v)}
		st.CreatesMap = map[string]string{subs[0]: v}
		return st
	case "hmset":
		subs := w.pickSubs(r, 3)
		args := []string{}
		cm := map[string]string{}
		for i, s := range subs {
			val := fmt.Sprintf("%s.%d", v, i)
			args = append(args, s, val)
			cm[s] = val
		}
		return &stepT{Op: op, Targets: T(subs), Cmd: w.cmd("hmset", a, args...), CreatesMap: cm}
	case "hincrby":
		subs := forced
		if subs == nil {
			subs = w.pickSubs(r, 1)
		}
		w.uniq++
		// the field may hold a non-numeric value: then the command is refused, which is a step as well
		return &stepT{Op: op, Targets: T(subs), Cmd: w.cmd("hincrby", a, subs[0], strconv.FormatInt(w.uniq, 10))}
	case "hdel":
		subs := forced
		if subs == nil {
			subs = w.existingSubs(a, 1)
			if len(subs) == 0 {
				subs = w.pickSubs(r, 1)
			}
		}
		return &stepT{Op: op, Targets: T(subs), Cmd: w.cmd("hdel", a, subs...)}
	case "hdel-all":
		subs := w.existingSubs(a, 1000)
		if len(subs) == 0 {
			subs = w.pickSubs(r, 1)
		}
		return &stepT{Op: op, Targets: T(subs), Cmd: w.cmd("hdel", a, subs...), Removes: len(subs) > 0 && w.present(a)}
	case "hexpire", "lexpire", "sexpire", "zexpire", "bexpire":
		return &stepT{Op: op, Targets: whole, Cmd: w.cmd(op, a, w.ttl())}
	case "hpersist", "lpersist", "spersist", "zpersist", "bpersist":
		return &stepT{Op: op, Targets: whole, Cmd: w.cmd(op, a)}
	case "hclear", "lclear", "sclear", "zclear", "bitclear":
		return &stepT{Op: op, Targets: whole, Cmd: w.cmd(op, a), Removes: true}
	case "hmclear2", "lmclear2", "smclear2", "zmclear2":
		return &stepT{Op: op, Targets: []target{{tkey: a}, {tkey: partner}}, Cmd: mclear(strings.TrimSuffix(op, "2"), a, partner), Removes: true}

	// ---------------- list ----------------
	case "rpush", "lpush":
		vals := []string{v + ".0", v + ".1", v + ".2"}
		st := &stepT{Op: op, Targets: whole, Cmd: w.cmd(op, a, vals...)}
		if op == "rpush" {
			st.CreatesList = vals
		} else {
			st.CreatesList = []string{vals[2], vals[1], vals[0]}
		}
		return st
	case "lset":
		return &stepT{Op: op, Targets: whole, Cmd: w.cmd("lset", a, "1", v)}
	case "lpop", "rpop":
		return &stepT{Op: op, Targets: whole, Cmd: w.cmd(op, a)}
	case "lpop-all":
		// pop until empty is several steps; here: trim to nothing
		return &stepT{Op: op, Targets: whole, Cmd: w.cmd("ltrim", a, "1", "0"), Removes: w.present(a)}
	case "ltrim":
		return &stepT{Op: op, Targets: whole, Cmd: w.cmd("ltrim", a, "1", "-2")}
	case "lfixkey", "zfixkey":
		return &stepT{Op: op, Targets: whole, Cmd: w.cmd(op, a)}

	// ---------------- set ----------------
	case "sadd":
		subs := w.pickSubs(r, 3)
		cm := map[string]string{}
		for _, s := range subs {
			cm[s] = ""
		}
		return &stepT{Op: op, Targets: T(subs), Cmd: w.cmd("sadd", a, subs...), CreatesMap: cm}
	case "sadd1":
		subs := forced
		if subs == nil {
			subs = w.pickSubs(r, 1)
		}
		return &stepT{Op: op, Targets: T(subs), Cmd: w.cmd("sadd", a, subs...), CreatesMap: map[string]string{subs[0]: ""}}
	case "srem", "srem1":
		subs := forced
		if subs == nil {
			subs = w.existingSubs(a, 1)
			if len(subs) == 0 {
				subs = w.pickSubs(r, 1)
			}
		}
		return &stepT{Op: op, Targets: T(subs), Cmd: w.cmd("srem", a, subs...)}
	case "srem-all":
		subs := w.existingSubs(a, 1000)
		if len(subs) == 0 {
			subs = w.pickSubs(r, 1)
		}
		return &stepT{Op: op, Targets: T(subs), Cmd: w.cmd("srem", a, subs...), Removes: w.present(a)}
	case "spop":
		return &stepT{Op: op, Targets: whole, Cmd: w.cmd("spop", a)}

	// ---------------- zset ----------------
	case "zadd":
		subs := w.pickSubs(r, 3)
		args := []string{}
		cm := map[string]string{}
		for _, s := range subs {
			w.uniq++
			sc := strconv.FormatInt(w.uniq, 10)
			args = append(args, sc, s)
			cm[s] = sc
		}
		return &stepT{Op: op, Targets: T(subs), Cmd: w.cmd("zadd", a, args...), CreatesMap: cm}
	case "zadd1":
		subs := forced
		if subs == nil {
			subs = w.pickSubs(r, 1)
		}
		w.uniq++
		sc := strconv.FormatInt(w.uniq, 10)
		return &stepT{Op: op, Targets: T(subs), Cmd: w.cmd("zadd", a, sc, subs[0]), CreatesMap: map[string]string{subs[0]: sc}}
	case "zincrby":
		subs := forced
		if subs == nil {
			subs = w.pickSubs(r, 1)
		}
		return &stepT{Op: op, Targets: T(subs), Cmd: w.cmd("zincrby", a, "1.5", subs[0])}
	case "zrem", "zrem1":
		subs := forced
		if subs == nil {
			subs = w.existingSubs(a, 1)
			if len(subs) == 0 {
				subs = w.pickSubs(r, 1)
			}
		}
		return &stepT{Op: op, Targets: T(subs), Cmd: w.cmd("zrem", a, subs...)}
	case "zremrangebyrank":
		return &stepT{Op: op, Targets: whole, Cmd: w.cmd("zremrangebyrank", a, "0", "0")}
	case "zremrangebyscore":
		return &stepT{Op: op, Targets: whole, Cmd: w.cmd("zremrangebyscore", a, "-inf", "(0")}
	case "zremrangebyscore-all":
		return &stepT{Op: op, Targets: whole, Cmd: w.cmd("zremrangebyscore", a, "-inf", "+inf"), Removes: w.present(a)}
	case "zremrangebylex":
		return &stepT{Op: op, Targets: whole, Cmd: w.cmd("zremrangebylex", a, "[a", "(a:")}

	// ---------------- bitmap ----------------
	case "setbit":
		return &stepT{Op: op, Targets: []target{{tkey: a, AlsoKV: true}}, Cmd: w.cmd("setbitv2", a, strconv.Itoa(1+r.Intn(8000)), "1")}
	case "setbit-seg2":
		return &stepT{Op: op, Targets: []target{{tkey: a, AlsoKV: true}}, Cmd: w.cmd("setbit", a, strconv.Itoa(8192*3+r.Intn(8000)), "1")}
	case "setbit-off":
		return &stepT{Op: op, Targets: []target{{tkey: a, AlsoKV: true}}, Cmd: w.cmd("setbitv2", a, "5", "0")}

	// ---------------- json ----------------
	case "json.set":
		return &stepT{Op: op, Targets: whole, Cmd: w.cmd("json.set", a, "", fmt.Sprintf(`{"a":"%s","arr":[1,2]}`, v))}
	case "json.set-path":
		return &stepT{Op: op, Targets: whole, Cmd: w.cmd("json.set", a, ".b", fmt.Sprintf(`"%s"`, v))}
	case "json.arrappend":
		return &stepT{Op: op, Targets: whole, Cmd: w.cmd("json.arrappend", a, ".arr", fmt.Sprintf(`"%s"`, v), "7")}
	case "json.arrpop":
		return &stepT{Op: op, Targets: whole, Cmd: w.cmd("json.arrpop", a, ".arr")}
	case "json.del-path":
		return &stepT{Op: op, Targets: whole, Cmd: w.cmd("json.del", a, ".b")}
	case "json.del":
		return &stepT{Op: op, Targets: whole, Cmd: w.cmd("json.del", a), Removes: true}
	}
	panic("keylab: unknown op " + op)
}

// createOp is the operation that (re-)creates a key of the type.
var createOp = map[string]string{"kv": "set", "hash": "hmset", "list": "rpush", "set": "sadd", "zset": "zadd", "bitmap": "setbit", "json": "json.set"}

// overLimitSteps: names one byte over the documented limits must be refused
// without any effect (the proposing node refuses them earlier; this is the
// storage layer's own check).
func (w *world) overLimitSteps(table string) []*stepT {
	var out []*stepT
	longKey := rep('O', maxKey+1)
	longSub := rep('o', maxSub+1)
	kvKey := rep('O', maxKey+1-len(table)-1) // "table:key" is maxKey+1 bytes
	mk := func(op string, c *smlab.Cmd, a tkey) {
		out = append(out, &stepT{Op: op, Targets: []target{{tkey: a}}, Cmd: c, ExpectErr: true})
	}
	a := tkey{"kv", table, kvKey}
	mk("overlimit-set", w.cmd("set", a, "x"), a)
	mk("overlimit-incr", w.cmd("incr", a), a)
	for _, tc := range []struct {
		typ, op string
		rest    []string
	}{
		{"hash", "hset", []string{"f", "x"}}, {"hash", "hmset", []string{"f", "x"}}, {"list", "rpush", []string{"x"}}, {"set", "sadd", []string{"m"}},
		{"zset", "zadd", []string{"1", "m"}}, {"bitmap", "setbitv2", []string{"1", "1"}}, {"json", "json.set", []string{"", "1"}},
	} {
		a := tkey{tc.typ, table, longKey}
		mk("overlimit-"+tc.op, w.cmd(tc.op, a, tc.rest...), a)
	}
	for _, tc := range []struct {
		typ, op string
		rest    []string
	}{
		{"hash", "hset", []string{longSub, "x"}}, {"hash", "hmset", []string{longSub, "x"}}, {"hash", "hdel", []string{longSub}},
		{"set", "sadd", []string{longSub}}, {"set", "srem", []string{longSub}}, {"zset", "zadd", []string{"1", longSub}}, {"zset", "zrem", []string{longSub}},
	} {
		a := tkey{tc.typ, table, "overlimit-sub"}
		mk("overlimit-sub-"+tc.op, w.cmd(tc.op, a, tc.rest...), a)
	}
	return out
}
