package keylab

import (
	"bufio"
	"encoding/json"
	"fmt"
	"io"
	"os"
	"strconv"
	"strings"
	"sync"

	"verif/harness/vc"
)

// sink receives verdicts and measurements. The in-process implementation
// forwards to vc.Ctx; the child-process implementation (sanitizer children)
// prints tab-separated lines that the parent replays into its own Ctx.
type sink interface {
	Violation(sig, summary string, witness interface{})
	Count(key string, n int64)
	Max(key string, v int64)
	Nontrivial(fp string)
	Eval(n int)
	Sample(max int, v interface{})
	Progress(format string, a ...interface{})
}

type ctxSink struct {
	c *vc.Ctx
	// at most a few witnesses per signature: one defect class usually fires on
	// very many tuples, the first ones are enough
	mu     sync.Mutex
	perSig map[string]int
}

func newCtxSink(c *vc.Ctx) *ctxSink { return &ctxSink{c: c, perSig: map[string]int{}} }

const maxPerSignature = 3

func (s *ctxSink) Violation(sig, summary string, witness interface{}) {
	s.mu.Lock()
	s.perSig[sig]++
	n := s.perSig[sig]
	s.mu.Unlock()
	s.c.Ev.Count("alarms_by_signature/"+sig, 1)
	if n > maxPerSignature {
		if os.Getenv("KEYLAB_VERBOSE") != "" { // development aid only
			fmt.Printf("  (suppressed) %s: %s\n", sig, summary)
		}
		return
	}
	s.c.Violation(sig, summary, witness)
}
func (s *ctxSink) Count(key string, n int64)     { s.c.Ev.Count(key, n) }
func (s *ctxSink) Max(key string, v int64)       { s.c.Ev.Max(key, v) }
func (s *ctxSink) Nontrivial(fp string)          { s.c.Ev.Nontrivial(fp) }
func (s *ctxSink) Eval(n int)                    { s.c.Ev.EvalN(n) }
func (s *ctxSink) Sample(max int, v interface{}) { s.c.Ev.Sample(max, v) }
func (s *ctxSink) Progress(f string, a ...interface{}) {
	fmt.Printf("  "+f+"\n", a...)
}

// lineSink is used inside sanitizer children.
type lineSink struct {
	mu sync.Mutex
	w  *bufio.Writer
}

func newLineSink(w io.Writer) *lineSink { return &lineSink{w: bufio.NewWriter(w)} }

func (s *lineSink) emit(kind string, fields ...string) {
	s.mu.Lock()
	defer s.mu.Unlock()
	s.w.WriteString("@@" + kind)
	for _, f := range fields {
		s.w.WriteByte('\t')
		s.w.WriteString(strconv.Quote(f))
	}
	s.w.WriteByte('\n')
	s.w.Flush()
}
func (s *lineSink) Violation(sig, summary string, witness interface{}) {
	b, err := json.Marshal(witness)
	if err != nil {
		b = []byte(strconv.Quote("witness marshal error: " + err.Error()))
	}
	s.emit("V", sig, summary, string(b))
}
func (s *lineSink) Count(key string, n int64)     { s.emit("C", key, strconv.FormatInt(n, 10)) }
func (s *lineSink) Max(key string, v int64)       { s.emit("M", key, strconv.FormatInt(v, 10)) }
func (s *lineSink) Nontrivial(fp string)          { s.emit("N", fp) }
func (s *lineSink) Eval(n int)                    { s.emit("E", strconv.Itoa(n)) }
func (s *lineSink) Sample(max int, v interface{}) {}
func (s *lineSink) Progress(f string, a ...interface{}) {
	s.emit("P", fmt.Sprintf(f, a...))
}

// replayChildLines feeds the @@ lines of a child's stdout into dst, prefixing
// counters with prefix. It returns the number of protocol lines seen and
// whether the child's final "@@DONE" marker was present.
func replayChildLines(r io.Reader, dst sink, prefix string) (lines int, done bool, other []string) {
	sc := bufio.NewScanner(r)
	sc.Buffer(make([]byte, 1<<20), 64<<20)
	for sc.Scan() {
		ln := sc.Text()
		if !strings.HasPrefix(ln, "@@") {
			if len(other) < 200 {
				other = append(other, ln)
			}
			continue
		}
		parts := strings.Split(ln[2:], "\t")
		kind := parts[0]
		f := make([]string, 0, len(parts)-1)
		for _, p := range parts[1:] {
			u, err := strconv.Unquote(p)
			if err != nil {
				u = p
			}
			f = append(f, u)
		}
		lines++
		switch kind {
		case "V":
			if len(f) == 3 {
				var w interface{}
				json.Unmarshal([]byte(f[2]), &w)
				dst.Violation(f[0], "["+prefix+"] "+f[1], w)
			}
		case "C":
			if len(f) == 2 {
				n, _ := strconv.ParseInt(f[1], 10, 64)
				dst.Count(prefix+"/"+f[0], n)
			}
		case "M":
			if len(f) == 2 {
				n, _ := strconv.ParseInt(f[1], 10, 64)
				dst.Max(prefix+"/"+f[0], n)
			}
		case "N":
			if len(f) == 1 {
				dst.Nontrivial(prefix + "/" + f[0])
			}
		case "E":
			if len(f) == 1 {
				n, _ := strconv.Atoi(f[0])
				dst.Eval(n)
			}
		case "P":
			if len(f) == 1 {
				dst.Progress("[%s] %s", prefix, f[0])
			}
		case "DONE":
			done = true
		}
	}
	return
}

func childDone() { fmt.Fprintln(os.Stdout, "@@DONE") }
