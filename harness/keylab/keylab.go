package keylab

import (
	"fmt"
	"os"
	"runtime/pprof"

	"verif/harness/smlab"
	"verif/harness/vc"
)

func init() {
	vc.Register("C12", "exploration", runC12)
	vc.Register("C13", "exploration", runC13)
	vc.Need("C12", "race")
	vc.Need("C13", "asan")
	vc.RegisterChild("c12-race", c12RaceChild)
	vc.RegisterChild("c13-asan", c13AsanChild)
}

func runC12(c *vc.Ctx) error {
	smlab.QuietLogs(c.Scratch)
	s := newCtxSink(c)
	if c.Replay != "" {
		return replayC12(c, s)
	}
	fmt.Printf("C12 %s seed=%d: codec identities\n", c.Tier, c.Seed)
	runCodecIdentities(s, c.Seed, c.Thorough())
	if pf := os.Getenv("KEYLAB_PROF"); pf != "" { // development aid only
		f, _ := os.Create(pf)
		pprof.StartCPUProfile(f)
		defer pprof.StopCPUProfile()
	}
	fmt.Printf("C12 %s seed=%d: behavioural non-interference\n", c.Tier, c.Seed)
	if err := runInterference(c, s); err != nil {
		return err
	}
	if c.Thorough() {
		runC12RaceChild(c, s)
	}
	finishC12Evidence(c)
	return nil
}
