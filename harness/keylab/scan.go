package keylab

import (
	"encoding/json"
	"fmt"
	"io/ioutil"
	"math/rand"
	"os"
	"path/filepath"
	"sort"
	"strconv"
	"strings"
	"sync"

	"verif/harness/inproc"
	"verif/harness/smlab"
	"verif/harness/vc"
)

// C13 — cursor scans return every element exactly once, in order (node-handler
// level, one partition). Every request goes through the REAL handlers of
// node/scan.go via smlab.Read (cursor parsing / formatting included).
//
// A population is one real store: table "t" holds, for each of the five
// scannable types, keys with the SAME n adversarial names (each type is a decoy
// for the others), decoy tables sort directly below and above "t" ("s", "t1",
// "t9", "t\x00" below; "t;", "u" above) and hold the same names; for HSCAN/
// SSCAN/ZSCAN collection "c" of table "t" holds n elements and is surrounded
// by decoy collections ("b", "c\x00", "c:", "c;", "d") with the same element
// names. The expected result of a chain is what the harness wrote.

var scanTypes = []string{"kv", "hash", "list", "set", "zset"}

const scanTable = "t"
const scanColl = "c"

var scanDecoyTables = []string{"s", "t1", "t9", "t\x00", "t;", "u"}
var scanDecoyColls = []string{"b", "c\x00", "c:", "c;", "d", "bb"}

type popSpec struct {
	ID      int    `json:"id"`
	Engine  string `json:"engine"`
	Policy  string `json:"policy"`
	N       int    `json:"n"`
	Shape   string `json:"shape"` // adversarial | ascii (for MATCH) | boundary
	Mutate  bool   `json:"mutate_other_keys_between_pages"`
	names   []string
	dynamic []string // names that come and go between pages (Mutate)
}

// scanNameFixed: non-empty adversarial names (prefixes of each other, the
// separators, the first and last possible names of a table).
func scanNameFixed() []string {
	return []string{"a", "aa", "a:", "a:b", "a;", "a\x00", "a\xff", "\x00", "\x00\x00", "\xff", "\xff\xff", ":", ";", "9", "b", "ab",
		"meta:", "t:a", "aaaaaaaa", "aaaaaaaaa", "\x01", "a\x00b", "::", "\xff\xfe", "\x00\xff", rep('z', 300)}
}

func planPops(seed int64, thorough bool) []popSpec {
	var out []popSpec
	id := 0
	sizes := []int{0, 1, 2, 3, 4, 5, 7, 11, 20, 50}
	reps := 3
	if thorough {
		reps = 24
	}
	for _, c := range combos {
		for _, shape := range []string{"adversarial", "nozero", "boundary", "ascii"} {
			for _, n := range sizes {
				for rep := 0; rep < reps; rep++ {
					for _, mut := range []bool{false, true} {
						if mut && (n < 3 || shape == "ascii" || (!thorough && n > 11)) {
							continue
						}
						if rep > 0 && (n == 0 || shape == "ascii" && rep > 1) {
							continue // the same names again
						}
						id++
						sp := popSpec{ID: id, Engine: c.engine, Policy: c.policy, N: n, Shape: shape, Mutate: mut}
						r := rand.New(rand.NewSource(seed*1000003 + int64(id)*7919 + 31))
						switch shape {
						case "adversarial":
							sp.names = pickAlphabet(r, scanNameFixed(), n, true, false)
						case "nozero":
							// no 0x00 bytes: engine mem mishandles them (see memRadix00), this shape keeps mem meaningful
							var pool []string
							for _, x := range scanNameFixed() {
								if !strings.Contains(x, "\x00") {
									pool = append(pool, x)
								}
							}
							for len(pool) < n {
								pool = append(pool, fmt.Sprintf("a:%c%d", 'a'+len(pool)%7, len(pool)))
							}
							sp.names = pickAlphabet(r, pool, n, true, false)
						case "boundary":
							// the first and the last possible names always present
							base := []string{"\x00", "\xff\xff", "\xff", "\x00\x00", ":"}
							if n < len(base) {
								base = base[:n]
							}
							sp.names = append(append([]string{}, base...), pickAlphabet(r, scanNameFixed(), n, true, false)...)
							sp.names = dedupe(sp.names)[:n]
						case "ascii":
							pool := []string{"a", "ab", "abc", "b", "ba", "bab", "c1", "c2", "c10", "key", "key1", "key10", "key2", "x-y", "x_y", "xy", "a1b", "a2b", "a12b", "zz"}
							sp.names = pickAlphabet(r, pool, n, false, false)
							for i := range sp.names { // top-ups of pickAlphabet are binary: replace
								if !isPlainASCII(sp.names[i]) {
									sp.names[i] = fmt.Sprintf("gen%03d", i)
								}
							}
						}
						if mut {
							for i := 0; i < 6; i++ {
								sp.dynamic = append(sp.dynamic, fmt.Sprintf("%s~%d", []string{"a", "\x00", "\xff", "m", "a:", "z"}[i], i))
							}
						}
						out = append(out, sp)
					}
				}
			}
		}
	}
	return out
}

func dedupe(ss []string) []string {
	seen := map[string]bool{}
	var out []string
	for _, s := range ss {
		if !seen[s] {
			seen[s] = true
			out = append(out, s)
		}
	}
	return out
}

func isPlainASCII(s string) bool {
	for i := 0; i < len(s); i++ {
		c := s[i]
		if !(c >= '0' && c <= '9' || c >= 'a' && c <= 'z' || c >= 'A' && c <= 'Z' || c == '-' || c == '_') {
			return false
		}
	}
	return len(s) > 0
}

// pop is an opened population.
type pop struct {
	spec popSpec
	s    sink
	lab  *smlab.Lab
	ts   int64
	uniq int
	// what the harness wrote: keys[type][table] -> set of key names; elems[type][collection] -> element -> value/score
	keys  map[string]map[string]map[string]bool
	elems map[string]map[string]map[string]string
	// counters (flushed at close)
	counts map[string]int64
	fps    map[string]struct{}
}

func (p *pop) count(k string, n int64) { p.counts[k] += n }

func (p *pop) apply(name, table, key string, rest ...string) bool {
	p.ts += 1e6
	c := smlab.CB(name, []byte(table), []byte(key), bs(rest...)...)
	r := p.lab.ApplyOne(p.ts, c)
	if r.IsErr() || r.Kind == "rejected" || r.Kind == "unanswered" {
		return false
	}
	return true
}

func (p *pop) val() string {
	p.uniq++
	return "v" + strconv.Itoa(p.uniq)
}

func (p *pop) noteKey(typ, table, key string) {
	if p.keys[typ] == nil {
		p.keys[typ] = map[string]map[string]bool{}
	}
	if p.keys[typ][table] == nil {
		p.keys[typ][table] = map[string]bool{}
	}
	p.keys[typ][table][key] = true
}

func (p *pop) dropKey(typ, table, key string) { delete(p.keys[typ][table], key) }

func (p *pop) writeKey(typ, table, key string) bool {
	var ok bool
	switch typ {
	case "kv":
		ok = p.apply("set", table, key, p.val())
	case "hash":
		ok = p.apply("hset", table, key, "f", p.val())
	case "list":
		ok = p.apply("rpush", table, key, p.val())
	case "set":
		ok = p.apply("sadd", table, key, "m")
	case "zset":
		ok = p.apply("zadd", table, key, "1", "m")
	}
	if ok {
		p.noteKey(typ, table, key)
	}
	return ok
}

func (p *pop) deleteKey(typ, table, key string) {
	clear := map[string]string{"kv": "del", "hash": "hclear", "list": "lclear", "set": "sclear", "zset": "zclear"}[typ]
	p.ts += 1e6
	var c smlab.Cmd
	if typ == "kv" {
		c = *multiKeys("del", tkey{"kv", table, key})
	} else {
		c = smlab.CB(clear, []byte(table), []byte(key))
	}
	p.lab.ApplyOne(p.ts, c)
	p.dropKey(typ, table, key)
}

func (p *pop) writeElem(typ, coll, elem string) bool {
	var ok bool
	v := ""
	switch typ {
	case "hash":
		v = p.val()
		ok = p.apply("hset", scanTable, coll, elem, v)
	case "set":
		ok = p.apply("sadd", scanTable, coll, elem)
	case "zset":
		p.uniq++
		v = strconv.Itoa(p.uniq)
		ok = p.apply("zadd", scanTable, coll, v, elem)
	}
	if ok {
		if p.elems[typ] == nil {
			p.elems[typ] = map[string]map[string]string{}
		}
		if p.elems[typ][coll] == nil {
			p.elems[typ][coll] = map[string]string{}
		}
		p.elems[typ][coll][elem] = v
		p.noteKey(typ, scanTable, coll)
	}
	return ok
}

func (p *pop) deleteElem(typ, coll, elem string) {
	rem := map[string]string{"hash": "hdel", "set": "srem", "zset": "zrem"}[typ]
	p.apply(rem, scanTable, coll, elem)
	delete(p.elems[typ][coll], elem)
}

func openPop(s sink, scratch string, sp popSpec) (*pop, error) {
	dir := filepath.Join(scratch, fmt.Sprintf("p%d-%s-%s", sp.ID, sp.Engine, sp.Policy))
	l, err := smlab.Open(smlab.Opts{Engine: sp.Engine, ExpirePolicy: sp.Policy, Dir: dir})
	if err != nil {
		return nil, err
	}
	p := &pop{spec: sp, s: s, lab: l, ts: tsBase + int64(sp.ID)*1e12, keys: map[string]map[string]map[string]bool{}, elems: map[string]map[string]map[string]string{},
		counts: map[string]int64{}, fps: map[string]struct{}{}}
	// decoys first and last, the population in between, in a shuffled order
	decoyNames := []string{"a", "\x00", "\xff\xff"}
	for _, t := range scanDecoyTables {
		for _, typ := range scanTypes {
			for _, k := range decoyNames {
				p.writeKey(typ, t, k)
			}
		}
	}
	r := rand.New(rand.NewSource(int64(sp.ID)*31 + 7))
	for _, typ := range scanTypes {
		for _, i := range r.Perm(len(sp.names)) {
			if !p.writeKey(typ, scanTable, sp.names[i]) {
				return nil, fmt.Errorf("population write refused: %s %q", typ, sp.names[i])
			}
		}
	}
	for _, typ := range []string{"hash", "set", "zset"} {
		for _, dc := range scanDecoyColls {
			for _, e := range append([]string{"a", "\x00", "\xff\xff"}, sp.names...) {
				p.writeElem(typ, dc, e)
			}
		}
		for _, i := range r.Perm(len(sp.names)) {
			if !p.writeElem(typ, scanColl, sp.names[i]) {
				return nil, fmt.Errorf("population write refused: %s element %q", typ, sp.names[i])
			}
		}
	}
	return p, nil
}

func (p *pop) close() {
	for k, n := range p.counts {
		p.s.Count(k, n)
	}
	for fp := range p.fps {
		p.s.Nontrivial(fp)
	}
	p.lab.Destroy()
}

// ---- chains ----

type chainSpec struct {
	Form    string `json:"form"` // scan | advscan/<type> | hscan | sscan | zscan
	Reverse bool   `json:"reverse"`
	Count   int    `json:"count"` // 0 = COUNT omitted
	Match   string `json:"match,omitempty"`
	Start   string `json:"start_q"` // reverse: the first cursor (quoted)
	start   string
}

func (c chainSpec) name() string {
	f := c.Form
	if c.Reverse {
		switch {
		case f == "scan":
			f = "revscan"
		case strings.HasPrefix(f, "advscan/"):
			f = "advrevscan/" + strings.TrimPrefix(f, "advscan/")
		default:
			f = f[:1] + "revscan"
		}
	}
	return f
}

type page struct {
	Cursor string   `json:"cursor_q"` // request cursor (quoted)
	Next   string   `json:"next_q"`
	Items  []string `json:"items_q"`
	cursor string
	next   string
	items  []string // element names (table stripped)
	vals   []string
	raw    string
}

// request performs one scan request through the real node handler.
func (p *pop) request(cs chainSpec, cursor string) (pg page, err error) {
	var cmd smlab.Cmd
	var rest []string
	if cs.Match != "" {
		rest = append(rest, "match", cs.Match)
	}
	if cs.Count > 0 {
		rest = append(rest, "count", strconv.Itoa(cs.Count))
	}
	name := cs.name()
	switch {
	case cs.Form == "scan":
		cmd = smlab.CB(name, []byte(scanTable), []byte(cursor), bs(rest...)...)
	case strings.HasPrefix(cs.Form, "advscan/"):
		typ := strings.TrimPrefix(cs.Form, "advscan/")
		cmd = smlab.CB(name[:strings.IndexByte(name, '/')], []byte(scanTable), []byte(cursor), bs(append([]string{typ}, rest...)...)...)
	default:
		cmd = smlab.CB(name, []byte(scanTable), []byte(scanColl), bs(append([]string{cursor}, rest...)...)...)
	}
	rep := p.lab.Read(cmd)
	p.count("requests/"+name, 1)
	pg.cursor = cursor
	pg.raw = rep.Canon()
	if rep.Kind != "array" || len(rep.Arr) != 2 || rep.Arr[1].Kind != "array" || (rep.Arr[0].Kind != "bulk" && rep.Arr[0].Kind != "nil") {
		return pg, fmt.Errorf("malformed scan reply %s", clipS(pg.raw))
	}
	pg.next = string(rep.Arr[0].Bulk)
	items := rep.Arr[1].Strings()
	switch {
	case cs.Form == "scan" || strings.HasPrefix(cs.Form, "advscan/"):
		for _, it := range items {
			pg.items = append(pg.items, it) // "table:key", checked by the oracle
		}
		// SCAN and ADVSCAN return the next cursor as the key WITHOUT the table (the server merge, the only
		// consumer, prepends "table:" per partition): the next request cursor is table + ":" + NextCursor,
		// which is what smlab.CB builds from (table, cursor).
	case cs.Form == "sscan":
		pg.items = items
	default: // hscan, zscan: element, value pairs
		if len(items)%2 != 0 {
			return pg, fmt.Errorf("odd number of items in %s", clipS(pg.raw))
		}
		for i := 0; i < len(items); i += 2 {
			pg.items = append(pg.items, items[i])
			pg.vals = append(pg.vals, items[i+1])
		}
	}
	return pg, nil
}

type scanWitness struct {
	Pop      popSpec   `json:"population"`
	Names    []string  `json:"names_q"`
	Chain    chainSpec `json:"chain"`
	Pages    []page    `json:"pages"`
	Expected []string  `json:"expected_q"`
	Offend   string    `json:"offending"`
}

func quoteList(ss []string) []string {
	out := make([]string, len(ss))
	for i, s := range ss {
		out[i] = strconv.Quote(s)
		if len(out[i]) > 80 {
			out[i] = out[i][:40] + fmt.Sprintf("...(%d bytes)\"", len(s))
		}
	}
	return out
}

func (p *pop) violate(kind string, cs chainSpec, pages []page, expected []string, msg string) {
	for i := range pages {
		pages[i].Cursor = strconv.Quote(pages[i].cursor)
		pages[i].Next = strconv.Quote(pages[i].next)
		pages[i].Items = quoteList(pages[i].items)
	}
	if len(pages) > 12 {
		pages = append(append([]page{}, pages[:6]...), pages[len(pages)-6:]...)
	}
	cs.Start = strconv.Quote(cs.start)
	sig := kind + "/" + cs.name()
	if p.memRadix00(cs, pages, msg) {
		sig += "/mem-radix-00"
	}
	p.s.Violation(sig, fmt.Sprintf("[pop %d %s/%s n=%d %s count=%d match=%q] %s", p.spec.ID, p.spec.Engine, p.spec.Policy, p.spec.N, p.spec.Shape, cs.Count, cs.Match, msg),
		scanWitness{Pop: p.spec, Names: quoteList(p.spec.names), Chain: cs, Pages: pages, Expected: quoteList(expected), Offend: msg})
}

// memRadix00: the radix index of engine mem mishandles keys with 0x00 bytes
// (SeekForPrev(key+"\x00") lands below key; reverse visits "\x00" before "\x00\x00";
// forward iteration skips "a\x00b" next to "a\x00"); pebble is right on the same
// populations. Such alarms get their own signature suffix: engine mem and a
// cursor or reported name that contains 0x00.
func (p *pop) memRadix00(cs chainSpec, pages []page, msg string) bool {
	if p.spec.Engine != "mem" {
		return false
	}
	if strings.Contains(msg, `\x00`) {
		return true
	}
	for _, pg := range pages {
		if strings.Contains(pg.cursor, "\x00") {
			return true
		}
	}
	return false
}

// expectedFor returns the expected element names in scan direction.
func (p *pop) expectedFor(cs chainSpec) (static []string, valOf map[string]string) {
	var names []string
	switch {
	case cs.Form == "scan":
		for k := range p.keys["kv"][scanTable] {
			names = append(names, k)
		}
	case strings.HasPrefix(cs.Form, "advscan/"):
		for k := range p.keys[strings.TrimPrefix(cs.Form, "advscan/")][scanTable] {
			names = append(names, k)
		}
	default:
		typ := map[string]string{"hscan": "hash", "sscan": "set", "zscan": "zset"}[cs.Form]
		valOf = p.elems[typ][scanColl]
		for k := range valOf {
			names = append(names, k)
		}
	}
	sort.Strings(names)
	if cs.Reverse {
		for i, j := 0, len(names)-1; i < j; i, j = i+1, j-1 {
			names[i], names[j] = names[j], names[i]
		}
	}
	return names, valOf
}

func (p *pop) isKeyForm(cs chainSpec) bool {
	return cs.Form == "scan" || strings.HasPrefix(cs.Form, "advscan/")
}

// stripTable checks the "table:" prefix of SCAN/ADVSCAN results.
func stripTable(it string) (string, bool) {
	if strings.HasPrefix(it, scanTable+":") {
		return it[len(scanTable)+1:], true
	}
	return it, false
}

// runChain follows the cursor from cs.start to the empty cursor and checks the
// result against want (the elements the chain must return, in order). dynamic:
// names that may or may not appear (mutating variant). between is called
// between pages.
func (p *pop) runChain(cs chainSpec, want []string, valOf map[string]string, dynamic map[string]bool, between func(pageNo int)) (pages []page, ok bool) {
	limit := len(want) + len(dynamic) + 2
	cursor := cs.start
	var got []string
	for {
		pg, err := p.request(cs, cursor)
		pages = append(pages, pg)
		if err != nil {
			p.violate("scan-foreign", cs, pages, want, err.Error())
			return pages, false
		}
		if p.isKeyForm(cs) {
			for i, it := range pg.items {
				name, okT := stripTable(it)
				if !okT {
					p.violate("scan-foreign", cs, pages, want, fmt.Sprintf("page %d returns key %s of another table", len(pages), qs(it)))
					return pages, false
				}
				pages[len(pages)-1].items[i] = name
			}
		}
		pg = pages[len(pages)-1]
		if cs.Count > 0 && len(pg.items) > cs.Count {
			p.violate("scan-foreign", cs, pages, want, fmt.Sprintf("page %d holds %d items, COUNT %d", len(pages), len(pg.items), cs.Count))
			return pages, false
		}
		got = append(got, pg.items...)
		for i, it := range pg.items {
			if valOf != nil && !dynamic[it] && cs.Form != "sscan" {
				if wv, okv := valOf[it]; okv && wv != pg.vals[i] {
					p.violate("scan-foreign", cs, pages, want, fmt.Sprintf("element %s comes with value %s, written %s", qs(it), qs(pg.vals[i]), qs(wv)))
					return pages, false
				}
			}
		}
		if pg.next == "" {
			break
		}
		if len(pages) >= limit {
			p.violate("scan-nontermination", cs, pages, want, fmt.Sprintf("%d pages and the cursor is still %s (population %d)", len(pages), qs(pg.next), len(want)))
			return pages, false
		}
		cursor = pg.next
		if between != nil {
			between(len(pages))
		}
	}
	p.count("pages/"+cs.name(), int64(len(pages)))
	p.count("elements_returned", int64(len(got)))
	// order: strictly monotonic in scan direction
	for i := 1; i < len(got); i++ {
		if (!cs.Reverse && got[i-1] >= got[i]) || (cs.Reverse && got[i-1] <= got[i]) {
			sig := "scan-order"
			if got[i-1] == got[i] {
				sig = "scan-duplicate"
			}
			p.violate(sig, cs, pages, want, fmt.Sprintf("%s is followed by %s", qs(got[i-1]), qs(got[i])))
			return pages, false
		}
	}
	seen := map[string]int{}
	for _, g := range got {
		seen[g]++
		if seen[g] > 1 {
			p.violate("scan-duplicate", cs, pages, want, fmt.Sprintf("%s returned %d times", qs(g), seen[g]))
			return pages, false
		}
	}
	wantSet := map[string]bool{}
	for _, w := range want {
		wantSet[w] = true
	}
	for _, g := range got {
		if !wantSet[g] && !dynamic[g] {
			sig := "scan-foreign"
			if cs.Match != "" {
				sig = "scan-match"
			}
			p.violate(sig, cs, pages, want, fmt.Sprintf("%s is not in the expected population", qs(g)))
			return pages, false
		}
	}
	for _, w := range want {
		if seen[w] == 0 {
			sig := "scan-missing"
			if cs.Match != "" {
				sig = "scan-match"
			}
			msg := fmt.Sprintf("%s was never returned", qs(w))
			p.violate(sig, cs, pages, want, msg)
			return pages, false
		}
	}
	return pages, true
}

func countsFor(n int) []int {
	cand := []int{1, 2, 3, n - 1, n, n + 1, 0}
	seen := map[int]bool{}
	var out []int
	for _, c := range cand {
		if c < 0 || (c == 0 && seen[0]) || seen[c] {
			continue
		}
		if c == 0 {
			seen[0] = true
			out = append(out, 0)
			continue
		}
		seen[c] = true
		out = append(out, c)
	}
	return out
}

func countClass(c, n int) string {
	switch {
	case c == 0:
		return "omitted"
	case c == n-1:
		return "n-1"
	case c == n:
		return "n"
	case c == n+1:
		return "n+1"
	}
	return strconv.Itoa(c)
}

func allForms() []string {
	f := []string{"scan"}
	for _, t := range scanTypes {
		f = append(f, "advscan/"+t)
	}
	return append(f, "hscan", "sscan", "zscan")
}

// startCursors: forward chains start at the empty cursor; reverse chains start
// above the last element, like clients do (server tests use a cursor that
// sorts after every element): the immediate successor of the largest element
// ("tight") and a cursor far above ("high").
func startCursors(reverse bool, want []string) []string {
	if !reverse {
		return []string{""}
	}
	high := "\xff\xff\xff\xff"
	if len(want) == 0 {
		return []string{high, "a"}
	}
	return []string{want[0] + "\x00", want[0] + "\x01", high} // want is in scan direction: want[0] is the largest
}

// run executes all chains of the population.
func (p *pop) run(thorough bool, only *chainSpec) {
	r := rand.New(rand.NewSource(int64(p.spec.ID)*977 + 3))
	forms := allForms()
	n := p.spec.N
	for _, form := range forms {
		for _, reverse := range []bool{false, true} {
			base := chainSpec{Form: form, Reverse: reverse}
			want, valOf := p.expectedFor(base)
			if p.spec.Shape == "ascii" {
				p.runMatch(base, want, valOf, only)
				continue
			}
			for _, cnt := range countsFor(len(want)) {
				for si, start := range startCursors(reverse, want) {
					cs := chainSpec{Form: form, Reverse: reverse, Count: cnt, start: start}
					if only != nil && (only.Form != cs.Form || only.Reverse != cs.Reverse || only.Count != cs.Count || only.start != cs.start) {
						continue
					}
					if p.spec.Mutate {
						if si == 0 {
							p.mutatingChain(r, cs)
						}
						continue
					}
					pages, ok := p.runChain(cs, want, valOf, nil, nil)
					p.s.Eval(1)
					p.count("chains/"+cs.name()+"/count="+countClass(cnt, len(want)), 1)
					if len(pages) >= 2 {
						p.fps[fmt.Sprintf("%s|%v|%s|n=%d|%s", form, reverse, countClass(cnt, len(want)), n, p.spec.Shape)] = struct{}{}
					}
					if len(pages) == 3 && p.spec.ID%17 == 0 {
						var ps []string
						for _, pg := range pages {
							ps = append(ps, fmt.Sprintf("cursor=%s -> next=%s items=%v", qs(pg.cursor), qs(pg.next), quoteList(pg.items)))
						}
						p.s.Sample(8, map[string]interface{}{"population": p.spec.ID, "engine": p.spec.Engine, "chain": cs.name(), "count": cnt, "start": strconv.Quote(start), "pages": ps})
					}
					if !ok {
						continue
					}
					p.reuseCursors(r, cs, pages, want, valOf, thorough)
				}
			}
		}
	}
}

// reuseCursors: a page is a pure function of (cursor, count): the same request
// is repeated for every cursor of the chain, and every cursor is used as a
// fresh start with another COUNT: the new chain must return exactly the
// elements behind the cursor.
func (p *pop) reuseCursors(r *rand.Rand, cs chainSpec, pages []page, want []string, valOf map[string]string, thorough bool) {
	for i, pg := range pages {
		again, err := p.request(cs, pg.cursor)
		p.count("cursors_reused", 1)
		if p.isKeyForm(cs) {
			for k, it := range again.items {
				again.items[k], _ = stripTable(it)
			}
		}
		if err != nil || again.next != pg.next || !sameList(again.items, pg.items) {
			p.violate("scan-page-not-idempotent", cs, []page{pg, again}, want, fmt.Sprintf("page %d requested again with the same cursor and COUNT differs (err=%v)", i+1, err))
			return
		}
	}
	// fresh chains from produced cursors with another count
	tried := 0
	for _, pg := range pages {
		if pg.next == "" || (!thorough && tried >= 3) {
			continue
		}
		tried++
		// elements strictly behind the cursor in scan direction
		var rest []string
		for _, w := range want {
			if (!cs.Reverse && w > pg.next) || (cs.Reverse && w < pg.next) {
				rest = append(rest, w)
			}
		}
		alt := cs
		alt.Count = []int{1, 2, 3, 0}[r.Intn(4)]
		alt.start = pg.next
		if _, ok := p.runChain(alt, rest, valOf, nil, nil); !ok {
			return
		}
		p.count("cursors_reused_as_fresh_start", 1)
		p.s.Eval(1)
	}
}

// mutatingChain: between the pages other keys / elements (names disjoint from
// the static population) are added and removed, in the scanned table /
// collection and in the decoys; the static elements must still come exactly
// once and in order.
func (p *pop) mutatingChain(r *rand.Rand, cs chainSpec) {
	want, valOf := p.expectedFor(cs)
	dyn := map[string]bool{}
	for _, d := range p.spec.dynamic {
		dyn[d] = true
	}
	// remove dynamic names from the expectation (they may be there from an earlier chain)
	var static []string
	for _, w := range want {
		if !dyn[w] {
			static = append(static, w)
		}
	}
	typ := ""
	switch {
	case cs.Form == "scan":
		typ = "kv"
	case strings.HasPrefix(cs.Form, "advscan/"):
		typ = strings.TrimPrefix(cs.Form, "advscan/")
	default:
		typ = map[string]string{"hscan": "hash", "sscan": "set", "zscan": "zset"}[cs.Form]
	}
	between := func(pageNo int) {
		for k := 0; k < 2; k++ {
			d := p.spec.dynamic[r.Intn(len(p.spec.dynamic))]
			if p.isKeyForm(cs) {
				if p.keys[typ][scanTable][d] {
					p.deleteKey(typ, scanTable, d)
				} else {
					p.writeKey(typ, scanTable, d)
				}
				// and a write in a decoy table and under another type
				p.writeKey(typ, scanDecoyTables[r.Intn(len(scanDecoyTables))], d)
				p.writeKey(scanTypes[r.Intn(len(scanTypes))], scanDecoyTables[r.Intn(len(scanDecoyTables))], d)
			} else {
				if _, ok := p.elems[typ][scanColl][d]; ok {
					p.deleteElem(typ, scanColl, d)
				} else {
					p.writeElem(typ, scanColl, d)
				}
				p.writeElem(typ, scanDecoyColls[r.Intn(len(scanDecoyColls))], d)
			}
			p.count("mutations_between_pages", 1)
		}
	}
	pages, _ := p.runChain(cs, static, valOf, dyn, between)
	p.s.Eval(1)
	p.count("chains_mutating/"+cs.name(), 1)
	if len(pages) >= 2 {
		p.fps[fmt.Sprintf("%s|%v|%s|n=%d|mutating", cs.Form, cs.Reverse, countClass(cs.Count, p.spec.N), p.spec.N)] = struct{}{}
	}
	// leave the dynamic names out of the way for the next chain of this form
	for _, d := range p.spec.dynamic {
		if p.isKeyForm(cs) {
			if p.keys[typ][scanTable][d] {
				p.deleteKey(typ, scanTable, d)
			}
		} else if _, ok := p.elems[typ][scanColl][d]; ok {
			p.deleteElem(typ, scanColl, d)
		}
	}
}

// ---- MATCH ----

// globMatch is the reference matcher for the restricted pattern language the
// check generates: literal bytes, '?', '*', and character classes "[abc]" /
// "[a-c]" (what gobwas/glob documents as single character wildcards, sequence
// wildcard, character list and character range), over plain ASCII names.
func globMatch(pat, s string) bool {
	if pat == "" {
		return s == ""
	}
	switch pat[0] {
	case '*':
		for i := 0; i <= len(s); i++ {
			if globMatch(pat[1:], s[i:]) {
				return true
			}
		}
		return false
	case '?':
		return len(s) > 0 && globMatch(pat[1:], s[1:])
	case '[':
		end := strings.IndexByte(pat, ']')
		if end < 0 || len(s) == 0 {
			return false
		}
		cls := pat[1:end]
		ok := false
		for i := 0; i < len(cls); i++ {
			if i+2 < len(cls) && cls[i+1] == '-' {
				if s[0] >= cls[i] && s[0] <= cls[i+2] {
					ok = true
				}
				i += 2
			} else if cls[i] == s[0] {
				ok = true
			}
		}
		return ok && globMatch(pat[end+1:], s[1:])
	}
	return len(s) > 0 && s[0] == pat[0] && globMatch(pat[1:], s[1:])
}

var matchPatterns = []string{"*", "a*", "*b", "*a*", "key*", "key?", "key??", "c[12]", "c[0-9]*", "a?b", "a*b", "?", "??", "[a-b]*", "x?y", "zz", "nomatch*", "*1*"}

func (p *pop) runMatch(base chainSpec, want []string, valOf map[string]string, only *chainSpec) {
	for _, pat := range matchPatterns {
		// SCAN/ADVSCAN match against "table:key"
		full := pat
		if p.isKeyForm(base) {
			full = scanTable + ":" + pat
			if strings.HasPrefix(pat, "*") && len(pat)%2 == 0 {
				full = pat // "*..." also matches over the table prefix
			}
		}
		var filtered []string
		for _, w := range want {
			subject := w
			if p.isKeyForm(base) {
				subject = scanTable + ":" + w
			}
			if globMatch(full, subject) {
				filtered = append(filtered, w)
			}
		}
		seenCnt := map[int]bool{}
		for _, cnt := range []int{1, 2, 0, len(filtered), len(want) + 1} {
			if seenCnt[cnt] {
				continue
			}
			seenCnt[cnt] = true
			for _, start := range startCursors(base.Reverse, want)[:1] {
				cs := chainSpec{Form: base.Form, Reverse: base.Reverse, Count: cnt, Match: full, start: start}
				if only != nil && (only.Form != cs.Form || only.Reverse != cs.Reverse || only.Count != cs.Count || only.Match != cs.Match) {
					continue
				}
				pages, ok := p.runChain(cs, filtered, valOf, nil, nil)
				p.s.Eval(1)
				p.count("chains_match/"+cs.name(), 1)
				if len(pages) >= 2 {
					p.fps[fmt.Sprintf("%s|%v|%s|n=%d|match", base.Form, base.Reverse, countClass(cnt, p.spec.N), p.spec.N)] = struct{}{}
				}
				if ok && len(filtered) > 0 {
					p.count("match_chains_with_matches", 1)
				}
			}
		}
	}
}

// ---------------------------------------------------------------------------

func runPops(s sink, scratch string, specs []popSpec, workers int, thorough bool, progress bool) {
	var mu sync.Mutex
	next := 0
	var wg sync.WaitGroup
	if workers < 1 {
		workers = 1
	}
	for w := 0; w < workers; w++ {
		wg.Add(1)
		go func() {
			defer wg.Done()
			for {
				mu.Lock()
				i := next
				next++
				mu.Unlock()
				if i >= len(specs) {
					return
				}
				p, err := openPop(s, scratch, specs[i])
				if err != nil {
					s.Violation("scan-population/"+specs[i].Shape, fmt.Sprintf("population %d: %v", specs[i].ID, err), specs[i])
					continue
				}
				p.run(thorough, nil)
				p.close()
				s.Count("populations/"+specs[i].Engine+"/"+specs[i].Policy, 1)
			}
		}()
	}
	wg.Wait()
}

func runC13(c *vc.Ctx) error {
	smlab.QuietLogs(c.Scratch)
	s := newCtxSink(c)
	if c.Replay != "" {
		return replayC13(c, s)
	}
	specs := planPops(c.Seed, c.Thorough())
	fmt.Printf("C13 %s seed=%d: %d populations\n", c.Tier, c.Seed, len(specs))
	runPops(s, c.Scratch, specs, c.Workers, c.Thorough(), true)
	// protocol level (server cursor encoding, COUNT division, merge over 1..4 partitions): E5, built by the inproc engine
	fmt.Printf("C13 %s seed=%d: protocol level (inproc.RunScanProtocol)\n", c.Tier, c.Seed)
	if os.Getenv("KEYLAB_SKIP_PROTO") == "" { // development aid only (mutant runs of the node-level part)
		inproc.RunScanProtocol(c)
	}
	if c.Thorough() {
		fmt.Printf("C13 %s seed=%d: -asan child (pebble populations)\n", c.Tier, c.Seed)
		runSanitizerChild(c, s, "asan", "c13-asan", "asan")
	}
	c.Ev.Rule = "A population = one real store (engines mem, pebble x both expire policies): table 't' holds n keys of every scannable type with the same adversarial names " +
		"(prefixes of each other, ':' ';' 0x00 0xff, first/last possible names of the table, 300-byte name), decoy tables directly below/above 't', collection 'c' with n " +
		"elements between decoy collections; n in {0,1,2,3,4,5,7,11,20,50}. A case = one chain: form (SCAN, ADVSCAN x 5 types, HSCAN, SSCAN, ZSCAN) x direction x COUNT in " +
		"{1,2,3,n-1,n,n+1,omitted} x reverse start (successor of the last element / far above), followed from the start cursor to the empty cursor through the real node handlers; " +
		"checked: exactly the written population, no duplicate, nothing foreign, strictly ordered, pages <= n+2; then every cursor of the chain is requested again (same page) and " +
		"used as a fresh start with another COUNT (exactly the elements behind it). MATCH populations (ASCII names): patterns of '*', '?', literals, classes against a reference " +
		"matcher. Mutating variant: other names are added/removed in the scanned table/collection and the decoys between pages. Non-trivial = chain with >= 2 pages; distinct = " +
		"(form, direction, count class, n, shape)."
	c.Ev.Assume("node-handler level here (one partition, real handlers of node/scan.go); the protocol level (server cursor encoding, COUNT division, merge) is the proto_* part (inproc.RunScanProtocol)")
	c.Ev.Assume("names are non-empty: the start cursor is exclusive, an element with the empty name is not reachable by a scan from the empty cursor (property text: non-empty names)")
	c.Ev.Assume("SCAN/ADVSCAN MATCH is applied by the code to 'table:key'; patterns are generated accordingly")
	c.Ev.Assume("engines mem and pebble only")
	return nil
}

// c13AsanChild: vcheck-asan --child c13-asan <seed> <tier> <scratch>
func c13AsanChild(args []string) int {
	if len(args) < 3 {
		fmt.Fprintln(os.Stderr, "usage: --child c13-asan <seed> <tier> <scratch>")
		return 2
	}
	seed, _ := strconv.ParseInt(args[0], 10, 64)
	scratch := args[2]
	smlab.QuietLogs(scratch)
	s := newLineSink(os.Stdout)
	var specs []popSpec
	for _, sp := range planPops(seed, false) {
		if sp.Engine == "pebble" {
			specs = append(specs, sp)
		}
	}
	workers := 8
	if v, err := strconv.Atoi(os.Getenv("VERIF_WORKERS")); err == nil && v > 0 {
		workers = v
	}
	runPops(s, scratch, specs, workers, false, false)
	s.Progress("%d pebble populations under asan", len(specs))
	childDone()
	return 0
}

// ---- replay ----

type scanReplayDoc struct {
	Seed    int64  `json:"seed"`
	Tier    string `json:"tier"`
	Witness struct {
		Pop   popSpec   `json:"population"`
		Chain chainSpec `json:"chain"`
	} `json:"witness"`
}

func replayC13(c *vc.Ctx, s sink) error {
	b, err := ioutil.ReadFile(c.Replay)
	if err != nil {
		return err
	}
	var d scanReplayDoc
	if err := json.Unmarshal(b, &d); err != nil {
		return err
	}
	for _, sp := range planPops(d.Seed, d.Tier == "thorough") {
		if sp.ID != d.Witness.Pop.ID {
			continue
		}
		cs := d.Witness.Chain
		cs.start, _ = strconv.Unquote(cs.Start)
		fmt.Printf("replay: population %d (%s/%s n=%d %s), chain %s count=%d match=%q start=%s\n", sp.ID, sp.Engine, sp.Policy, sp.N, sp.Shape, cs.name(), cs.Count, cs.Match, cs.Start)
		p, err := openPop(s, c.Scratch, sp)
		if err != nil {
			return err
		}
		p.run(d.Tier == "thorough", &cs)
		p.close()
		return nil
	}
	return fmt.Errorf("replay: population %d not in the plan of seed %d tier %s", d.Witness.Pop.ID, d.Seed, d.Tier)
}
