package model

// Exhaustive short sequences: for every type an alphabet of concrete commands
// over 2 keys x 2 members (writes only; after every command the runner reads
// the state of the touched key, and C09 evaluates all identities); all
// sequences of length 1..3 per type.

type exhSpace struct {
	alpha [][]Op // per type
	sizes []int  // per type: n + n^2 + n^3
}

func alphaFor(typ string) []Op {
	var a []Op
	add := func(name, k string, args ...string) {
		o := Op{Name: name, T: "t", K: k, A: args}
		if devNoDup && o.hasDupArg() {
			return
		}
		a = append(a, o)
	}
	for _, k := range []string{"a", "a:"} {
		switch typ {
		case "kv":
			add("set", k, "1")
			add("set", k, "xy")
			add("setnx", k, "2")
			add("getset", k, "3")
			add("incr", k)
			add("incrby", k, "-2")
			add("append", k, "z")
			add("append", k, "")
			add("setrange", k, "1", "Q")
			add("setrange", k, "0", "")
			add("del", k)
			add("del", k, k)
		case "hash":
			add("hset", k, "x", "1")
			add("hset", k, "y", "2")
			add("hsetnx", k, "x", "3")
			add("hmset", k, "x", "4", "y", "5")
			add("hmset", k, "x", "6", "x", "7")
			add("hdel", k, "x")
			add("hdel", k, "y")
			add("hdel", k, "x", "y")
			add("hdel", k, "x", "x")
			add("hincrby", k, "x", "1")
			add("hclear", k)
		case "list":
			add("lpush", k, "x")
			add("rpush", k, "y")
			add("lpush", k, "x", "y")
			add("rpush", k, "x", "x")
			add("lpop", k)
			add("rpop", k)
			add("lset", k, "0", "z")
			add("lset", k, "-1", "w")
			add("ltrim", k, "0", "0")
			add("ltrim", k, "1", "-1")
			add("ltrim", k, "-1", "0")
			add("lclear", k)
		case "set":
			add("sadd", k, "x")
			add("sadd", k, "y")
			add("sadd", k, "x", "y")
			add("sadd", k, "x", "x")
			add("srem", k, "x")
			add("srem", k, "y")
			add("srem", k, "x", "y")
			add("srem", k, "x", "x")
			add("spop", k)
			add("spop", k, "2")
			add("sclear", k)
		case "zset":
			add("zadd", k, "1", "x")
			add("zadd", k, "1", "y")
			add("zadd", k, "2", "x")
			add("zadd", k, "1", "x", "2", "y")
			add("zadd", k, "1", "x", "3", "x")
			add("zrem", k, "x")
			add("zrem", k, "x", "y")
			add("zrem", k, "y", "y")
			add("zincrby", k, "1", "x")
			add("zincrby", k, "0", "y")
			add("zremrangebyrank", k, "0", "0")
			add("zremrangebyrank", k, "-1", "-1")
			add("zremrangebyscore", k, "(1", "2")
			add("zremrangebylex", k, "[x", "(y")
			add("zclear", k)
		}
	}
	return a
}

var exhCache *exhSpace

func exhaustiveSpace() *exhSpace {
	if exhCache != nil {
		return exhCache
	}
	s := &exhSpace{}
	for _, typ := range allFams {
		a := alphaFor(typ)
		s.alpha = append(s.alpha, a)
		n := len(a)
		s.sizes = append(s.sizes, n+n*n+n*n*n)
	}
	exhCache = s
	return s
}

func (s *exhSpace) count() int {
	t := 0
	for _, n := range s.sizes {
		t += n
	}
	return t
}

// seq returns sequence number idx of the space.
func (s *exhSpace) seq(idx int) []Op {
	ti := 0
	for idx >= s.sizes[ti] {
		idx -= s.sizes[ti]
		ti++
	}
	a := s.alpha[ti]
	n := len(a)
	length := 1
	if idx >= n {
		idx -= n
		length = 2
		if idx >= n*n {
			idx -= n * n
			length = 3
		}
	}
	ops := make([]Op, length)
	for i := length - 1; i >= 0; i-- {
		ops[i] = a[idx%n]
		idx /= n
	}
	ts := c08BaseTs
	for i := range ops {
		ts += 1e9
		ops[i].Ts = ts
	}
	return ops
}
