package model

import (
	"math"
	"sort"
	"strconv"
	"strings"
)

func (m *Model) zsetW(tk string, ts int64) *zsetEnt {
	e := m.zset[tk]
	if e == nil || m.expiredW(e.exp, ts) {
		return nil
	}
	return e
}

func (m *Model) zsetR(tk string) *zsetEnt {
	e := m.zset[tk]
	if e == nil || m.expiredR(e.exp) {
		return nil
	}
	return e
}

func (m *Model) zsetDrop(tk string) {
	if old := m.zset[tk]; old != nil {
		m.remember("zset", tk, sortedKeys(old.m))
		delete(m.zset, tk)
	}
}

func (m *Model) zsetForWrite(tk string, ts int64) *zsetEnt {
	if e := m.zsetW(tk, ts); e != nil {
		return e
	}
	m.zsetDrop(tk)
	e := &zsetEnt{m: map[string]float64{}}
	m.zset[tk] = e
	m.noteGen("zset", tk, ts)
	return e
}

type zpair struct {
	m string
	s float64
}

// zsorted: ascending by score, ties by member bytes (Redis skiplist order).
func zsorted(e *zsetEnt) []zpair {
	if e == nil {
		return nil
	}
	out := make([]zpair, 0, len(e.m))
	for mb, s := range e.m {
		out = append(out, zpair{mb, s})
	}
	sort.Slice(out, func(i, j int) bool {
		if out[i].s != out[j].s {
			return out[i].s < out[j].s
		}
		return out[i].m < out[j].m
	})
	return out
}

func fmtScore(s float64) string { return strconv.FormatFloat(s, 'g', -1, 64) }

func zreply(ps []zpair, withScores bool) Exp {
	out := make([]string, 0, len(ps)*2)
	for _, p := range ps {
		out = append(out, p.m)
		if withScores {
			out = append(out, fmtScore(p.s))
		}
	}
	e := Exp{R: rBulks(out)}
	if withScores {
		e.Float, e.FloatStride = true, 2
	}
	return e
}

func reversed(ps []zpair) []zpair {
	out := make([]zpair, len(ps))
	for i, p := range ps {
		out[len(ps)-1-i] = p
	}
	return out
}

type scoreBound struct {
	v    float64
	excl bool
}

// parseScoreBound is Redis' zslParseRange for one bound, restricted to the
// spellings the tree accepts (D14): "-inf" only as min, "+inf" only as max,
// otherwise [(]finite number strictly inside (-2^63, 2^63).
func parseScoreBound(s string, isMin bool) (scoreBound, bool) {
	if s == "" {
		return scoreBound{}, false
	}
	switch strings.ToLower(s) {
	case "-inf":
		if isMin {
			return scoreBound{v: math.Inf(-1)}, true
		}
	case "+inf":
		if !isMin {
			return scoreBound{v: math.Inf(1)}, true
		}
	}
	b := scoreBound{}
	if s[0] == '(' {
		b.excl = true
		s = s[1:]
	}
	f, err := strconv.ParseFloat(s, 64)
	if err != nil || math.IsNaN(f) || math.IsInf(f, 0) || f <= -9.223372036854775807e18 || f >= 9.223372036854775807e18 {
		return b, false
	}
	b.v = f
	return b, true
}

// ScoreRangeAccepted / LexRangeAccepted: does the leader-side validation
// (node/zset.go getScoreRange / getLexRange) let the range through (D11, D14)?
func ScoreRangeAccepted(min, max string) bool {
	_, ok1 := parseScoreBound(min, true)
	_, ok2 := parseScoreBound(max, false)
	return ok1 && ok2
}

func LexRangeAccepted(min, max string) bool {
	_, ok1 := parseLexBound(min, true)
	_, ok2 := parseLexBound(max, false)
	return ok1 && ok2
}

func inScore(s float64, lo, hi scoreBound) bool {
	if lo.excl {
		if !(s > lo.v) {
			return false
		}
	} else if !(s >= lo.v) {
		return false
	}
	if hi.excl {
		if !(s < hi.v) {
			return false
		}
	} else if !(s <= hi.v) {
		return false
	}
	return true
}

type lexBound struct {
	v        string
	excl     bool
	min, max bool // "-" / "+"
}

// parseLexBound: "-" is accepted only as min and "+" only as max (D14).
func parseLexBound(s string, isMin bool) (lexBound, bool) {
	if s == "" {
		return lexBound{}, false
	}
	switch {
	case s == "-":
		if !isMin {
			return lexBound{}, false
		}
		return lexBound{min: true}, true
	case s == "+":
		if isMin {
			return lexBound{}, false
		}
		return lexBound{max: true}, true
	case s[0] == '(':
		return lexBound{v: s[1:], excl: true}, true
	case s[0] == '[':
		return lexBound{v: s[1:]}, true
	}
	return lexBound{}, false
}

func inLex(mb string, lo, hi lexBound) bool {
	if lo.max || hi.min {
		return false
	}
	if !lo.min {
		if lo.excl {
			if !(mb > lo.v) {
				return false
			}
		} else if !(mb >= lo.v) {
			return false
		}
	}
	if !hi.max {
		if hi.excl {
			if !(mb < hi.v) {
				return false
			}
		} else if !(mb <= hi.v) {
			return false
		}
	}
	return true
}

func allScoresEqual(e *zsetEnt) bool {
	first := true
	var s0 float64
	for _, s := range e.m {
		if first {
			s0, first = s, false
		} else if s != s0 {
			return false
		}
	}
	return true
}

// applyLimit is Redis' LIMIT offset count on an already ordered slice.
func applyLimit(ps []zpair, off, cnt int) []zpair {
	if off < 0 || off >= len(ps) {
		return nil
	}
	ps = ps[off:]
	if cnt >= 0 && cnt < len(ps) {
		ps = ps[:cnt]
	}
	return ps
}

// parseLimit parses [LIMIT offset count] (exactly three arguments).
func parseLimit(a []string) (off, cnt int, ok bool) {
	if len(a) == 0 {
		return 0, -1, true
	}
	if len(a) != 3 || strings.ToLower(a[0]) != "limit" {
		return 0, 0, false
	}
	o, err1 := strconv.Atoi(a[1])
	c, err2 := strconv.Atoi(a[2])
	if err1 != nil || err2 != nil {
		return 0, 0, false
	}
	return o, c, true
}

func (m *Model) applyZSet(o Op) Exp {
	tk := o.tk()
	switch o.Name {
	case "zadd":
		if len(o.A) < 2 || len(o.A)%2 != 0 {
			return Exp{R: rErr("args")}
		}
		scores := make([]float64, 0, len(o.A)/2)
		for i := 0; i < len(o.A); i += 2 {
			f, err := strconv.ParseFloat(o.A[i], 64)
			if err != nil || math.IsNaN(f) {
				return Exp{R: rErr("value is not a valid float")}
			}
			scores = append(scores, f)
		}
		e := m.zsetForWrite(tk, o.Ts)
		n := int64(0)
		for i, s := range scores {
			mb := o.A[2*i+1]
			if _, ok := e.m[mb]; !ok {
				n++
			}
			e.m[mb] = s
			m.noteAdd("zset", tk, mb)
		}
		return Exp{R: rInt(n)}
	case "zrem":
		e := m.zsetW(tk, o.Ts)
		if e == nil {
			return Exp{R: rInt(0)}
		}
		n := int64(0)
		for _, mb := range o.A {
			if _, ok := e.m[mb]; ok {
				delete(e.m, mb)
				n++
			}
		}
		if len(e.m) == 0 {
			m.zsetDrop(tk)
		}
		return Exp{R: rInt(n)}
	case "zcard":
		if e := m.zsetR(tk); e != nil {
			return Exp{R: rInt(int64(len(e.m)))}
		}
		return Exp{R: rInt(0)}
	case "zscore":
		if e := m.zsetR(tk); e != nil {
			if s, ok := e.m[o.A[0]]; ok {
				return Exp{R: rBulk(fmtScore(s)), Float: true}
			}
		}
		return Exp{R: rNil()}
	case "zincrby":
		d, err := strconv.ParseFloat(o.A[0], 64)
		if err != nil || math.IsNaN(d) {
			return Exp{R: rErr("value is not a valid float")}
		}
		cur := 0.0
		had := false
		if e := m.zsetW(tk, o.Ts); e != nil {
			cur, had = e.m[o.A[1]]
		}
		ns := cur + d
		if math.IsNaN(ns) {
			return Exp{R: rErr("resulting score is not a number (NaN)"), Class: "nan-score"}
		}
		e := m.zsetForWrite(tk, o.Ts)
		e.m[o.A[1]] = ns
		m.noteAdd("zset", tk, o.A[1])
		cls := ""
		if had && ns == cur {
			cls = "same-score" // the increment leaves the score of an existing member unchanged
		}
		return Exp{R: rBulk(fmtScore(ns)), Float: true, Class: cls}
	case "zrange", "zrevrange":
		if len(o.A) != 2 && len(o.A) != 3 {
			return Exp{R: rErr("args")}
		}
		start, ok1 := parseInt(o.A[0])
		stop, ok2 := parseInt(o.A[1])
		if !ok1 || !ok2 {
			return Exp{R: rErr("value is not an integer or out of range")}
		}
		ws := false
		if len(o.A) == 3 {
			if strings.ToLower(o.A[2]) != "withscores" {
				return Exp{R: rErr("syntax error")}
			}
			ws = true
		}
		ps := zsorted(m.zsetR(tk))
		if o.Name == "zrevrange" {
			ps = reversed(ps)
		}
		s, t, ok := normIndex(start, stop, int64(len(ps)))
		if !ok {
			return zreply(nil, ws)
		}
		if t-s+1 > maxBulkRead {
			m.dev("D16")
			return Exp{R: rErr("too much batch size")}
		}
		return zreply(ps[s:t+1], ws)
	case "zrangebyscore", "zrevrangebyscore", "zcount":
		if len(o.A) < 2 {
			return Exp{R: rErr("args")}
		}
		loS, hiS := o.A[0], o.A[1]
		if o.Name == "zrevrangebyscore" {
			loS, hiS = o.A[1], o.A[0]
		}
		lo, ok1 := parseScoreBound(loS, true)
		hi, ok2 := parseScoreBound(hiS, false)
		if !ok1 || !ok2 {
			return Exp{R: rErr("min or max is not a float")}
		}
		rest := o.A[2:]
		ws := false
		if o.Name == "zcount" {
			if len(rest) != 0 {
				return Exp{R: rErr("args")}
			}
		} else if len(rest) > 0 && strings.ToLower(rest[0]) == "withscores" {
			ws = true
			rest = rest[1:]
		}
		off, cnt, ok := parseLimit(rest)
		if !ok {
			return Exp{R: rErr("syntax error")}
		}
		var sel []zpair
		for _, p := range zsorted(m.zsetR(tk)) {
			if inScore(p.s, lo, hi) {
				sel = append(sel, p)
			}
		}
		cls := ""
		if lo.excl || hi.excl {
			cls = "excl-score-bound"
		}
		if o.Name == "zcount" {
			return Exp{R: rInt(int64(len(sel))), Class: cls}
		}
		if o.Name == "zrevrangebyscore" {
			sel = reversed(sel)
		}
		if res := applyLimit(sel, off, cnt); len(res) > maxBulkRead {
			m.dev("D16")
			return Exp{R: rErr("too much batch size")}
		}
		ex := zreply(applyLimit(sel, off, cnt), ws)
		ex.Class = cls
		return ex
	case "zrangebylex", "zlexcount":
		if len(o.A) < 2 {
			return Exp{R: rErr("args")}
		}
		lo, ok1 := parseLexBound(o.A[0], true)
		hi, ok2 := parseLexBound(o.A[1], false)
		if !ok1 || !ok2 {
			return Exp{R: rErr("min or max not valid string range item")}
		}
		off, cnt := 0, -1
		if o.Name == "zlexcount" {
			if len(o.A) != 2 {
				return Exp{R: rErr("args")}
			}
		} else {
			var ok bool
			off, cnt, ok = parseLimit(o.A[2:])
			if !ok {
				return Exp{R: rErr("syntax error")}
			}
		}
		e := m.zsetR(tk)
		if e != nil && !allScoresEqual(e) {
			m.dev("D13")
			return Exp{Skip: "lex range on a sorted set with mixed scores is unspecified (D13)"}
		}
		var sel []zpair
		for _, p := range zsorted(e) {
			if inLex(p.m, lo, hi) {
				sel = append(sel, p)
			}
		}
		// input class: the lower bound ends in a NUL byte and the member that is
		// the bound without that byte exists too (key K and key K+"\x00": the
		// mem engine's radix index appends a NUL terminator to every key and
		// its lower-bound seek then lands wrong; pebble is right)
		cls := ""
		if e != nil && !lo.min && strings.HasSuffix(lo.v, "\x00") {
			if _, ok := e.m[lo.v[:len(lo.v)-1]]; ok {
				cls = "nul-suffix-lower-bound"
			}
		}
		if o.Name == "zlexcount" {
			return Exp{R: rInt(int64(len(sel))), Class: cls}
		}
		ex := zreply(applyLimit(sel, off, cnt), false)
		ex.Class = cls
		return ex
	case "zrank", "zrevrank":
		ps := zsorted(m.zsetR(tk))
		if o.Name == "zrevrank" {
			ps = reversed(ps)
		}
		for i, p := range ps {
			if p.m == o.A[0] {
				return Exp{R: rInt(int64(i))}
			}
		}
		return Exp{R: rNil()}
	case "zremrangebyrank":
		start, ok1 := parseInt(o.A[0])
		stop, ok2 := parseInt(o.A[1])
		if !ok1 || !ok2 {
			return Exp{R: rErr("value is not an integer or out of range")}
		}
		e := m.zsetW(tk, o.Ts)
		ps := zsorted(e)
		s, t, ok := normIndex(start, stop, int64(len(ps)))
		if !ok {
			return Exp{R: rInt(0)}
		}
		for _, p := range ps[s : t+1] {
			delete(e.m, p.m)
		}
		if len(e.m) == 0 {
			m.zsetDrop(tk)
		}
		return Exp{R: rInt(t - s + 1)}
	case "zremrangebyscore":
		lo, ok1 := parseScoreBound(o.A[0], true)
		hi, ok2 := parseScoreBound(o.A[1], false)
		if !ok1 || !ok2 {
			return Exp{R: rErr("min or max is not a float")}
		}
		e := m.zsetW(tk, o.Ts)
		n := int64(0)
		for _, p := range zsorted(e) {
			if inScore(p.s, lo, hi) {
				delete(e.m, p.m)
				n++
			}
		}
		if e != nil && len(e.m) == 0 {
			m.zsetDrop(tk)
		}
		if lo.excl || hi.excl {
			return Exp{R: rInt(n), Class: "excl-score-bound"}
		}
		return Exp{R: rInt(n)}
	case "zremrangebylex":
		lo, ok1 := parseLexBound(o.A[0], true)
		hi, ok2 := parseLexBound(o.A[1], false)
		if !ok1 || !ok2 {
			return Exp{R: rErr("min or max not valid string range item")}
		}
		e := m.zsetW(tk, o.Ts)
		if e != nil && !allScoresEqual(e) {
			m.dev("D13")
			return Exp{Skip: "ZREMRANGEBYLEX on mixed scores is unspecified (D13)", Abort: true}
		}
		cls := ""
		if e != nil && !lo.min && strings.HasSuffix(lo.v, "\x00") {
			if _, ok := e.m[lo.v[:len(lo.v)-1]]; ok {
				cls = "nul-suffix-lower-bound" // see zrangebylex
			}
		}
		n := int64(0)
		for _, p := range zsorted(e) {
			if inLex(p.m, lo, hi) {
				delete(e.m, p.m)
				n++
			}
		}
		if e != nil && len(e.m) == 0 {
			m.zsetDrop(tk)
		}
		return Exp{R: rInt(n), Class: cls}
	case "zclear":
		m.dev("D7")
		if e := m.zsetW(tk, o.Ts); e != nil {
			m.zsetDrop(tk)
			return Exp{R: rInt(1)}
		}
		return Exp{R: rInt(0)}
	case "zkeyexist":
		m.dev("D7")
		if m.zsetR(tk) != nil {
			return Exp{R: rInt(1)}
		}
		return Exp{R: rInt(0)}
	case "zfixkey":
		m.dev("D7")
		// D8: ZFixKey compares the size read with the LOG time against ZRange,
		// which filters with the WALL clock; when the clocks disagree about the
		// expiry it "repairs" the size to 0, i.e. deletes the meta.
		if e := m.zset[tk]; e != nil && m.Policy == PolicyCompact && e.exp != 0 && m.Wall != 0 {
			if m.expiredW(e.exp, o.Ts) != m.expiredR(e.exp) {
				m.dev("D8-zfixkey-clock")
				return Exp{Skip: "ZFIXKEY while log time and wall clock disagree about the expiry (D8)", Abort: true}
			}
		}
		return Exp{R: rOK()}
	case "zexpire":
		e := m.zsetW(tk, o.Ts)
		return m.expireCmd(o, "zset", e != nil, func(w int64) { e.exp = w })
	case "zpersist":
		e := m.zsetW(tk, o.Ts)
		cur := int64(0)
		if e != nil {
			cur = e.exp
		}
		return m.persistCmd(o, e != nil, cur, func() { e.exp = 0 })
	case "zttl":
		e := m.zsetR(tk)
		if e == nil {
			return m.ttlCmd(false, 0)
		}
		return m.ttlCmd(true, e.exp)
	}
	return Exp{Skip: "no model for " + o.Name}
}
