package model

import (
	"fmt"

	"github.com/youzan/ZanRedisDB/rockredis"

	"verif/harness/smlab"
	"verif/harness/vc"
)

func init() {
	vc.Register("C09", "exploration", runC09)
}

// runBatched applies maximal runs of consecutive writes (at most 8) as ONE
// apply batch (one GetBatchOperator/CommitBatch, the way a raft Ready with
// several committed entries is applied). Replies are not compared (C09 is
// model-free); identities and the structural walk run after every batch and
// after every read.
func (r *runner) runBatched() (*Failure, bool) {
	i := 0
	for i < len(r.ops) {
		o := r.ops[i]
		if o.IsCtl() {
			i++
			continue
		}
		if !IsWrite(o.Name) {
			r.count(o)
			rep := r.read(o)
			if rep.Kind == "error" {
				r.st.ErrReplies++
			}
			if f := r.identitiesAll(i); f != nil {
				return f, false
			}
			i++
			continue
		}
		var batch []smlab.Entry
		j := i
		for j < len(r.ops) && len(batch) < 8 && !r.ops[j].IsCtl() && IsWrite(r.ops[j].Name) {
			r.count(r.ops[j])
			batch = append(batch, smlab.E(r.ops[j].Ts, r.ops[j].Cmd()))
			j++
		}
		last := j - 1
		pan := ""
		var reps [][]Reply
		func() {
			defer func() {
				if e := recover(); e != nil {
					pan = fmt.Sprint(e)
				}
			}()
			reps = r.lab.Apply(batch, false, true)
		}()
		if pan != "" {
			f := r.fail(last, "panic", "", "state machine panicked inside an apply batch: "+pan)
			return r.bisectBatch(f, i, j), true
		}
		for _, er := range reps {
			for _, rep := range er {
				if rep.Kind == "error" {
					r.st.ErrReplies++
				}
			}
		}
		r.st.BatchApplies++
		r.st.BatchedCmds += int64(len(batch))
		r.info.Executed = j
		if f := r.identitiesAll(last); f != nil {
			return r.bisectBatch(f, i, j), false
		}
		if f := r.structWalkOpt(last, r.ops[last], nil, true); f != nil {
			return r.bisectBatch(f, i, j), false
		}
		i = j
	}
	return nil, false
}

// bisectBatch attributes a failure seen after the apply batch ops[i:j] to a
// command: the shortest prefix ops[i:i+p] of the batch (applied as one batch on
// a fresh store after the same history) after which the same kind of failure
// shows; the culprit is its last command.
func (r *runner) bisectBatch(f *Failure, i, j int) *Failure {
	if r.cfg.noBisect || j-i <= 1 {
		return f
	}
	for p := 1; p < j-i; p++ {
		cfg := r.cfg
		cfg.noBisect = true
		cfg.Stats = NewStats()
		cfg.Dir = fmt.Sprintf("%s-bis%d", r.cfg.Dir, p)
		ff, _, err := RunSeq(cfg, r.ops[:i+p])
		if err != nil || ff == nil {
			continue
		}
		if ff.At == i+p-1 && ff.Kind == f.Kind && ff.Which == f.Which {
			ff.Detail += fmt.Sprintf(" [seen after the apply batch of commands %d..%d; attributed by re-running with the batch cut after command %d]", i, j-1, i+p-1)
			return ff
		}
	}
	return f
}

func (r *runner) count(o Op) {
	fam := family(o.Name)
	r.st.Cmds[fam]++
	r.st.ByCmd[o.Name]++
	for _, k := range o.Keys() {
		r.touch(fam, o.T, k)
	}
}

func runC09(c *vc.Ctx) error {
	base := RunCfg{C09: true}
	if c.Replay != "" {
		return replayWitness(c, base, nil)
	}
	smlab.QuietLogs(c.Scratch)
	cp := newCampaign(c, "C09", base)
	cp.nontriv = func(spec caseSpec, info SeqInfo, st *Stats) []string {
		var out []string
		for k := range st.NonEmptyPairs {
			out = append(out, k)
		}
		return out
	}
	// same generator and same streams as C08 (the sequences are the same ones),
	// restricted to the four collection types plus KV commands on the same key
	// names, then the same sequences applied in apply batches.
	nRandom := c.Pick(800, 30000)
	cp.run(nRandom, func(i int) caseSpec {
		return caseSpec{Name: fmt.Sprintf("random-%d", i), Ops: randomSeq(c, 8, i, false), Store: storeCfgs[i%len(storeCfgs)]}
	})
	nBatch := c.Pick(400, 15000)
	cp.run(nBatch, func(i int) caseSpec {
		return caseSpec{Name: fmt.Sprintf("batched-%d", i), Ops: randomSeq(c, 9, i, false), Store: storeCfgs[i%len(storeCfgs)], Batch: true}
	})
	exh := exhaustiveSpace()
	total := exh.count()
	nExh := total
	var picked []int
	if !c.Thorough() {
		r := c.Rand(91)
		picked = make([]int, 3000)
		for i := range picked {
			picked[i] = r.Intn(total)
		}
		nExh = len(picked)
	}
	rounds := 1
	if c.Thorough() {
		rounds = 2 // the whole space on mem/wait_compact and mem/local_deletion; pebble by rotation below
	}
	for round := 0; round < rounds; round++ {
		round := round
		cp.run(nExh, func(i int) caseSpec {
			idx := i
			if picked != nil {
				idx = picked[i]
			}
			st := storeCfgs[(i+2*round)%len(storeCfgs)]
			return caseSpec{Name: fmt.Sprintf("exhaustive-%d", idx), Ops: exh.seq(idx), Store: st}
		})
	}
	// directed size-boundary family (both tiers, all three sizes)
	sb := sizebSpecs(false)
	cp.run(len(sb), func(i int) caseSpec { return sb[i] })
	cp.finish()
	ev := c.Ev
	st := cp.stats
	ev.Set("size_boundary_cases_executed", len(sb))
	ev.Set("size_boundary_sizes", []int{rockredis.RangeDeleteNum - 1, rockredis.RangeDeleteNum, rockredis.RangeDeleteNum + 1})
	ev.Rule = "cases: the C08 generator's sequences (random 20-200 commands over tiny pools, PRNG(seed,i); sequences of length <= 3 over the per-type alphabet, exhaustive in the thorough tier) executed (a) one raft entry per apply batch and (b) with maximal runs of up to 8 consecutive writes inside ONE apply batch; commands that fail are part of the sequences. After every command (after every batch in (b)) all identities of the property are evaluated by read commands on every collection key named so far, and after every write the raw engine content is walked with the exported codecs (size vs element keys, zset member/score bijection, list sequence, orphaned elements). No model is involved. Plus a directed size-boundary family: per collection type a collection of exactly N-1, N, N+1 elements (N = rockredis.RangeDeleteNum = 5000, the constant the whole-key removal paths branch on) is built with multi-argument commands, removed as a whole (*CLEAR, internal *MCLEAR, ZREMRANGEBYRANK 0 -1, expiry + local-deletion checker pass; LTRIM of a boundary-sized head/tail) and re-created with one element, on all four stores. evaluations = executed sequences; distinct_nontrivial = number of distinct (type, identity) pairs that were evaluated at least once on a NON-EMPTY collection."
	ev.Set("identities_evaluated", st.Identities)
	ev.Set("identities_by_kind", st.IdentByKind)
	ev.Set("keys_checked", st.KeysChecked)
	ev.Set("structural_walks", st.Walks)
	ev.Set("structural_walk_collections", st.WalkKeys)
	ev.Set("apply_batches_with_several_entries", st.BatchApplies)
	ev.Set("commands_inside_shared_batches", st.BatchedCmds)
	ev.Set("exhaustive_short", c.Thorough())
	ev.Set("exhaustive_sequences_run", nExh*rounds)
	ev.Assume("engines mem and pebble only (DESIGN.md section 4)")
	ev.Assume("HSCAN/SSCAN/ZSCAN totals are taken with one page larger than the collection; paging with small COUNT is C13's")
	ev.Assume("ZRANGEBYLEX - + is compared with ZCARD only while all scores of the set are equal (Redis defines lex ranges only then)")
	ev.Assume("inside a shared apply batch the orphan-element clause is evaluated under local_deletion only (under wait_compact it needs per-command bookkeeping of which generation a clear retired)")
	return nil
}
