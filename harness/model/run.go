package model

import (
	"fmt"
	"os"
	"sort"
	"strings"
	"time"

	"verif/harness/inproc"
	"verif/harness/smlab"
)

// Failure is the first disagreement found in one sequence.
type Failure struct {
	At     int    // index of the op at (or right after) which it was detected
	Sig    string // signature
	Kind   string // reply-mismatch | state-mismatch | error-class-mismatch | identity | structure | panic | c10 kinds
	Which  string // identity / structure name, or read command used for a state check
	Detail string
	OpStr  string
}

func (f *Failure) String() string {
	return fmt.Sprintf("%s at op %d (%s): %s", f.Sig, f.At, f.OpStr, f.Detail)
}

// RunCfg selects store and oracles for one execution of a sequence.
type RunCfg struct {
	Engine string
	Policy string
	Dir    string
	// C08: compare every reply and the state of the touched keys with the model.
	C08 bool
	// C09: model-free identities on every key touched so far after every
	// command, structural walk after every write.
	C09 bool
	// C10: classify disagreements with the expiry signatures; ctl ops allowed.
	C10 bool
	// Batch: apply maximal runs of consecutive writes as ONE apply batch (C09
	// only: replies of batched writes are not compared).
	Batch bool
	Stats *Stats
	// noBisect: internal, set while bisectBatch re-runs a prefix
	noBisect bool
	// Proto: run over the redis protocol against a running real server instead
	// of a private state machine (C08 protocol path; C08 oracle only)
	Proto *ProtoTarget
}

// Stats accumulates evidence (one per worker, merged at the end).
type Stats struct {
	Seqs          int64
	Cmds          map[string]int64 // by family
	ByCmd         map[string]int64
	ErrReplies    int64
	ModelErr      int64
	Dev           map[string]int64
	MaxSize       map[string]int64 // by type
	Identities    int64
	IdentByKind   map[string]int64
	KeysChecked   int64
	Walks         int64
	WalkKeys      int64
	BatchApplies  int64
	BatchedCmds   int64
	StateChecks   int64
	Skipped       map[string]int64
	Tainted       int64
	NonEmptyPairs map[string]bool // C09: (type, identity) evaluated on non-empty collections
	C10Cells      map[string]int64
	CtlOps        map[string]int64
	TTLChecked    int64
	LocalObs      int64
}

func NewStats() *Stats {
	return &Stats{Cmds: map[string]int64{}, ByCmd: map[string]int64{}, Dev: map[string]int64{}, MaxSize: map[string]int64{},
		IdentByKind: map[string]int64{}, Skipped: map[string]int64{}, NonEmptyPairs: map[string]bool{}, C10Cells: map[string]int64{},
		CtlOps: map[string]int64{}}
}

func (s *Stats) Merge(o *Stats) {
	s.Seqs += o.Seqs
	s.ErrReplies += o.ErrReplies
	s.ModelErr += o.ModelErr
	s.Identities += o.Identities
	s.KeysChecked += o.KeysChecked
	s.Walks += o.Walks
	s.WalkKeys += o.WalkKeys
	s.BatchApplies += o.BatchApplies
	s.BatchedCmds += o.BatchedCmds
	s.StateChecks += o.StateChecks
	s.Tainted += o.Tainted
	s.TTLChecked += o.TTLChecked
	s.LocalObs += o.LocalObs
	add := func(d, src map[string]int64) {
		for k, v := range src {
			d[k] += v
		}
	}
	add(s.Cmds, o.Cmds)
	add(s.ByCmd, o.ByCmd)
	add(s.Dev, o.Dev)
	add(s.IdentByKind, o.IdentByKind)
	add(s.Skipped, o.Skipped)
	add(s.C10Cells, o.C10Cells)
	add(s.CtlOps, o.CtlOps)
	for k, v := range o.MaxSize {
		if v > s.MaxSize[k] {
			s.MaxSize[k] = v
		}
	}
	for k := range o.NonEmptyPairs {
		s.NonEmptyPairs[k] = true
	}
}

// SeqInfo describes one executed sequence (for distinct_nontrivial rules).
type SeqInfo struct {
	ReachedNonEmpty bool // some collection (or kv value) was non-empty at some point
	HadRemoval      bool // a removal or overwrite command changed state
	Executed        int
}

type touchKey struct{ typ, t, k string }

type runner struct {
	cfg     RunCfg
	lab     *smlab.Lab
	m       *Model
	st      *Stats
	touched map[touchKey]bool
	order   []touchKey
	info    SeqInfo
	ops     []Op
	// C09 structural bookkeeping: versions retired by sanctioned wholesale removal
	retired map[string]bool
	// input class of the command being evaluated (Exp.Class)
	class string
	// C10: what was known about the command's keys before it was applied
	pre c10pre
	// protocol path executor (nil: smlab)
	px *protoExec
}

// sigFor computes the signature of a failure detected at ops[at].
func sigFor(ops []Op, at int, kind, which, class string) string {
	f := ops[at]
	cmd := strings.ToUpper(f.Name)
	if f.IsCtl() {
		cmd = "!" + f.Ctl
	}
	if kind == "c10" {
		return which // the C10 classes carry their complete signature
	}
	// Refinement for the input class of DESIGN.md 1.6 #1: the command at which
	// the disagreement shows (state and identities are checked right after every
	// command, so a corrupting write is caught at that write) repeats an argument.
	dupCmd := ""
	if f.hasDupArg() {
		dupCmd = cmd
	}
	if dupCmd != "" {
		return "dup-arg/" + dupCmd
	}
	if class != "" {
		switch kind {
		case "panic":
			return class + "/" + cmd + "/panic"
		case "reply-mismatch", "state-mismatch", "error-class-mismatch":
			return class + "/" + cmd
		}
	}
	switch kind {
	case "identity":
		return "identity/" + which + "/" + cmd
	case "structure":
		return "structure/" + which + "/" + cmd
	case "panic":
		return "panic/" + cmd
	case "reply-mismatch", "state-mismatch", "error-class-mismatch":
		return family(f.Name) + "/" + cmd + "/" + kind
	}
	// C10 kinds carry their own complete signature in `which`
	return which
}

func (r *runner) fail(at int, kind, which, detail string) *Failure {
	return &Failure{At: at, Kind: kind, Which: which, Detail: detail, OpStr: r.ops[at].String(),
		Sig: sigFor(r.ops, at, kind, which, r.class)}
}

func (r *runner) touch(typ, t, k string) {
	tk := touchKey{typ, t, k}
	if !r.touched[tk] {
		r.touched[tk] = true
		r.order = append(r.order, tk)
	}
}

// applyWrite applies one write as its own entry and apply batch; a panic inside
// the state machine is caught and reported.
func (r *runner) applyWrite(o Op) (rep Reply, panicked string) {
	r.m.Wall = time.Now().Unix()
	if r.px != nil {
		return r.px.do(o), ""
	}
	defer func() {
		if e := recover(); e != nil {
			panicked = fmt.Sprint(e)
		}
	}()
	rep = r.lab.ApplyOne(o.Ts, o.Cmd())
	return rep, ""
}

func (r *runner) read(o Op) Reply {
	r.m.Wall = time.Now().Unix()
	if r.px != nil {
		return r.px.do(o)
	}
	return r.lab.Read(o.Cmd())
}

// canonical state reads per type
func stateReads(typ, t, k string) []Op {
	switch typ {
	case "kv":
		return []Op{{Name: "get", T: t, K: k}}
	case "hash":
		return []Op{{Name: "hgetall", T: t, K: k}, {Name: "hlen", T: t, K: k}}
	case "list":
		return []Op{{Name: "lrange", T: t, K: k, A: []string{"0", "-1"}}, {Name: "llen", T: t, K: k}}
	case "set":
		return []Op{{Name: "smembers", T: t, K: k}, {Name: "scard", T: t, K: k}}
	case "zset":
		// ZRANGE 0 -1 is cut at the stored size; the score-range form is not
		return []Op{{Name: "zrange", T: t, K: k, A: []string{"0", "-1", "withscores"}},
			{Name: "zrangebyscore", T: t, K: k, A: []string{"-inf", "+inf", "withscores"}}, {Name: "zcard", T: t, K: k}}
	}
	return nil
}

// checkState compares the visible state of one key with the model.
func (r *runner) checkState(at int, tk touchKey) *Failure {
	if r.cfg.C10 && r.clockAmbiguous(tk.typ, tk.t+":"+tk.k) {
		r.st.Skipped["state check skipped: expiry within the clock margins"]++
		return nil
	}
	for _, ro := range stateReads(tk.typ, tk.t, tk.k) {
		got := r.read(ro)
		exp := r.m.Apply(ro)
		r.st.StateChecks++
		if kind, detail := match(exp, got); kind != "" {
			which := r.classifyC10(at, tk, ro, exp, got)
			if which != "" {
				return r.fail(at, "c10", which, fmt.Sprintf("%s %q %q: %s", ro.Name, tk.t, tk.k, detail))
			}
			return r.fail(at, "state-mismatch", ro.Name, fmt.Sprintf("after the command, %s %q %q: %s", strings.ToUpper(ro.Name), tk.t, tk.k, detail))
		}
	}
	return nil
}

func (r *runner) noteSizes() {
	for _, e := range r.m.hash {
		if n := int64(len(e.f)); n > r.st.MaxSize["hash"] {
			r.st.MaxSize["hash"] = n
		}
	}
	for _, e := range r.m.list {
		if n := int64(len(e.l)); n > r.st.MaxSize["list"] {
			r.st.MaxSize["list"] = n
		}
	}
	for _, e := range r.m.set {
		if n := int64(len(e.m)); n > r.st.MaxSize["set"] {
			r.st.MaxSize["set"] = n
		}
	}
	for _, e := range r.m.zset {
		if n := int64(len(e.m)); n > r.st.MaxSize["zset"] {
			r.st.MaxSize["zset"] = n
		}
	}
	for _, e := range r.m.kv {
		if n := int64(len(e.v)); n > r.st.MaxSize["kv_value_len"] {
			r.st.MaxSize["kv_value_len"] = n
		}
	}
}

func (r *runner) modelSize() int {
	return len(r.m.kv) + len(r.m.hash) + len(r.m.list) + len(r.m.set) + len(r.m.zset)
}

var removalCmds = map[string]bool{
	"del": true, "getset": true, "set": true, "setex": true, "mset": true, "append": true, "setrange": true, "incr": true, "incrby": true,
	"hdel": true, "hclear": true, "hset": true, "hmset": true, "hincrby": true,
	"lpop": true, "rpop": true, "ltrim": true, "lclear": true, "lset": true,
	"srem": true, "spop": true, "sclear": true,
	"zrem": true, "zremrangebyrank": true, "zremrangebyscore": true, "zremrangebylex": true, "zclear": true, "zadd": true, "zincrby": true,
}

// RunSeq executes ops on a fresh store and a fresh model. It returns the first
// failure (nil if none), and information about the execution.
func RunSeq(cfg RunCfg, ops []Op) (fail *Failure, info SeqInfo, err error) {
	if cfg.Stats == nil {
		cfg.Stats = NewStats()
	}
	if cfg.Proto != nil {
		return runSeqProto(cfg, ops)
	}
	os.RemoveAll(cfg.Dir)
	lab, err := smlab.Open(smlab.Opts{Engine: cfg.Engine, ExpirePolicy: cfg.Policy, Dir: cfg.Dir})
	if err != nil {
		return nil, info, err
	}
	r := &runner{cfg: cfg, lab: lab, m: NewModel(cfg.Policy), st: cfg.Stats, touched: map[touchKey]bool{}, ops: ops,
		retired: map[string]bool{}}
	abandoned := false
	defer func() {
		if !abandoned {
			lab.Destroy()
		} else {
			os.RemoveAll(cfg.Dir)
		}
		for k, v := range r.m.Dev {
			r.st.Dev[k] += int64(v)
		}
	}()
	r.st.Seqs++
	if cfg.Batch {
		fail, abandoned = r.runBatched()
	} else {
		fail, abandoned = r.runPlain()
	}
	return fail, r.info, nil
}

func (r *runner) runPlain() (*Failure, bool) {
	for i, o := range r.ops {
		r.info.Executed = i + 1
		if o.IsCtl() {
			if f := r.ctl(i, o); f != nil {
				if f.Kind == "abort" {
					return nil, false
				}
				return f, false
			}
			continue
		}
		fam := family(o.Name)
		r.class = ""
		r.st.Cmds[fam]++
		r.st.ByCmd[o.Name]++
		for _, k := range o.Keys() {
			r.touch(fam, o.T, k)
		}
		var got Reply
		var structPre *structSnap
		isW := IsWrite(o.Name)
		r.pre = c10pre{}
		if r.cfg.C10 {
			ambiguous := false
			for _, k := range o.Keys() {
				if r.clockAmbiguous(fam, o.T+":"+k) {
					ambiguous = true
				}
			}
			if ambiguous {
				r.st.Skipped["sequence stopped: expiry within the clock margins"]++
				return nil, false
			}
			if isW {
				r.pre = r.c10Before(o)
			}
		}
		if isW {
			if r.cfg.C09 {
				structPre = r.structBefore(o)
			}
			before := r.modelSize()
			rep, pan := r.applyWrite(o)
			if pan != "" {
				r.class = r.m.Apply(o).Class
				return r.fail(i, "panic", "", "state machine panicked: "+pan), true
			}
			got = rep
			if r.px == nil {
				got = adaptWrite(o, rep)
			} else if r.px.err != nil {
				return &Failure{At: i, Kind: "io", Detail: r.px.err.Error()}, false
			}
			_ = before
		} else {
			got = r.read(o)
		}
		if r.px != nil && r.px.err != nil {
			return &Failure{At: i, Kind: "io", Detail: r.px.err.Error()}, false
		}
		if got.Kind == "error" {
			r.st.ErrReplies++
		}
		var exp Exp
		if r.cfg.C08 || r.cfg.C10 {
			exp = r.m.Apply(o)
			r.class = exp.Class
			if exp.R.Kind == "error" {
				r.st.ModelErr++
			}
			if exp.Skip != "" {
				r.st.Skipped[o.Name+": "+exp.Skip]++
			}
			if exp.Abort {
				r.st.Skipped["sequence stopped: "+exp.Skip]++
				return nil, false
			}
			if exp.TTL {
				// wall clock read before (m.Wall) and after the call: one-sided bounds
				after := time.Now().Unix()
				exp.Lo, exp.Hi = exp.Lo-after, exp.Hi-r.m.Wall
				r.st.TTLChecked++
			}
			if kind, detail := match(exp, got); kind != "" {
				if r.cfg.C10 {
					if which := r.classifyC10Reply(i, o, exp, got); which != "" {
						return r.fail(i, "c10", which, detail), false
					}
				}
				return r.fail(i, kind, "", detail), false
			}
			if r.modelSize() > 0 {
				r.info.ReachedNonEmpty = true
			}
			if isW && removalCmds[o.Name] && got.Kind != "error" && r.info.ReachedNonEmpty {
				r.info.HadRemoval = true
			}
			r.noteSizes()
			// state of the keys this command names
			for _, k := range o.Keys() {
				if f := r.checkState(i, touchKey{fam, o.T, k}); f != nil {
					return f, false
				}
			}
			if r.cfg.C10 && isW {
				if f := r.checkExpiry(i, o); f != nil {
					return f, false
				}
			}
		}
		if r.cfg.C09 {
			if f := r.identitiesAll(i); f != nil {
				return f, false
			}
			if isW {
				if f := r.structWalk(i, o, structPre); f != nil {
					return f, false
				}
			}
		}
	}
	// final: every key touched in the sequence, plus whatever the store holds
	r.class = ""
	r.pre = c10pre{}
	last := len(r.ops) - 1
	if last < 0 {
		return nil, false
	}
	if r.cfg.C08 || r.cfg.C10 {
		for _, tk := range r.order {
			if f := r.checkState(last, tk); f != nil {
				f.Detail = "final state check: " + f.Detail
				return f, false
			}
		}
		if r.px == nil {
			if f := r.checkNoExtraKeys(last); f != nil {
				return f, false
			}
		}
	}
	return nil, false
}

// checkNoExtraKeys: the store must not hold a visible key the model does not
// have (keys are enumerated from the engine through the logical dump).
func (r *runner) checkNoExtraKeys(at int) *Failure {
	d := r.lab.LogicalDump()
	for _, line := range d.Lines {
		var typ string
		switch {
		case strings.HasPrefix(line, "kv "):
			typ = "kv"
		case strings.HasPrefix(line, "hash "):
			typ = "hash"
		case strings.HasPrefix(line, "list "):
			typ = "list"
		case strings.HasPrefix(line, "set "):
			typ = "set"
		case strings.HasPrefix(line, "zset "):
			typ = "zset"
		default:
			continue
		}
		t, k, ok := parseDumpKey(line[len(typ)+1:])
		if !ok {
			continue
		}
		tk := touchKey{typ, t, k}
		if r.touched[tk] {
			continue // already compared
		}
		if f := r.checkState(at, tk); f != nil {
			f.Detail = "key never named by the sequence: " + f.Detail
			return f
		}
	}
	return nil
}

// parseDumpKey reads two Go-quoted strings (table, key) from the head of s.
func parseDumpKey(s string) (string, string, bool) {
	o, err := ParseOp("x " + cutTwoQuoted(s))
	if err != nil {
		return "", "", false
	}
	return o.T, o.K, true
}

func cutTwoQuoted(s string) string {
	// the dump line is: "<table>" "<key>" exp=... ; keep the two quoted tokens
	n := 0
	inQ := false
	for i := 0; i < len(s); i++ {
		c := s[i]
		if c == '\\' && inQ {
			i++
			continue
		}
		if c == '"' {
			inQ = !inQ
			if !inQ {
				n++
				if n == 2 {
					return s[:i+1]
				}
			}
		}
	}
	return s
}

func sortedTouch(m map[touchKey]bool) []touchKey {
	out := make([]touchKey, 0, len(m))
	for k := range m {
		out = append(out, k)
	}
	sort.Slice(out, func(i, j int) bool {
		a, b := out[i], out[j]
		if a.typ != b.typ {
			return a.typ < b.typ
		}
		if a.t != b.t {
			return a.t < b.t
		}
		return a.k < b.k
	})
	return out
}

// runSeqProto executes the sequence over TCP against a running server.
func runSeqProto(cfg RunCfg, ops []Op) (*Failure, SeqInfo, error) {
	conn, err := inproc.Dial(cfg.Proto.Addr, 30*time.Second)
	if err != nil {
		return nil, SeqInfo{}, err
	}
	defer conn.Close()
	ops = append([]Op{}, ops...)
	now := time.Now().UnixNano()
	for i := range ops {
		if IsWrite(ops[i].Name) {
			// the proposing node stamps the entry with its clock; the model only
			// needs a value that is far from every expiry (C08: TTLs of ten years)
			ops[i].Ts = now + int64(i)
		}
	}
	r := &runner{cfg: cfg, m: NewModel(cfg.Policy), st: cfg.Stats, touched: map[touchKey]bool{}, ops: ops,
		retired: map[string]bool{}, px: &protoExec{conn: conn, ns: cfg.Proto.NS}}
	r.st.Seqs++
	fail, _ := r.runPlain()
	for k, v := range r.m.Dev {
		r.st.Dev[k] += int64(v)
	}
	if fail == nil && r.px.err != nil {
		return nil, r.info, r.px.err
	}
	if fail != nil {
		if fail.Kind == "io" {
			return nil, r.info, fmt.Errorf("connection to the server failed at command %d (%s): %s", fail.At, ops[fail.At].String(), fail.Detail)
		}
		fail.Sig = "proto/" + fail.Sig
	}
	return fail, r.info, nil
}
