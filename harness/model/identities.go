package model

import (
	"fmt"
	"strconv"

	"github.com/youzan/ZanRedisDB/rockredis"
)

// C09: model-free identities. Every function reads the implementation only.

type identFail struct{ which, detail, class string }

func (r *runner) rd(name, t, k string, a ...string) Reply {
	return r.lab.Read(Op{Name: name, T: t, K: k, A: a}.Cmd())
}

func asInt(rep Reply) (int64, bool) {
	if rep.Kind == "int" {
		return rep.Int, true
	}
	return 0, false
}

func asList(rep Reply) ([]string, bool) {
	if rep.Kind != "array" {
		return nil, false
	}
	out := make([]string, len(rep.Arr))
	for i, e := range rep.Arr {
		if e.Kind != "bulk" {
			return nil, false
		}
		out[i] = string(e.Bulk)
	}
	return out, true
}

func firstDup(xs []string) (string, bool) {
	seen := map[string]bool{}
	for _, x := range xs {
		if seen[x] {
			return x, true
		}
		seen[x] = true
	}
	return "", false
}

// scanAll follows an HSCAN/SSCAN/ZSCAN cursor to the end with a page size
// larger than any collection the generator can build (cursor semantics with
// small pages belong to C13) and returns the number of elements seen.
func (r *runner) scanAll(cmd, t, k string, stride int) (int, string) {
	cursor := ""
	total := 0
	for page := 0; page < 64; page++ {
		rep := r.rd(cmd, t, k, cursor, "count", "4000")
		if rep.Kind != "array" || len(rep.Arr) != 2 || rep.Arr[0].Kind != "bulk" || rep.Arr[1].Kind != "array" {
			return 0, "malformed reply " + rep.Canon()
		}
		total += len(rep.Arr[1].Arr) / stride
		cursor = string(rep.Arr[0].Bulk)
		if cursor == "" {
			return total, ""
		}
	}
	return total, "cursor does not terminate"
}

// ident evaluates the identities of one (type,key); n counts evaluations.
func (r *runner) ident(tk touchKey) (fails *identFail, size int64) {
	t, k := tk.t, tk.k
	bad := func(which, f string, a ...interface{}) *identFail {
		return &identFail{which: which, detail: fmt.Sprintf("%s %q %q: ", tk.typ, t, k) + fmt.Sprintf(f, a...)}
	}
	ev := func(which string, nonEmpty bool) {
		r.st.Identities++
		r.st.IdentByKind[tk.typ+"/"+which]++
		if nonEmpty {
			r.st.NonEmptyPairs[tk.typ+"/"+which] = true
		}
	}
	// collections above the bulk-read limit (doc/user-guide.md:10, 5000): the
	// enumerating commands refuse them, the identities that remain are the
	// scan chain total (LRANGE windows for a list) and *KEYEXIST
	if f, n, big := r.identBig(tk, bad, ev); big {
		return f, n
	}
	switch tk.typ {
	case "hash":
		n, ok := asInt(r.rd("hlen", t, k))
		if !ok {
			return bad("hlen-reply", "HLEN answered %s", r.rd("hlen", t, k).Canon()), 0
		}
		ne := n > 0
		all, ok1 := asList(r.rd("hgetall", t, k))
		keys, ok2 := asList(r.rd("hkeys", t, k))
		vals, ok3 := asList(r.rd("hvals", t, k))
		if !ok1 || !ok2 || !ok3 {
			return bad("enumeration-reply", "HGETALL/HKEYS/HVALS did not answer arrays of bulks"), n
		}
		ne = ne || len(all) > 0 || len(keys) > 0
		ev("hlen=hgetall", ne)
		if int64(len(all)) != 2*n {
			return bad("hlen-vs-hgetall", "HLEN=%d but HGETALL has %d fields", n, len(all)/2), n
		}
		ev("hlen=hkeys", ne)
		if int64(len(keys)) != n {
			return bad("hlen-vs-hkeys", "HLEN=%d but HKEYS has %d", n, len(keys)), n
		}
		ev("hlen=hvals", ne)
		if int64(len(vals)) != n {
			return bad("hlen-vs-hvals", "HLEN=%d but HVALS has %d", n, len(vals)), n
		}
		ev("field-once", ne)
		if d, dup := firstDup(keys); dup {
			return bad("field-twice", "HKEYS lists %q twice", d), n
		}
		ev("hkeyexist", ne)
		if ex, _ := asInt(r.rd("hkeyexist", t, k)); (ex == 1) != (n > 0) {
			return bad("hkeyexist-vs-hlen", "HKEYEXIST=%d but HLEN=%d", ex, n), n
		}
		for i := 0; i+1 < len(all); i += 2 * reachStep(len(all)/2) {
			ev("hget-reaches", true)
			g := r.rd("hget", t, k, all[i])
			if g.Kind != "bulk" || string(g.Bulk) != all[i+1] {
				return bad("hget-unreachable", "HGETALL lists %q=%q but HGET answers %s", all[i], all[i+1], g.Canon()), n
			}
			if x, _ := asInt(r.rd("hexists", t, k, all[i])); x != 1 {
				return bad("hexists-unreachable", "HGETALL lists %q but HEXISTS=0", all[i]), n
			}
		}
		if emptyMemberClass(keys) != "" {
			// the cursor "" is both start and end marker: the element named ""
			// cannot be represented by the cursor protocol (C13 quantifies over
			// non-empty names); the total is not demanded for such collections
			r.st.Skipped["scan-total not evaluated: collection holds the empty-name element"]++
			return nil, n
		}
		ev("hscan-total", ne)
		tot, msg := r.scanAll("hscan", t, k, 2)
		if msg != "" {
			return bad("hscan-total", "HSCAN: %s", msg), n
		}
		if int64(tot) != n {
			f := bad("hscan-total", "HSCAN returns %d fields in total but HLEN=%d", tot, n)
			f.class = emptyMemberClass(keys)
			return f, n
		}
		return nil, n
	case "set":
		n, ok := asInt(r.rd("scard", t, k))
		if !ok {
			return bad("scard-reply", "SCARD answered %s", r.rd("scard", t, k).Canon()), 0
		}
		ms, ok1 := asList(r.rd("smembers", t, k))
		if !ok1 {
			return bad("enumeration-reply", "SMEMBERS answered %s", r.rd("smembers", t, k).Canon()), n
		}
		ne := n > 0 || len(ms) > 0
		ev("scard=smembers", ne)
		if int64(len(ms)) != n {
			return bad("scard-vs-smembers", "SCARD=%d but SMEMBERS has %d", n, len(ms)), n
		}
		ev("member-once", ne)
		if d, dup := firstDup(ms); dup {
			return bad("member-twice", "SMEMBERS lists %q twice", d), n
		}
		ev("skeyexist", ne)
		if ex, _ := asInt(r.rd("skeyexist", t, k)); (ex == 1) != (n > 0) {
			return bad("skeyexist-vs-scard", "SKEYEXIST=%d but SCARD=%d", ex, n), n
		}
		for i := 0; i < len(ms); i += reachStep(len(ms)) {
			mb := ms[i]
			ev("sismember-reaches", true)
			if x, _ := asInt(r.rd("sismember", t, k, mb)); x != 1 {
				return bad("sismember-unreachable", "SMEMBERS lists %q but SISMEMBER=0", mb), n
			}
		}
		if emptyMemberClass(ms) != "" {
			r.st.Skipped["scan-total not evaluated: collection holds the empty-name element"]++
			return nil, n
		}
		ev("sscan-total", ne)
		tot, msg := r.scanAll("sscan", t, k, 1)
		if msg != "" {
			return bad("sscan-total", "SSCAN: %s", msg), n
		}
		if int64(tot) != n {
			f := bad("sscan-total", "SSCAN returns %d members in total but SCARD=%d", tot, n)
			f.class = emptyMemberClass(ms)
			return f, n
		}
		return nil, n
	case "list":
		n, ok := asInt(r.rd("llen", t, k))
		if !ok {
			return bad("llen-reply", "LLEN answered %s", r.rd("llen", t, k).Canon()), 0
		}
		es, ok1 := asList(r.rd("lrange", t, k, "0", "-1"))
		if !ok1 {
			return bad("enumeration-reply", "LRANGE answered %s", r.rd("lrange", t, k, "0", "-1").Canon()), n
		}
		ne := n > 0 || len(es) > 0
		ev("llen=lrange", ne)
		if int64(len(es)) != n {
			return bad("llen-vs-lrange", "LLEN=%d but LRANGE 0 -1 has %d", n, len(es)), n
		}
		ev("lkeyexist", ne)
		if ex, _ := asInt(r.rd("lkeyexist", t, k)); (ex == 1) != (n > 0) {
			return bad("lkeyexist-vs-llen", "LKEYEXIST=%d but LLEN=%d", ex, n), n
		}
		for i := 0; i < len(es); i += reachStep(len(es)) {
			e := es[i]
			ev("lindex-reaches", true)
			g := r.rd("lindex", t, k, strconv.Itoa(i))
			if g.Kind != "bulk" || string(g.Bulk) != e {
				return bad("lindex-unreachable", "LRANGE has %q at %d but LINDEX answers %s", e, i, g.Canon()), n
			}
		}
		return nil, n
	case "zset":
		n, ok := asInt(r.rd("zcard", t, k))
		if !ok {
			return bad("zcard-reply", "ZCARD answered %s", r.rd("zcard", t, k).Canon()), 0
		}
		ws, ok1 := asList(r.rd("zrange", t, k, "0", "-1", "withscores"))
		bs, ok2 := asList(r.rd("zrangebyscore", t, k, "-inf", "+inf"))
		if !ok1 || !ok2 || len(ws)%2 != 0 {
			return bad("enumeration-reply", "ZRANGE/ZRANGEBYSCORE did not answer arrays of bulks"), n
		}
		ne := n > 0 || len(ws) > 0 || len(bs) > 0
		ev("zcard=zrange", ne)
		if int64(len(ws)/2) != n {
			return bad("zcard-vs-zrange", "ZCARD=%d but ZRANGE 0 -1 has %d", n, len(ws)/2), n
		}
		ev("zcard=zrangebyscore", ne)
		if int64(len(bs)) != n {
			return bad("zcard-vs-zrangebyscore", "ZCARD=%d but ZRANGEBYSCORE -inf +inf has %d", n, len(bs)), n
		}
		var ms []string
		equal := true
		for i := 0; i+1 < len(ws); i += 2 {
			ms = append(ms, ws[i])
			if !floatEq(ws[i+1], ws[1]) {
				equal = false
			}
		}
		ev("member-once", ne)
		if d, dup := firstDup(ms); dup {
			return bad("member-twice", "ZRANGE lists %q twice", d), n
		}
		if d, dup := firstDup(bs); dup {
			return bad("member-twice", "ZRANGEBYSCORE lists %q twice", d), n
		}
		if equal {
			// lex range is defined by Redis only when all scores are equal
			ev("zcard=zrangebylex", ne)
			lx, ok3 := asList(r.rd("zrangebylex", t, k, "-", "+"))
			if !ok3 || int64(len(lx)) != n {
				return bad("zcard-vs-zrangebylex", "ZCARD=%d but ZRANGEBYLEX - + has %d (all scores equal)", n, len(lx)), n
			}
		}
		ev("zkeyexist", ne)
		if ex, _ := asInt(r.rd("zkeyexist", t, k)); (ex == 1) != (n > 0) {
			return bad("zkeyexist-vs-zcard", "ZKEYEXIST=%d but ZCARD=%d", ex, n), n
		}
		for i := 0; i+1 < len(ws); i += 2 * reachStep(len(ws)/2) {
			ev("zscore-agrees", true)
			g := r.rd("zscore", t, k, ws[i])
			if g.Kind != "bulk" || !floatEq(string(g.Bulk), ws[i+1]) {
				return bad("zscore-vs-zrange", "ZRANGE WITHSCORES has %q:%s but ZSCORE answers %s", ws[i], ws[i+1], g.Canon()), n
			}
		}
		if emptyMemberClass(ms) != "" {
			r.st.Skipped["scan-total not evaluated: collection holds the empty-name element"]++
			return nil, n
		}
		ev("zscan-total", ne)
		tot, msg := r.scanAll("zscan", t, k, 2)
		if msg != "" {
			return bad("zscan-total", "ZSCAN: %s", msg), n
		}
		if int64(tot) != n {
			f := bad("zscan-total", "ZSCAN returns %d members in total but ZCARD=%d", tot, n)
			f.class = emptyMemberClass(ms)
			return f, n
		}
		return nil, n
	}
	return nil, 0
}

// identitiesAll evaluates the identities on every collection key touched so
// far (all four collection types of every key name: a command on one type must
// not disturb another type's key of the same name either).
func (r *runner) identitiesAll(at int) *Failure {
	for _, tk := range r.order {
		if tk.typ == "kv" {
			continue
		}
		r.st.KeysChecked++
		f, size := r.ident(tk)
		if size > r.st.MaxSize[tk.typ] {
			r.st.MaxSize[tk.typ] = size
		}
		if size > 0 {
			r.info.ReachedNonEmpty = true
		}
		if f != nil {
			if f.class != "" {
				// input class of the COLLECTION, not of a command: the signature does
				// not name the command that happened to run last
				ff := r.fail(at, "identity", f.which, f.detail)
				ff.Sig = f.class + "/" + f.which
				return ff
			}
			return r.fail(at, "identity", f.which, f.detail)
		}
	}
	return nil
}

// emptyMemberClass: the collection holds the member/field with the empty name
// (the scan commands treat the start cursor "" as an exclusive lower bound).
func emptyMemberClass(members []string) string {
	for _, m := range members {
		if m == "" {
			return "empty-member"
		}
	}
	return ""
}

// reachStep: every element of a small collection is looked up; of a large one
// (size-boundary family) about 128 evenly spaced ones.
func reachStep(n int) int {
	if n <= 256 {
		return 1
	}
	return n / 128
}

var bigLimit = int64(rockredis.MAX_BATCH_NUM)

func (r *runner) identBig(tk touchKey, bad func(string, string, ...interface{}) *identFail, ev func(string, bool)) (*identFail, int64, bool) {
	t, k := tk.t, tk.k
	sizeCmd := map[string]string{"hash": "hlen", "set": "scard", "zset": "zcard", "list": "llen"}[tk.typ]
	n, ok := asInt(r.rd(sizeCmd, t, k))
	if !ok || n <= bigLimit {
		return nil, 0, false
	}
	ev("keyexist", true)
	if ex, _ := asInt(r.rd(tk.typ[:1]+"keyexist", t, k)); ex != 1 {
		return bad(tk.typ[:1]+"keyexist-vs-size", "%sKEYEXIST=%d but size=%d", tk.typ[:1], ex, n), n, true
	}
	if tk.typ == "list" {
		ev("llen=lrange-windows", true)
		total := int64(0)
		for from := int64(0); from < n+bigLimit; from += bigLimit {
			es, ok := asList(r.rd("lrange", t, k, strconv.FormatInt(from, 10), strconv.FormatInt(from+bigLimit-1, 10)))
			if !ok {
				return bad("enumeration-reply", "LRANGE window at %d did not answer an array", from), n, true
			}
			total += int64(len(es))
			if len(es) == 0 {
				break
			}
		}
		if total != n {
			return bad("llen-vs-lrange", "LLEN=%d but the LRANGE windows hold %d", n, total), n, true
		}
		return nil, n, true
	}
	stride := 2
	if tk.typ == "set" {
		stride = 1
	}
	which := tk.typ[:1] + "scan-total"
	ev(which, true)
	tot, msg := r.scanAll(tk.typ[:1]+"scan", t, k, stride)
	if msg != "" {
		return bad(which, "scan chain: %s", msg), n, true
	}
	if int64(tot) != n {
		return bad(which, "the scan chain returns %d elements in total but the size is %d", tot, n), n, true
	}
	return nil, n, true
}
