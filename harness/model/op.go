// Package model is the executable Redis reference model, the adversarial
// command generator and the checks C08 (commands behave like Redis on the
// per-type keyspaces), C09 (counting commands agree with enumerating
// commands) and C10 (expired data is dead, unexpired data is never removed).
// It drives the REAL state machine through verif/harness/smlab.
package model

import (
	"fmt"
	"strconv"
	"strings"

	"verif/harness/smlab"
)

// Op is one generated command. T/K are table and key of the first key
// argument; A are the remaining arguments as a client would send them (for
// del/exists/mget: further keys of the same table; for mset: v k2 v2 ...).
// Ts is the log timestamp (ns) of the raft entry that carries a write; reads
// carry 0 (they are evaluated on the node's wall clock).
type Op struct {
	Name string
	T, K string
	A    []string
	Ts   int64
	// Ctl is a harness action, not a redis command: "compact", "ttlcheck".
	Ctl string
}

func (o Op) IsCtl() bool { return o.Ctl != "" }

// String renders the op as one parseable line: name table key args... [@ts].
// Every argument is Go-quoted, so binary bytes survive JSON witnesses.
func (o Op) String() string {
	var sb strings.Builder
	if o.Ctl != "" {
		sb.WriteString("!" + o.Ctl)
		if o.Ts != 0 {
			fmt.Fprintf(&sb, " @%d", o.Ts)
		}
		return sb.String()
	}
	sb.WriteString(o.Name)
	sb.WriteByte(' ')
	sb.WriteString(strconv.Quote(o.T))
	sb.WriteByte(' ')
	sb.WriteString(strconv.Quote(o.K))
	for _, a := range o.A {
		sb.WriteByte(' ')
		sb.WriteString(strconv.Quote(a))
	}
	if o.Ts != 0 {
		fmt.Fprintf(&sb, " @%d", o.Ts)
	}
	return sb.String()
}

// ParseOp is the inverse of Op.String.
func ParseOp(s string) (Op, error) {
	var o Op
	s = strings.TrimSpace(s)
	if strings.HasPrefix(s, "!") {
		f := strings.Fields(s[1:])
		if len(f) == 0 {
			return o, fmt.Errorf("empty ctl op")
		}
		o.Ctl = f[0]
		if len(f) > 1 && strings.HasPrefix(f[1], "@") {
			ts, err := strconv.ParseInt(f[1][1:], 10, 64)
			if err != nil {
				return o, err
			}
			o.Ts = ts
		}
		return o, nil
	}
	i := strings.IndexByte(s, ' ')
	if i < 0 {
		return o, fmt.Errorf("op %q: no arguments", s)
	}
	o.Name = s[:i]
	rest := s[i+1:]
	var toks []string
	for {
		rest = strings.TrimLeft(rest, " ")
		if rest == "" {
			break
		}
		if rest[0] == '@' {
			ts, err := strconv.ParseInt(strings.TrimSpace(rest[1:]), 10, 64)
			if err != nil {
				return o, fmt.Errorf("op %q: bad timestamp: %v", s, err)
			}
			o.Ts = ts
			break
		}
		q, err := strconv.QuotedPrefix(rest)
		if err != nil {
			return o, fmt.Errorf("op %q: %v", s, err)
		}
		u, err := strconv.Unquote(q)
		if err != nil {
			return o, fmt.Errorf("op %q: %v", s, err)
		}
		toks = append(toks, u)
		rest = rest[len(q):]
	}
	if len(toks) < 2 {
		return o, fmt.Errorf("op %q: need table and key", s)
	}
	o.T, o.K = toks[0], toks[1]
	o.A = toks[2:]
	return o, nil
}

// tk is the model's key: "table:key" (a table cannot contain ':', so the
// first ':' splits unambiguously; this is also what rockredis stores).
func (o Op) tk() string { return o.T + ":" + o.K }

// Keys returns all key arguments of a multi-key command (same table).
func (o Op) Keys() []string {
	switch o.Name {
	case "del", "exists", "mget":
		return append([]string{o.K}, o.A...)
	case "mset", "plset":
		ks := []string{o.K}
		for i := 1; i < len(o.A); i += 2 {
			ks = append(ks, o.A[i])
		}
		return ks
	}
	return []string{o.K}
}

// Cmd converts to the client-level command smlab wants (namespace "default").
func (o Op) Cmd() smlab.Cmd {
	switch o.Name {
	case "del", "exists", "mget":
		return smlab.CKeys(o.Name, o.T, o.Keys()...)
	case "mset", "plset":
		return smlab.CKVs(o.Name, o.T, append([]string{o.K}, o.A...)...)
	}
	return smlab.C(o.Name, o.T, o.K, o.A...)
}

// family of a command, for signatures and evidence.
func family(name string) string {
	switch name {
	case "get", "set", "setnx", "setex", "getset", "mget", "mset", "incr", "incrby", "append",
		"setrange", "getrange", "strlen", "exists", "del", "expire", "persist", "ttl", "getnolock", "plset":
		return "kv"
	}
	if name == "" {
		return "none"
	}
	switch name[0] {
	case 'h':
		return "hash"
	case 'l', 'r':
		return "list"
	case 's':
		return "set"
	case 'z':
		return "zset"
	}
	return "other"
}

// typeOf maps a command to the keyspace (data type) it works on.
func typeOf(name string) string { return family(name) }

var writeCmds = map[string]bool{
	// kv
	"set": true, "setnx": true, "setex": true, "getset": true, "mset": true, "plset": true, "incr": true, "incrby": true,
	"append": true, "setrange": true, "del": true, "expire": true, "persist": true,
	// hash
	"hset": true, "hsetnx": true, "hmset": true, "hdel": true, "hincrby": true, "hclear": true, "hexpire": true, "hpersist": true,
	// list
	"lpush": true, "rpush": true, "lpop": true, "rpop": true, "lset": true, "ltrim": true, "lclear": true, "lfixkey": true,
	"lexpire": true, "lpersist": true,
	// set
	"sadd": true, "srem": true, "spop": true, "sclear": true, "sexpire": true, "spersist": true,
	// zset
	"zadd": true, "zrem": true, "zincrby": true, "zremrangebyrank": true, "zremrangebyscore": true, "zremrangebylex": true,
	"zclear": true, "zfixkey": true, "zexpire": true, "zpersist": true,
	// internal whole-key removal commands (registered on the apply side only;
	// the consistency-deletion path proposes them): C09 size-boundary family
	"hmclear": true, "lmclear": true, "smclear": true, "zmclear": true,
}

func IsWrite(name string) bool { return writeCmds[name] }

// hasDupArg tells whether the command repeats a member / field / key argument
// (the input class of DESIGN.md 1.6 candidate #1).
func (o Op) hasDupArg() bool {
	var items []string
	switch o.Name {
	case "hmset":
		for i := 0; i+1 < len(o.A); i += 2 {
			items = append(items, o.A[i])
		}
	case "zadd":
		for i := 1; i < len(o.A); i += 2 {
			items = append(items, o.A[i])
		}
	case "hdel", "sadd", "srem", "zrem", "hmget":
		items = o.A
	case "del", "exists", "mget", "mset", "plset":
		items = o.Keys()
	default:
		return false
	}
	seen := map[string]bool{}
	for _, it := range items {
		if seen[it] {
			return true
		}
		seen[it] = true
	}
	return false
}
