package model

import "strconv"

func (m *Model) setW(tk string, ts int64) *setEnt {
	e := m.set[tk]
	if e == nil || m.expiredW(e.exp, ts) {
		return nil
	}
	return e
}

func (m *Model) setR(tk string) *setEnt {
	e := m.set[tk]
	if e == nil || m.expiredR(e.exp) {
		return nil
	}
	return e
}

func (m *Model) setDrop(tk string) {
	if old := m.set[tk]; old != nil {
		m.remember("set", tk, sortedKeys(old.m))
		delete(m.set, tk)
	}
}

func (m *Model) setForWrite(tk string, ts int64) *setEnt {
	if e := m.setW(tk, ts); e != nil {
		return e
	}
	m.setDrop(tk)
	e := &setEnt{m: map[string]struct{}{}}
	m.set[tk] = e
	m.noteGen("set", tk, ts)
	return e
}

func (m *Model) applySet(o Op) Exp {
	tk := o.tk()
	switch o.Name {
	case "sadd":
		if len(o.A) == 0 {
			return Exp{R: rErr("args")}
		}
		e := m.setForWrite(tk, o.Ts)
		n := int64(0)
		for _, x := range o.A {
			m.noteAdd("set", tk, x)
			if _, ok := e.m[x]; !ok {
				e.m[x] = struct{}{}
				n++
			}
		}
		return Exp{R: rInt(n)}
	case "srem":
		e := m.setW(tk, o.Ts)
		if e == nil {
			return Exp{R: rInt(0)}
		}
		n := int64(0)
		for _, x := range o.A {
			if _, ok := e.m[x]; ok {
				delete(e.m, x)
				n++
			}
		}
		if len(e.m) == 0 {
			m.setDrop(tk)
		}
		return Exp{R: rInt(n)}
	case "scard":
		if e := m.setR(tk); e != nil {
			return Exp{R: rInt(int64(len(e.m)))}
		}
		return Exp{R: rInt(0)}
	case "sismember":
		if e := m.setR(tk); e != nil {
			if _, ok := e.m[o.A[0]]; ok {
				return Exp{R: rInt(1)}
			}
		}
		return Exp{R: rInt(0)}
	case "smembers":
		var out []string
		if e := m.setR(tk); e != nil {
			if len(e.m) > maxBulkRead {
				m.dev("D16")
				return Exp{R: rErr("too much batch size")}
			}
			out = sortedKeys(e.m)
		}
		m.dev("D9")
		return Exp{R: rBulks(out), Unordered: true}
	case "spop":
		// D2: members leave in byte order
		m.dev("D2")
		cnt := 1
		if len(o.A) == 1 {
			c, err := strconv.Atoi(o.A[0])
			if err != nil || c < 1 {
				return Exp{R: rErr("Invalid count")}
			}
			cnt = c
		}
		var out []string
		if e := m.setW(tk, o.Ts); e != nil {
			ms := sortedKeys(e.m)
			if cnt < len(ms) {
				ms = ms[:cnt]
			}
			for _, x := range ms {
				delete(e.m, x)
			}
			out = ms
			if len(e.m) == 0 {
				m.setDrop(tk)
			}
		}
		if len(o.A) == 1 {
			return Exp{R: rBulks(out)}
		}
		if len(out) == 0 {
			return Exp{R: rNil()}
		}
		return Exp{R: rBulk(out[0])}
	case "srandmember":
		m.dev("D2")
		cnt := 1
		if len(o.A) > 1 {
			return Exp{R: rErr("args")}
		}
		if len(o.A) == 1 {
			c, err := strconv.Atoi(o.A[0])
			if err != nil || c < 1 {
				return Exp{R: rErr("Invalid count")}
			}
			cnt = c
		} else {
			m.dev("D3")
		}
		var out []string
		if e := m.setR(tk); e != nil {
			out = sortedKeys(e.m)
			if cnt < len(out) {
				out = out[:cnt]
			}
		}
		return Exp{R: rBulks(out)} // D3: array in both forms
	case "sclear":
		m.dev("D7")
		if e := m.setW(tk, o.Ts); e != nil {
			m.setDrop(tk)
			return Exp{R: rInt(1)}
		}
		return Exp{R: rInt(0)}
	case "skeyexist":
		m.dev("D7")
		if m.setR(tk) != nil {
			return Exp{R: rInt(1)}
		}
		return Exp{R: rInt(0)}
	case "sexpire":
		e := m.setW(tk, o.Ts)
		return m.expireCmd(o, "set", e != nil, func(w int64) { e.exp = w })
	case "spersist":
		e := m.setW(tk, o.Ts)
		cur := int64(0)
		if e != nil {
			cur = e.exp
		}
		return m.persistCmd(o, e != nil, cur, func() { e.exp = 0 })
	case "sttl":
		e := m.setR(tk)
		if e == nil {
			return m.ttlCmd(false, 0)
		}
		return m.ttlCmd(true, e.exp)
	}
	return Exp{Skip: "no model for " + o.Name}
}
