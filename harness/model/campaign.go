package model

import (
	"fmt"
	"os"
	"path/filepath"
	"sort"
	"strings"
	"sync"

	"verif/harness/smlab"
	"verif/harness/vc"
)

// stopOnFirst (env MODEL_STOP_ON_FIRST=1) ends a campaign after the first
// violation; used when validating seeded breaks, where only "does it fire"
// matters. Never set in registered runs.
var stopOnFirst = os.Getenv("MODEL_STOP_ON_FIRST") != ""

// stopBaseline: signatures (comma separated in MODEL_STOP_ON_FIRST) that fire on
// the unmodified tree too and therefore do not end a sensitivity run.
var stopBaseline = func() map[string]bool {
	m := map[string]bool{}
	for _, s := range strings.Split(os.Getenv("MODEL_STOP_ON_FIRST"), ",") {
		m[strings.TrimSpace(s)] = true
	}
	return m
}()

type storeCfg struct{ Engine, Policy string }

// the four stores every property is checked on (never rocksdb)
var storeCfgs = []storeCfg{
	{"mem", PolicyCompact}, {"pebble", PolicyCompact}, {"mem", PolicyLocal}, {"pebble", PolicyLocal},
}

// caseSpec is one sequence to execute.
type caseSpec struct {
	Name     string
	Ops      []Op
	Store    storeCfg
	Batch    bool
	BaseWall int64
	// protocol path: target namespace and the table prefix of this sequence
	Proto       *ProtoTarget
	TablePrefix string
}

type campaign struct {
	c     *vc.Ctx
	check string
	base  RunCfg // oracle flags (C08/C09/C10)
	mu    sync.Mutex
	stats *Stats
	// per signature: number of failing sequences; the first one is shrunk and reported
	bySig     map[string]int
	byStore   map[string]int64
	nontriv   func(spec caseSpec, info SeqInfo, st *Stats) []string
	shrinkMax int
}

func newCampaign(c *vc.Ctx, check string, base RunCfg) *campaign {
	return &campaign{c: c, check: check, base: base, stats: NewStats(), bySig: map[string]int{}, byStore: map[string]int64{}, shrinkMax: 400}
}

// newSig: has a signature outside the baseline list fired?
func (cp *campaign) newSig() bool {
	cp.mu.Lock()
	defer cp.mu.Unlock()
	for s := range cp.bySig {
		if !stopBaseline[s] {
			return true
		}
	}
	return false
}

func (cp *campaign) dir(i int) string {
	return filepath.Join(cp.c.Scratch, fmt.Sprintf("s%d", i))
}

func (cp *campaign) cfgFor(spec caseSpec, dir string, st *Stats) RunCfg {
	cfg := cp.base
	cfg.Engine, cfg.Policy, cfg.Dir, cfg.Batch, cfg.Stats = spec.Store.Engine, spec.Store.Policy, dir, spec.Batch, st
	cfg.Proto = spec.Proto
	return cfg
}

// run executes n cases in parallel.
func (cp *campaign) run(n int, gen func(i int) caseSpec) {
	cp.c.ParallelFor(n, func(i int) {
		if stopOnFirst && cp.newSig() {
			return // sensitivity runs only (MODEL_STOP_ON_FIRST=1): the verdict is already "violated"
		}
		spec := gen(i)
		if len(spec.Ops) == 0 {
			return
		}
		cp.one(i, spec)
	})
}

func (cp *campaign) one(i int, spec caseSpec) {
	st := NewStats()
	dir := cp.dir(i)
	f, info, err := RunSeq(cp.cfgFor(spec, dir, st), spec.Ops)
	if err != nil {
		cp.c.Inconclusive(fmt.Sprintf("case %s: %v", spec.Name, err))
		return
	}
	cp.c.Ev.Eval()
	var fps []string
	if cp.nontriv != nil {
		fps = cp.nontriv(spec, info, st)
	}
	for _, fp := range fps {
		cp.c.Ev.Nontrivial(fp)
	}
	cp.mu.Lock()
	cp.stats.Merge(st)
	cp.byStore[spec.Store.Engine+"/"+spec.Store.Policy]++
	first := false
	if f != nil {
		cp.stats.Tainted++
		cp.bySig[f.Sig]++
		first = cp.bySig[f.Sig] == 1
	}
	cp.mu.Unlock()
	if f == nil {
		if len(spec.Ops) > 0 && len(spec.Ops[0].A) > 64 {
			return // size-boundary case: too long for a literal sample
		}
		cp.c.Ev.Sample(4, map[string]interface{}{"case": spec.Name, "store": spec.Store.Engine + "/" + spec.Store.Policy, "ops": opsStrings(head(spec.Ops, 12))})
		return
	}
	if !first {
		return
	}
	// shrink: same store, same oracle flags, fresh directory per attempt
	attempt := 0
	run := func(cand []Op) *Failure {
		attempt++
		if spec.Proto != nil {
			// shared server: every attempt gets fresh tables
			cand = retable(untable(cand, spec.TablePrefix), fmt.Sprintf("%ss%d", spec.TablePrefix, attempt))
		}
		ff, _, err := RunSeq(cp.cfgFor(spec, fmt.Sprintf("%s-shrink%d", dir, attempt), NewStats()), cand)
		if err != nil {
			return nil
		}
		return ff
	}
	small, sf := shrink(spec.Ops, f.Sig, run, cp.shrinkMax)
	if sf == nil {
		// not reproducible on a fresh store with the same signature: report the original
		small, sf = spec.Ops, f
	}
	if spec.Proto != nil {
		small = untable(small, spec.TablePrefix)
	}
	w := Witness{Check: cp.check, Engine: spec.Store.Engine, Policy: spec.Store.Policy, Batch: spec.Batch, Proto: spec.Proto != nil, Signature: sf.Sig,
		FailingOp: sf.OpStr, FailAt: sf.At, Detail: sf.Detail, Ops: opsStrings(small), OrigLen: len(spec.Ops), Case: spec.Name, BaseWall: spec.BaseWall}
	summary := fmt.Sprintf("%s on %s/%s: %s  [witness: %d commands, shrunk from %d]", sf.Sig, spec.Store.Engine, spec.Store.Policy, sf.Detail, len(small), len(spec.Ops))
	if os.Getenv("MODEL_VERBOSE") != "" {
		fmt.Printf("WITNESS %s on %s/%s: %s\n", sf.Sig, spec.Store.Engine, spec.Store.Policy, sf.Detail)
		for _, o := range small {
			fmt.Printf("    %s\n", o.String())
		}
	}
	cp.c.Violation(sf.Sig, summary, w)
}

func head(ops []Op, n int) []Op {
	if len(ops) > n {
		return ops[:n]
	}
	return ops
}

// finish writes the common evidence keys.
func (cp *campaign) finish() {
	ev := cp.c.Ev
	st := cp.stats
	ev.Set("sequences", st.Seqs)
	ev.Set("commands_by_family", st.Cmds)
	ev.Set("commands_by_name", st.ByCmd)
	var total int64
	for _, v := range st.Cmds {
		total += v
	}
	ev.Set("commands_total", total)
	ev.Set("implementation_error_replies", st.ErrReplies)
	ev.Set("model_error_expectations", st.ModelErr)
	ev.Set("model_deviations_exercised", st.Dev)
	ev.Set("max_collection_size", st.MaxSize)
	ev.Set("sequences_by_store", cp.byStore)
	ev.Set("state_check_reads", st.StateChecks)
	ev.Set("tainted_sequences_stopped_at_first_failure", st.Tainted)
	sigs := map[string]int{}
	for k, v := range cp.bySig {
		sigs[k] = v
	}
	ev.Set("failing_sequences_by_signature", sigs)
	if len(st.Skipped) > 0 {
		ev.Set("replies_not_judged", st.Skipped)
	}
	keys := make([]string, 0, len(cp.bySig))
	for k := range cp.bySig {
		keys = append(keys, k)
	}
	sort.Strings(keys)
	for _, k := range keys {
		fmt.Printf("  %s: signature %s in %d sequences\n", cp.check, k, cp.bySig[k])
	}
}

// replay re-runs the command list of a witness file.
func replayWitness(c *vc.Ctx, base RunCfg, shift func(w *Witness, ops []Op) []Op) error {
	w, err := loadWitness(c.Replay)
	if err != nil {
		return err
	}
	ops, err := parseOps(w.Ops)
	if err != nil {
		return err
	}
	if shift != nil {
		ops = shift(w, ops)
	}
	smlab.QuietLogs(c.Scratch)
	cfg := base
	cfg.Engine, cfg.Policy, cfg.Batch = w.Engine, w.Policy, w.Batch
	if w.Proto {
		targets, err := protoTargets(c)
		if err != nil {
			return err
		}
		for i := range targets {
			if targets[i].Engine == w.Engine && targets[i].Policy == w.Policy {
				cfg.Proto = &targets[i]
			}
		}
		ops = retable(ops, "replay")
	}
	cfg.Dir = filepath.Join(c.Scratch, "replay")
	cfg.Stats = NewStats()
	f, _, err := RunSeq(cfg, ops)
	if err != nil {
		return err
	}
	c.Ev.Eval()
	if f == nil {
		fmt.Printf("REPLAY property=%s: the witness (%d commands, %s/%s) no longer fails\n", c.ID, len(ops), w.Engine, w.Policy)
		return nil
	}
	fmt.Printf("REPLAY property=%s: reproduced %s\n", c.ID, f.String())
	nw := *w
	nw.Signature, nw.FailingOp, nw.FailAt, nw.Detail = f.Sig, f.OpStr, f.At, f.Detail
	c.Violation(f.Sig, "replay: "+f.String(), nw)
	return nil
}
