package model

import (
	"fmt"

	"verif/harness/smlab"
	"verif/harness/vc"
)

func init() {
	vc.Register("C08", "exploration", runC08)
}

// fixed log-time origin of the C08/C09 sequences (no expiry commands in them,
// so only its determinism matters): 2023-11-14T22:13:20Z
const c08BaseTs = int64(1700000000) * 1e9

// randomSeq generates random sequence number i of the run.
func randomSeq(c *vc.Ctx, stream int64, i int, expiry bool) []Op {
	r := c.Rand(stream*1000003 + int64(i))
	g := NewGen(r, nil, c08BaseTs)
	g.expiry = expiry
	n := 20 + r.Intn(181)
	ops := make([]Op, 0, n)
	for len(ops) < n {
		ops = append(ops, g.Next())
	}
	return ops
}

func runC08(c *vc.Ctx) error {
	base := RunCfg{C08: true}
	if c.Replay != "" {
		return replayWitness(c, base, nil)
	}
	smlab.QuietLogs(c.Scratch)
	cp := newCampaign(c, "C08", base)
	cp.nontriv = func(spec caseSpec, info SeqInfo, st *Stats) []string {
		if info.ReachedNonEmpty && info.HadRemoval {
			return []string{fingerprint(spec.Ops)}
		}
		return nil
	}
	nRandom := c.Pick(2000, 150000)
	cp.run(nRandom, func(i int) caseSpec {
		return caseSpec{Name: fmt.Sprintf("random-%d", i), Ops: randomSeq(c, 8, i, false), Store: storeCfgs[i%len(storeCfgs)]}
	})
	// exhaustive short sequences over the tiny alphabet
	exh := exhaustiveSpace()
	total := exh.count()
	var picked []int
	if c.Thorough() {
		picked = nil // all
	} else {
		r := c.Rand(81)
		n := 6000
		picked = make([]int, n)
		for i := range picked {
			picked[i] = r.Intn(total)
		}
	}
	nExh := total
	if picked != nil {
		nExh = len(picked)
	}
	stores := storeCfgs
	rounds := 1
	if c.Thorough() {
		rounds = len(stores) // the whole space on each of the four stores
	}
	for round := 0; round < rounds; round++ {
		round := round
		cp.run(nExh, func(i int) caseSpec {
			idx := i
			if picked != nil {
				idx = picked[i]
			}
			st := stores[(i+round)%len(stores)]
			if c.Thorough() {
				st = stores[round]
			}
			return caseSpec{Name: fmt.Sprintf("exhaustive-%d", idx), Ops: exh.seq(idx), Store: st}
		})
	}
	// protocol path: a fixed sample of sequences over TCP against real servers
	nProto := c.Pick(300, 5000)
	if err := runProtoSample(c, cp, nProto); err != nil {
		return err
	}
	// directed size-boundary family (sizeb.go), model-compared
	sb := sizebSpecs(true)
	cp.run(len(sb), func(i int) caseSpec { return sb[i] })
	cp.finish()
	ev := c.Ev
	ev.Set("size_boundary_cases_executed", len(sb))
	ev.Set("protocol_path_sequences", nProto)
	ev.Rule = "cases: (a) random command sequences of length 20-200 over tiny adversarial pools (1-3 families, 1-2 of the tables t,t1,tt, 1-3 of 7 keys incl. ':' and binary bytes, 2-4 of 10 members incl. empty and binary, duplicate arguments inside one command with probability 1/3), sequence i drawn from PRNG(seed,i), store = (mem|pebble x wait_compact|local_deletion) by i mod 4; (b) sequences of length 1..3 over a per-type alphabet on 2 keys x 2 members (exhaustive in the thorough tier on every store, a seeded sample in the quick tier). Every write goes through the real state machine as its own raft entry, every reply and, after every command, the visible state of the keys it names are compared with the reference model; at the end every key ever named and every key found in the engine; (c) a sample of generated sequences (one third of the commands drawn from the write commands with leader-side logic: SETNX, multi-key DEL/EXISTS, INCRBY, HDEL, LPOP/RPOP, LTRIM, SADD/SREM/SPOP, ZREM) over the redis protocol against real servers, compared with the same model; (d) a directed size-boundary family (collections of 4999/5000/5001 elements removed as a whole and re-created). distinct_nontrivial = number of distinct command lists (timestamps ignored) that reached a non-empty key/collection AND in which a removal or overwrite command (del, getset, set, append, hdel, hclear, lpop, ltrim, srem, spop, zrem, zremrange*, zadd on existing ...) succeeded afterwards."
	ev.Set("exhaustive_short", c.Thorough())
	ev.Set("exhaustive_space_size", total)
	ev.Set("exhaustive_sequences_run", nExh*rounds)
	ev.Set("random_sequences", nRandom)
	ev.Set("coverage_gaps", coverageGaps())
	ev.Assume("engines mem and pebble only (the RocksDB fork is not available: DESIGN.md section 4)")
	ev.Assume("fast path: log entries are applied directly to the state machine (smlab), so leader-side argument validation and node-local pre-checks are not executed there; the generator emits only commands that pass the leader's syntax checks (model.go D11). Protocol path: a seed-determined sample of sequences (input classes with known deviations left out) runs over TCP against real single-replica servers (mem and pebble, local_deletion and wait_compact namespaces, one partition each); signatures proto/...")
	ev.Assume("integer strings that Go's ParseInt accepts but Redis rejects ('+1', '01', '-0') are not in the value pools; collection keys with an empty key part are not generated (D10)")
	return nil
}

// coverageGaps lists registered data commands of the five families that have
// no model (node/node_cmd_reg.go), and documented commands without handler.
func coverageGaps() []string {
	return []string{
		"decr, decrby: documented in doc/user-guide.md (KV table) but no handler is registered in node/node_cmd_reg.go (client gets 'unknown command'); rockredis.Decr/DecrBy exist but are unreachable",
		"mset: modelled at apply level only; no client write handler is registered (node_cmd_reg.go:263 commented out)",
		"setifeq, delifeq, plset, getnolock, stale.get/getversion/getexpired: registered KV-family extensions, no model",
		"setbit/setbitv2/getbit/bitcount/bitclear/bexpire/bttl/bpersist/bkeyexist: bitmap type (own keyspace, t_bitmap.go), no model",
		"pfadd/pfcount, json.*, geo*, hidx.*: other families, out of C08",
		"hmclear/lmclear/smclear/zmclear: internal commands of the consistency-deletion path, not client reachable",
		"ltrimfront/ltrimback: rockredis API only, no command registered",
		"hscan/sscan/zscan and the rev variants: used by C09 totals only; cursor semantics belong to C13",
		"stale.hget.version, stale.hgetall.expired, stale.hmget.expired: no model",
	}
}
