package model

import (
	"fmt"
	"os"
	"strings"
	"testing"
	"time"

	"verif/harness/smlab"
)

// TestTriage runs the commands of $MODEL_OPS (one Op.String() line each; a
// missing @ts on a write is filled with base+i seconds) on $MODEL_ENGINE /
// $MODEL_POLICY and prints implementation and model replies side by side,
// then the raw engine content. Development aid:
//
//	MODEL_OPS=$'zadd "t" "k" "1" "m"\nzrange "t" "k" "0" "-1"' go test -tags verif ./model/ -run TestTriage -v
func TestTriage(t *testing.T) {
	src := os.Getenv("MODEL_OPS")
	if src == "" {
		t.Skip("MODEL_OPS not set")
	}
	eng, pol := os.Getenv("MODEL_ENGINE"), os.Getenv("MODEL_POLICY")
	if eng == "" {
		eng = "mem"
	}
	dir := t.TempDir()
	smlab.QuietLogs(dir)
	lab, err := smlab.Open(smlab.Opts{Engine: eng, ExpirePolicy: pol, Dir: dir + "/db"})
	if err != nil {
		t.Fatal(err)
	}
	defer lab.Destroy()
	m := NewModel(pol)
	ts := c08BaseTs
	for i, line := range strings.Split(src, "\n") {
		if strings.TrimSpace(line) == "" {
			continue
		}
		o, err := ParseOp(line)
		if err != nil {
			t.Fatal(err)
		}
		var got Reply
		if IsWrite(o.Name) {
			if o.Ts == 0 {
				ts += 1e9
				o.Ts = ts
			}
			got = adaptWrite(o, lab.ApplyOne(o.Ts, o.Cmd()))
		} else {
			m.Wall = time.Now().Unix()
			got = lab.Read(o.Cmd())
		}
		exp := m.Apply(o)
		kind, _ := match(exp, got)
		fmt.Printf("%2d %-60s impl %-30s model %-30s %s %s\n", i, o.String(), got.Canon(), exp.R.Canon(), kind, exp.Class)
	}
	fmt.Println("--- raw engine content")
	for _, kv := range lab.RawDump() {
		fmt.Printf("  %s = %q\n", smlab.DescribeRawKey(kv.K), kv.V)
	}
}

// TestRunSeq runs $MODEL_OPS through RunSeq with the oracles of $MODEL_MODE
// (c08 | c09 | c09batch | c10) and prints the failure.
func TestRunSeq(t *testing.T) {
	src := os.Getenv("MODEL_OPS")
	if src == "" {
		t.Skip("MODEL_OPS not set")
	}
	eng, pol := os.Getenv("MODEL_ENGINE"), os.Getenv("MODEL_POLICY")
	if eng == "" {
		eng = "mem"
	}
	dir := t.TempDir()
	smlab.QuietLogs(dir)
	var ops []Op
	ts := c08BaseTs
	for _, line := range strings.Split(src, "\n") {
		if strings.TrimSpace(line) == "" {
			continue
		}
		o, err := ParseOp(line)
		if err != nil {
			t.Fatal(err)
		}
		if IsWrite(o.Name) && o.Ts == 0 {
			ts += 1e9
			o.Ts = ts
		}
		ops = append(ops, o)
	}
	cfg := RunCfg{Engine: eng, Policy: pol, Dir: dir + "/db", Stats: NewStats()}
	switch os.Getenv("MODEL_MODE") {
	case "c09":
		cfg.C09 = true
	case "c09batch":
		cfg.C09, cfg.Batch = true, true
	case "c10":
		cfg.C10 = true
	default:
		cfg.C08 = true
	}
	f, info, err := RunSeq(cfg, ops)
	if err != nil {
		t.Fatal(err)
	}
	fmt.Printf("info %+v\n", info)
	if f == nil {
		fmt.Println("no failure")
	} else {
		fmt.Println("FAILURE", f.String())
	}
}
