package model

import "strconv"

func (m *Model) hashW(tk string, ts int64) *hashEnt {
	e := m.hash[tk]
	if e == nil || m.expiredW(e.exp, ts) {
		return nil
	}
	return e
}

func (m *Model) hashR(tk string) *hashEnt {
	e := m.hash[tk]
	if e == nil || m.expiredR(e.exp) {
		return nil
	}
	return e
}

// hashForWrite returns the live hash or creates a fresh generation (an expired
// or missing predecessor is forgotten: its fields must never show again).
func (m *Model) hashForWrite(tk string, ts int64) *hashEnt {
	if e := m.hashW(tk, ts); e != nil {
		return e
	}
	m.hashDrop(tk)
	e := &hashEnt{f: map[string]string{}}
	m.hash[tk] = e
	m.noteGen("hash", tk, ts)
	return e
}

func (m *Model) hashDrop(tk string) {
	if old := m.hash[tk]; old != nil {
		m.remember("hash", tk, sortedKeys(old.f))
		delete(m.hash, tk)
	}
}

func (m *Model) applyHash(o Op) Exp {
	tk := o.tk()
	switch o.Name {
	case "hset", "hsetnx":
		e := m.hashForWrite(tk, o.Ts)
		_, had := e.f[o.A[0]]
		if had && o.Name == "hsetnx" {
			return Exp{R: rInt(0)}
		}
		e.f[o.A[0]] = o.A[1]
		m.noteAdd("hash", tk, o.A[0])
		if had {
			return Exp{R: rInt(0)}
		}
		return Exp{R: rInt(1)}
	case "hmset":
		if len(o.A) < 2 || len(o.A)%2 != 0 {
			return Exp{R: rErr("args")}
		}
		e := m.hashForWrite(tk, o.Ts)
		for i := 0; i < len(o.A); i += 2 {
			e.f[o.A[i]] = o.A[i+1]
			m.noteAdd("hash", tk, o.A[i])
		}
		return Exp{R: rOK()}
	case "hget":
		if e := m.hashR(tk); e != nil {
			if v, ok := e.f[o.A[0]]; ok {
				return Exp{R: rBulk(v)}
			}
		}
		return Exp{R: rNil()}
	case "hmget":
		e := m.hashR(tk)
		var out []Reply
		for _, f := range o.A {
			if e != nil {
				if v, ok := e.f[f]; ok {
					out = append(out, rBulk(v))
					continue
				}
			}
			out = append(out, rNil())
		}
		return Exp{R: rArr(out...)}
	case "hdel":
		e := m.hashW(tk, o.Ts)
		if e == nil {
			return Exp{R: rInt(0)}
		}
		n := int64(0)
		for _, f := range o.A {
			if _, ok := e.f[f]; ok {
				delete(e.f, f)
				n++
			}
		}
		if len(e.f) == 0 {
			m.hashDrop(tk)
		}
		return Exp{R: rInt(n)}
	case "hlen":
		if e := m.hashR(tk); e != nil {
			return Exp{R: rInt(int64(len(e.f)))}
		}
		return Exp{R: rInt(0)}
	case "hexists":
		if e := m.hashR(tk); e != nil {
			if _, ok := e.f[o.A[0]]; ok {
				return Exp{R: rInt(1)}
			}
		}
		return Exp{R: rInt(0)}
	case "hgetall", "hkeys", "hvals":
		e := m.hashR(tk)
		if e != nil && len(e.f) > maxBulkRead {
			m.dev("D16")
			return Exp{R: rErr("too much batch size")}
		}
		var out []string
		if e != nil {
			for _, f := range sortedKeys(e.f) {
				switch o.Name {
				case "hgetall":
					out = append(out, f, e.f[f])
				case "hkeys":
					out = append(out, f)
				case "hvals":
					out = append(out, e.f[f])
				}
			}
		}
		m.dev("D9")
		return Exp{R: rBulks(out), Unordered: true, Pairs: o.Name == "hgetall"}
	case "hincrby":
		delta, ok := parseInt(o.A[1])
		if !ok {
			return Exp{R: rErr("value is not an integer or out of range")}
		}
		// validate against the live value first: an error must not create the key
		cur := int64(0)
		if e := m.hashW(tk, o.Ts); e != nil {
			if v, has := e.f[o.A[0]]; has {
				n, ok := redisInt(v)
				if !ok {
					cls := ""
					if _, lenient := parseInt(v); lenient {
						cls = "lenient-int"
					}
					return Exp{R: rErr("hash value is not an integer"), Class: cls}
				}
				cur = n
			}
		}
		if addOverflows(cur, delta) {
			return Exp{R: rErr("increment or decrement would overflow"), Class: "int-overflow"}
		}
		e := m.hashForWrite(tk, o.Ts)
		cur += delta
		e.f[o.A[0]] = strconv.FormatInt(cur, 10)
		m.noteAdd("hash", tk, o.A[0])
		return Exp{R: rInt(cur)}
	case "hclear":
		m.dev("D7")
		if e := m.hashW(tk, o.Ts); e != nil {
			m.hashDrop(tk)
			return Exp{R: rInt(1)}
		}
		return Exp{R: rInt(0)}
	case "hkeyexist":
		m.dev("D7")
		if m.hashR(tk) != nil {
			return Exp{R: rInt(1)}
		}
		return Exp{R: rInt(0)}
	case "hexpire":
		e := m.hashW(tk, o.Ts)
		return m.expireCmd(o, "hash", e != nil, func(w int64) { e.exp = w })
	case "hpersist":
		e := m.hashW(tk, o.Ts)
		cur := int64(0)
		if e != nil {
			cur = e.exp
		}
		return m.persistCmd(o, e != nil, cur, func() { e.exp = 0 })
	case "httl":
		e := m.hashR(tk)
		if e == nil {
			return m.ttlCmd(false, 0)
		}
		return m.ttlCmd(true, e.exp)
	}
	return Exp{Skip: "no model for " + o.Name}
}
