package model

import (
	"crypto/sha1"
	"encoding/hex"
	"encoding/json"
	"fmt"
	"io/ioutil"
	"path/filepath"
)

// Witness is what a violation writes to the replay file.
type Witness struct {
	Check     string   `json:"check"`
	Engine    string   `json:"engine"`
	Policy    string   `json:"policy"`
	Batch     bool     `json:"one_apply_batch,omitempty"`
	Proto     bool     `json:"protocol_path,omitempty"`
	Signature string   `json:"signature"`
	FailingOp string   `json:"failing_op"`
	FailAt    int      `json:"failing_index"`
	Detail    string   `json:"detail"`
	Ops       []string `json:"ops"`
	OrigLen   int      `json:"original_length"`
	Case      string   `json:"case,omitempty"`
	// BaseWall: unix seconds of the wall clock the C10 timestamps were laid out
	// around; a replay shifts all log timestamps by (now - BaseWall).
	BaseWall int64 `json:"base_wall,omitempty"`
}

func opsStrings(ops []Op) []string {
	out := make([]string, len(ops))
	for i, o := range ops {
		out[i] = o.String()
	}
	return out
}

func fingerprint(ops []Op) string {
	h := sha1.New()
	for _, o := range ops {
		// timestamps are not part of the identity of a command sequence
		oo := o
		oo.Ts = 0
		h.Write([]byte(oo.String()))
		h.Write([]byte{'\n'})
	}
	return hex.EncodeToString(h.Sum(nil))[:16]
}

// shrink is delta debugging on the command list: drop chunks (halving the
// chunk size down to single commands) while a failure with the SAME signature
// persists. run must execute the candidate on a fresh store.
func shrink(ops []Op, sig string, run func([]Op) *Failure, budget int) ([]Op, *Failure) {
	best := ops
	var bestF *Failure
	// cut everything after the failing command first
	if f := run(best); f != nil && f.Sig == sig {
		bestF = f
		if f.At+1 < len(best) {
			best = best[:f.At+1]
		}
	} else {
		return ops, f
	}
	chunk := len(best) / 2
	if chunk < 1 {
		chunk = 1
	}
	for budget > 0 {
		changed := false
		for start := 0; start < len(best) && budget > 0; {
			end := start + chunk
			if end > len(best) {
				end = len(best)
			}
			cand := append(append([]Op{}, best[:start]...), best[end:]...)
			if len(cand) == 0 {
				start = end
				continue
			}
			budget--
			if f := run(cand); f != nil && f.Sig == sig {
				best = cand
				if f.At+1 < len(best) {
					best = best[:f.At+1]
				}
				bestF = f
				changed = true
				// retry at the same position
			} else {
				start = end
			}
		}
		if chunk == 1 {
			if !changed {
				break
			}
			continue
		}
		chunk /= 2
	}
	return best, bestF
}

// loadWitness reads a replay file written by vc.Violation.
func loadWitness(path string) (*Witness, error) {
	b, err := ioutil.ReadFile(path)
	if err != nil {
		return nil, err
	}
	var doc struct {
		Witness Witness `json:"witness"`
	}
	if err := json.Unmarshal(b, &doc); err != nil {
		return nil, err
	}
	if len(doc.Witness.Ops) == 0 {
		return nil, fmt.Errorf("%s: no ops in witness", filepath.Base(path))
	}
	return &doc.Witness, nil
}

func parseOps(ss []string) ([]Op, error) {
	ops := make([]Op, 0, len(ss))
	for _, s := range ss {
		o, err := ParseOp(s)
		if err != nil {
			return nil, err
		}
		ops = append(ops, o)
	}
	return ops, nil
}
