package model
