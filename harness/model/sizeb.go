package model

import (
	"fmt"

	"github.com/youzan/ZanRedisDB/rockredis"
)

// Size-boundary family (directed, not random): collections of exactly N-1, N
// and N+1 elements for the size constant the removal code branches on
// (rockredis.RangeDeleteNum = 5000 = MAX_BATCH_NUM: element-wise delete vs
// DeleteRange in hDeleteAll, sDelete, zRemAll, lDelete, ltrim2), built with
// multi-argument commands, removed as a whole in every way the tree offers
// (*CLEAR, the internal *MCLEAR, ZREMRANGEBYRANK 0 -1, LTRIM of a boundary-sized
// head or tail, expiry + a pass of the local-deletion checker), then re-created
// with one element. C09 evaluates all identities and the structural walk after
// every command; C08 compares with the model.

const sizebChunk = 1000 // elements per building command (<= MAX_BATCH_NUM)

type sizebCase struct {
	name      string
	ops       []Op
	localOnly bool // needs the local-deletion checker
	modelFree bool // uses internal commands the model does not know (C09 only)
}

func elemName(i int) string { return fmt.Sprintf("e%05d", i) }

// buildOps creates a collection of n elements in chunks.
func buildOps(typ, t, k string, n int) []Op {
	var ops []Op
	for from := 0; from < n; from += sizebChunk {
		to := from + sizebChunk
		if to > n {
			to = n
		}
		var a []string
		for i := from; i < to; i++ {
			switch typ {
			case "hash":
				a = append(a, elemName(i), "v")
			case "zset":
				a = append(a, fmt.Sprint(i%7), elemName(i))
			default:
				a = append(a, elemName(i))
			}
		}
		name := map[string]string{"hash": "hmset", "set": "sadd", "zset": "zadd", "list": "rpush"}[typ]
		ops = append(ops, Op{Name: name, T: t, K: k, A: a})
	}
	return ops
}

func recreateOp(typ, t, k string) Op {
	switch typ {
	case "hash":
		return Op{Name: "hset", T: t, K: k, A: []string{"fresh", "1"}}
	case "set":
		return Op{Name: "sadd", T: t, K: k, A: []string{"fresh"}}
	case "zset":
		return Op{Name: "zadd", T: t, K: k, A: []string{"1", "fresh"}}
	}
	return Op{Name: "rpush", T: t, K: k, A: []string{"fresh"}}
}

func sizeBoundaryCases() []sizebCase {
	n0 := rockredis.RangeDeleteNum
	var out []sizebCase
	t, k := "t", "big"
	stamp := func(ops []Op) []Op {
		ts := c08BaseTs
		for i := range ops {
			if ops[i].IsCtl() || IsWrite(ops[i].Name) {
				ts += 1e9
				ops[i].Ts = ts
			}
		}
		return ops
	}
	for _, typ := range []string{"hash", "set", "zset", "list"} {
		p := typ[:1]
		for _, n := range []int{n0 - 1, n0, n0 + 1} {
			add := func(variant string, removal []Op, localOnly, modelFree bool) {
				ops := buildOps(typ, t, k, n)
				ops = append(ops, removal...)
				ops = append(ops, recreateOp(typ, t, k), recreateOp(typ, t, k))
				out = append(out, sizebCase{name: fmt.Sprintf("sizeb/%s/%s/%d", typ, variant, n), ops: stamp(ops), localOnly: localOnly, modelFree: modelFree})
			}
			add("clear", []Op{{Name: p + "clear", T: t, K: k}}, false, false)
			add("mclear", []Op{{Name: p + "mclear", T: t, K: k}}, false, true)
			add("expire+checker", []Op{{Name: p + "expire", T: t, K: k, A: []string{"5"}}, {Ctl: "ttlcheck"}}, true, true)
			if typ == "zset" {
				add("zremrangebyrank-all", []Op{{Name: "zremrangebyrank", T: t, K: k, A: []string{"0", "-1"}}}, false, false)
			}
		}
		if typ == "list" {
			// LTRIM removing a head / a tail of boundary size from a longer list
			for _, cut := range []int{n0 - 1, n0, n0 + 1} {
				total := cut + 3
				head := append(buildOps("list", t, k, total), Op{Name: "ltrim", T: t, K: k, A: []string{fmt.Sprint(cut), "-1"}},
					Op{Name: "rpush", T: t, K: k, A: []string{"fresh"}}, Op{Name: "lpop", T: t, K: k})
				out = append(out, sizebCase{name: fmt.Sprintf("sizeb/list/ltrim-head/%d", cut), ops: stamp(head)})
				tail := append(buildOps("list", t, k, total), Op{Name: "ltrim", T: t, K: k, A: []string{"0", fmt.Sprint(total - cut - 1)}},
					Op{Name: "rpush", T: t, K: k, A: []string{"fresh"}}, Op{Name: "rpop", T: t, K: k})
				out = append(out, sizebCase{name: fmt.Sprintf("sizeb/list/ltrim-tail/%d", cut), ops: stamp(tail)})
			}
		}
	}
	return out
}

// sizebSpecs expands the cases over the stores they apply to.
func sizebSpecs(forModel bool) []caseSpec {
	var specs []caseSpec
	for _, sc := range sizeBoundaryCases() {
		if forModel && sc.modelFree {
			continue
		}
		for _, st := range storeCfgs {
			if sc.localOnly && st.Policy != PolicyLocal {
				continue
			}
			specs = append(specs, caseSpec{Name: sc.name, Ops: sc.ops, Store: st})
		}
	}
	return specs
}
