package model

import (
	"math/rand"
	"os"
	"strconv"
)

// Adversarial pools. Tables: a table name cannot contain ':' (the first ':' of
// "table:key" ends the table: rockredis/t_table.go extractTableFromRedisKey),
// so "t:" is not a table; prefix-related names are what can interfere. Keys may
// contain ':' and any byte; the empty key part is legal for KV only (D10).
var (
	poolTables  = []string{"t", "t1", "tt"}
	poolKeys    = []string{"a", "a:", "a:b", "ab", "\x00", "\xff", "b"}
	poolMembers = []string{"a", "b", "", "a:", ":", "ab", "\x00", "\xff", "a\x00", "c"}
	poolValues  = []string{"0", "1", "-1", "x", "abc", "1.5", "\x00\xff", "12a", "7", "xy"}
	poolValRare = []string{"", "9223372036854775807", "-9223372036854775808", "9223372036854775806"}
	poolInts    = []string{"1", "-1", "0", "5", "-7", "2", "100"}
	poolIntRare = []string{"9223372036854775807", "-9223372036854775808", "abc", "1.5", ""}
	poolOffsets = []string{"0", "1", "3", "10", "2"}
	poolOffRare = []string{"-1", "8388608", "abc", "-9223372036854775808"}
	poolIndex   = []string{"0", "1", "-1", "2", "-2", "5", "-5", "100", "-100", "3"}
	poolScores  = []string{"0", "1", "1", "2", "-1", "1.5", "-0", "+inf", "-inf", "1e3", "3", "0.5", "-2.5", "1e-2"}
)

// devNoDup (env MODEL_NODUP=1, development only) suppresses repeated
// arguments inside one command, to look past the dup-arg findings.
var devNoDup = os.Getenv("MODEL_NODUP") != ""

// Gen produces one command sequence.
type Gen struct {
	r       *rand.Rand
	tables  []string
	keys    []string
	members []string
	fams    []string
	ts      int64
	// expiry enables EXPIRE/TTL/PERSIST-family commands (C10 sequences)
	expiry bool
	ttls   []string
	// tsStep chooses the next log timestamp; nil = default mix
	tsStep func(g *Gen) int64
	// benign (C10 sequences): stay out of the input classes with known
	// conformance deviations that are C08's business (empty APPEND/SETRANGE
	// value, negative offsets, int64 boundaries, LTRIM stop below the head,
	// increments that leave a score unchanged, fractional scores with exclusive
	// bounds, reversed negative GETRANGE).
	benign bool
	// exps: absolute expiry seconds produced so far by short TTLs (boundary targets)
	exps []int64
	// withTTL: per type, (table,key) pairs that an expiry command was aimed at
	withTTL map[string][][2]string
	// shadow: a model instance fed with every generated command, so that the
	// generator can aim commands at keys in a given state (C10 sequences)
	shadow *Model
}

func pick(r *rand.Rand, p []string) string { return p[r.Intn(len(p))] }

func subset(r *rand.Rand, p []string, n int) []string {
	if n >= len(p) {
		return append([]string{}, p...)
	}
	idx := r.Perm(len(p))[:n]
	out := make([]string, n)
	for i, j := range idx {
		out[i] = p[j]
	}
	return out
}

var allFams = []string{"kv", "hash", "list", "set", "zset"}

// NewGen builds the per-sequence pools: few keys and members so that commands
// collide, occasionally the whole pool.
func NewGen(r *rand.Rand, fams []string, baseTs int64) *Gen {
	g := &Gen{r: r, ts: baseTs}
	if len(fams) == 0 {
		// one to three families per sequence
		n := 1 + r.Intn(3)
		fams = subset(r, allFams, n)
	}
	g.fams = fams
	g.tables = subset(r, poolTables, 1+r.Intn(2))
	g.keys = subset(r, poolKeys, 1+r.Intn(3))
	g.members = subset(r, poolMembers, 2+r.Intn(3))
	if r.Intn(8) == 0 {
		g.tables, g.keys, g.members = poolTables, poolKeys, poolMembers
	}
	return g
}

func (g *Gen) tick() int64 {
	if g.tsStep != nil {
		g.ts = g.tsStep(g)
		return g.ts
	}
	switch g.r.Intn(10) {
	case 0:
		g.ts += 1 // next nanosecond
	case 1:
		// (entries with the SAME timestamp are C10's subject: the generation
		// number of a collection is the creating entry's timestamp)
		g.ts += 2
	case 2, 3:
		g.ts += 1e9 + int64(g.r.Intn(1e9))
	default:
		g.ts += int64(1+g.r.Intn(5000)) * 1e6
	}
	return g.ts
}

func (g *Gen) table() string  { return pick(g.r, g.tables) }
func (g *Gen) key() string    { return pick(g.r, g.keys) }
func (g *Gen) member() string { return pick(g.r, g.members) }

// value: mostly plain values; the empty string and the int64 boundary values
// are rare (5 %) so that the input classes with known deviations (empty
// APPEND/SETRANGE value, INCR overflow) do not end most sequences early.
func (g *Gen) value() string {
	if g.benign {
		return pick(g.r, []string{"0", "1", "-1", "x", "abc", "7", "xy", "12"})
	}
	switch n := g.r.Intn(60); {
	case n < 3:
		return pick(g.r, poolValRare)
	case n < 20:
		if m := pick(g.r, g.members); m != "" {
			return m
		}
		return "m"
	}
	return pick(g.r, poolValues)
}

func (g *Gen) intArg() string {
	if !g.benign && g.r.Intn(14) == 0 {
		return pick(g.r, poolIntRare)
	}
	return pick(g.r, poolInts)
}

func (g *Gen) offset() string {
	if !g.benign && g.r.Intn(16) == 0 {
		return pick(g.r, poolOffRare)
	}
	return pick(g.r, poolOffsets)
}

// members returns 1..n members, with a fair chance of a duplicate.
func (g *Gen) someMembers(max int) []string {
	n := 1 + g.r.Intn(max)
	out := make([]string, n)
	for i := range out {
		out[i] = g.member()
	}
	if n > 1 && g.r.Intn(3) == 0 {
		out[n-1] = out[g.r.Intn(n-1)]
	}
	if devNoDup {
		out = uniq(out)
	}
	return out
}

func uniq(in []string) []string {
	seen := map[string]bool{}
	var out []string
	for _, s := range in {
		if !seen[s] {
			seen[s] = true
			out = append(out, s)
		}
	}
	return out
}

// Next produces the next command of the sequence.
func (g *Gen) Next() Op {
	fam := pick(g.r, g.fams)
	var o Op
	switch fam {
	case "kv":
		o = g.genKV()
	case "hash":
		o = g.genHash()
	case "list":
		o = g.genList()
	case "set":
		o = g.genSet()
	case "zset":
		o = g.genZSet()
	}
	if IsWrite(o.Name) {
		o.Ts = g.tick()
		if g.shadow != nil {
			g.shadow.Apply(o)
		}
	}
	return o
}

func (g *Gen) op(name, k string, a ...string) Op {
	o := Op{Name: name, T: g.table(), K: k, A: a}
	switch name {
	case "expire", "hexpire", "lexpire", "sexpire", "zexpire", "setex":
		g.noteTTL(o)
	case "set":
		if len(a) > 1 {
			g.noteTTL(o)
		}
	}
	return o
}

// noteTTL remembers (type, table, key) triples that were given an expiry.
func (g *Gen) noteTTL(o Op) {
	if g.withTTL == nil {
		g.withTTL = map[string][][2]string{}
	}
	typ := typeOf(o.Name)
	g.withTTL[typ] = append(g.withTTL[typ], [2]string{o.T, o.K})
}

// persistOp: PERSIST on a key that has no expiry is the input class of a known
// conformance deviation (persist-without-ttl); almost always the
// command is aimed at a key that was given an expiry earlier in the sequence.
func (g *Gen) persistOp(name, k string) Op {
	typ := typeOf(name)
	if g.shadow != nil && g.r.Intn(100) != 0 {
		// exact: keys that carry an expiry and are alive at the current log time
		var c [][2]string
		for _, tk := range g.withTTL[typ] {
			if exp, _, ok := g.shadow.entry(typ, tk[0]+":"+tk[1]); ok && exp != 0 && !g.shadow.expiredW(exp, g.ts+1) {
				c = append(c, tk)
			}
		}
		if len(c) > 0 {
			tk := c[g.r.Intn(len(c))]
			return Op{Name: name, T: tk[0], K: tk[1]}
		}
	} else if c := g.withTTL[typ]; len(c) > 0 && g.r.Intn(10) != 0 {
		tk := c[g.r.Intn(len(c))]
		return Op{Name: name, T: tk[0], K: tk[1]}
	}
	if g.r.Intn(40) == 0 {
		return Op{Name: name, T: g.table(), K: k}
	}
	// no candidate: give the key an expiry instead
	exp := map[string]string{"kv": "expire", "hash": "hexpire", "list": "lexpire", "set": "sexpire", "zset": "zexpire"}[typ]
	return g.op(exp, k, g.ttl())
}

func (g *Gen) kvKey() string {
	if g.r.Intn(12) == 0 {
		return "" // empty key part: legal for KV
	}
	return g.key()
}

func (g *Gen) ttl() string {
	if len(g.ttls) > 0 {
		return pick(g.r, g.ttls)
	}
	return "100"
}

func (g *Gen) genKV() Op {
	k := g.kvKey()
	r := g.r
	if g.expiry && r.Intn(4) == 0 {
		switch r.Intn(6) {
		case 0, 1:
			return g.op("expire", k, g.ttl())
		case 2:
			return g.persistOp("persist", k)
		case 3:
			return g.op("ttl", k)
		case 4:
			return g.op("setex", k, g.ttl(), g.value())
		default:
			return g.op("set", k, g.value(), "ex", g.ttl())
		}
	}
	switch r.Intn(22) {
	case 0, 1:
		return g.op("set", k, g.value())
	case 2:
		switch r.Intn(4) {
		case 0:
			return g.op("set", k, g.value(), "nx")
		case 1:
			return g.op("set", k, g.value(), "xx")
		case 2:
			return g.op("set", k, g.value(), "ex", g.ttlOrFar(), "nx")
		default:
			return g.op("set", k, g.value(), "XX", "EX", g.ttlOrFar())
		}
	case 3:
		return g.op("setnx", k, g.value())
	case 4:
		if r.Intn(4) == 0 {
			return g.op("setex", k, pick(r, []string{"0", "-1", "abc", "1.5"}), g.value())
		}
		return g.op("setex", k, g.ttlOrFar(), g.value())
	case 5:
		return g.op("getset", k, g.value())
	case 6:
		return g.op("incr", k)
	case 7:
		return g.op("incrby", k, g.intArg())
	case 8, 9:
		if g.benign {
			// no digits: "0"+"7" = "07" is the lenient-int input class (C08's)
			return g.op("append", k, pick(r, []string{"x", "abc", "xy", "z"}))
		}
		return g.op("append", k, g.value())
	case 10, 11:
		if g.benign {
			return g.op("setrange", k, g.offset(), pick(r, []string{"x", "Q", "ab"}))
		}
		return g.op("setrange", k, g.offset(), g.value())
	case 12:
		if g.benign {
			return g.op("getrange", k, pick(r, []string{"0", "1", "2"}), pick(r, []string{"-1", "1", "5"}))
		}
		return g.op("getrange", k, pick(r, poolIndex), pick(r, poolIndex))
	case 13:
		return g.op("strlen", k)
	case 14:
		ks := g.manyKeys()
		return Op{Name: "del", T: g.table(), K: ks[0], A: ks[1:]}
	case 15:
		ks := g.manyKeys()
		return Op{Name: "exists", T: g.table(), K: ks[0], A: ks[1:]}
	case 16:
		ks := g.manyKeys()
		return Op{Name: "mget", T: g.table(), K: ks[0], A: ks[1:]}
	case 17:
		ks := g.manyKeys()
		var a []string
		for i, kk := range ks {
			if i > 0 {
				a = append(a, kk)
			}
			a = append(a, g.value())
		}
		return Op{Name: "mset", T: g.table(), K: ks[0], A: a}
	default:
		return g.op("get", k)
	}
}

// ttlOrFar: in sequences without expiry commands a TTL must never come near
// the log time or the wall clock: ten years.
func (g *Gen) ttlOrFar() string {
	if g.expiry {
		return g.ttl()
	}
	return "315360000"
}

func (g *Gen) manyKeys() []string {
	n := 1 + g.r.Intn(3)
	ks := make([]string, n)
	for i := range ks {
		ks[i] = g.kvKey()
	}
	if n > 1 && g.r.Intn(3) == 0 {
		ks[n-1] = ks[0]
	}
	if devNoDup {
		ks = uniq(ks)
	}
	return ks
}

func (g *Gen) genHash() Op {
	k := g.key()
	r := g.r
	if g.expiry && r.Intn(5) == 0 {
		switch r.Intn(4) {
		case 0, 1:
			return g.op("hexpire", k, g.ttl())
		case 2:
			return g.persistOp("hpersist", k)
		default:
			return g.op("httl", k)
		}
	}
	switch r.Intn(20) {
	case 0, 1, 2:
		return g.op("hset", k, g.member(), g.value())
	case 3:
		return g.op("hsetnx", k, g.member(), g.value())
	case 4, 5:
		fs := g.someMembers(3)
		var a []string
		for _, f := range fs {
			a = append(a, f, g.value())
		}
		return g.op("hmset", k, a...)
	case 6, 7, 8:
		return g.op("hdel", k, g.someMembers(3)...)
	case 9:
		return g.op("hincrby", k, g.member(), g.intArg())
	case 10:
		return g.op("hclear", k)
	case 11:
		return g.op("hget", k, g.member())
	case 12:
		return g.op("hmget", k, g.someMembers(3)...)
	case 13:
		return g.op("hlen", k)
	case 14:
		return g.op("hexists", k, g.member())
	case 15:
		return g.op("hgetall", k)
	case 16:
		return g.op("hkeys", k)
	case 17:
		return g.op("hvals", k)
	case 18:
		return g.op("hkeyexist", k)
	default:
		return g.op("hset", k, g.member(), strconv.Itoa(r.Intn(10)))
	}
}

func (g *Gen) someValues(max int) []string {
	n := 1 + g.r.Intn(max)
	out := make([]string, n)
	for i := range out {
		out[i] = g.value()
	}
	if n > 1 && g.r.Intn(3) == 0 {
		out[n-1] = out[0]
	}
	return out
}

func (g *Gen) index() string {
	if g.benign {
		return pick(g.r, []string{"0", "1", "-1", "2", "-2", "5"})
	}
	return pick(g.r, poolIndex)
}

func (g *Gen) genList() Op {
	k := g.key()
	r := g.r
	if g.expiry && r.Intn(5) == 0 {
		switch r.Intn(4) {
		case 0, 1:
			return g.op("lexpire", k, g.ttl())
		case 2:
			return g.persistOp("lpersist", k)
		default:
			return g.op("lttl", k)
		}
	}
	switch r.Intn(20) {
	case 0, 1, 2:
		return g.op("lpush", k, g.someValues(3)...)
	case 3, 4, 5:
		return g.op("rpush", k, g.someValues(3)...)
	case 6, 7:
		return g.op("lpop", k)
	case 8, 9:
		return g.op("rpop", k)
	case 10:
		return g.op("lset", k, g.index(), g.value())
	case 11, 12:
		if g.benign {
			return g.op("ltrim", k, pick(r, []string{"0", "1", "-1", "2"}), pick(r, []string{"-1", "0", "1", "5"}))
		}
		return g.op("ltrim", k, g.index(), g.index())
	case 13:
		return g.op("lclear", k)
	case 14:
		return g.op("llen", k)
	case 15:
		if r.Intn(10) == 0 {
			return g.op("lindex", k, "abc")
		}
		return g.op("lindex", k, g.index())
	case 16, 17:
		return g.op("lrange", k, g.index(), g.index())
	case 18:
		return g.op("lkeyexist", k)
	default:
		if r.Intn(4) == 0 {
			return g.op("lfixkey", k)
		}
		return g.op("lrange", k, "0", "-1")
	}
}

func (g *Gen) genSet() Op {
	k := g.key()
	r := g.r
	if g.expiry && r.Intn(5) == 0 {
		switch r.Intn(4) {
		case 0, 1:
			return g.op("sexpire", k, g.ttl())
		case 2:
			return g.persistOp("spersist", k)
		default:
			return g.op("sttl", k)
		}
	}
	switch r.Intn(20) {
	case 0, 1, 2, 3, 4:
		return g.op("sadd", k, g.someMembers(4)...)
	case 5, 6, 7, 8:
		return g.op("srem", k, g.someMembers(3)...)
	case 9:
		return g.op("spop", k)
	case 10:
		return g.op("spop", k, pick(r, []string{"1", "2", "3", "100"}))
	case 11:
		return g.op("sclear", k)
	case 12:
		return g.op("scard", k)
	case 13, 14:
		return g.op("sismember", k, g.member())
	case 15, 16:
		return g.op("smembers", k)
	case 17:
		return g.op("srandmember", k)
	case 18:
		return g.op("srandmember", k, pick(r, []string{"1", "2", "100", "0", "abc"}))
	default:
		return g.op("skeyexist", k)
	}
}

func (g *Gen) score() string {
	if g.benign {
		return pick(g.r, []string{"0", "1", "1", "2", "-1", "3", "10"})
	}
	return pick(g.r, poolScores)
}

var poolScoreBounds = []string{"-inf", "+inf", "0", "1", "(1", "2", "(2", "-1", "(0", "1.5", "(1.5", "3", "-2.5", "(-1", "1e3"}
var poolLexBounds = []string{"-", "+", "[a", "(a", "[b", "(b", "[", "(", "[ab", "(\xff", "[\x00", "[c"}

func (g *Gen) lexBound() string {
	for {
		b := pick(g.r, poolLexBounds)
		// benign (C10): the NUL lower bound is the mem engine's seek problem (C08/C20)
		if !g.benign || b != "[\x00" {
			return b
		}
	}
}

func (g *Gen) genZSet() Op {
	k := g.key()
	r := g.r
	if g.expiry && r.Intn(5) == 0 {
		switch r.Intn(4) {
		case 0, 1:
			return g.op("zexpire", k, g.ttl())
		case 2:
			return g.persistOp("zpersist", k)
		default:
			return g.op("zttl", k)
		}
	}
	limit := func(a []string) []string {
		if r.Intn(3) == 0 {
			a = append(a, "limit", pick(r, []string{"0", "1", "2", "-1", "5"}), pick(r, []string{"1", "2", "-1", "0", "10"}))
		}
		return a
	}
	switch r.Intn(30) {
	case 0, 1, 2, 3, 4:
		ms := g.someMembers(3)
		var a []string
		for _, m := range ms {
			a = append(a, g.score(), m)
		}
		return g.op("zadd", k, a...)
	case 5, 6, 7:
		return g.op("zrem", k, g.someMembers(3)...)
	case 8, 9:
		if g.benign {
			return g.op("zincrby", k, pick(r, []string{"1", "-1", "2", "5"}), g.member())
		}
		return g.op("zincrby", k, pick(r, []string{"1", "-1", "0", "0.5", "2", "+inf", "-inf", "1e3"}), g.member())
	case 10:
		return g.op("zremrangebyrank", k, g.index(), g.index())
	case 11:
		// D11: the leader refuses ranges getScoreRange does not accept
		for {
			lo, hi := pick(r, poolScoreBounds), pick(r, poolScoreBounds)
			if ScoreRangeAccepted(lo, hi) {
				return g.op("zremrangebyscore", k, lo, hi)
			}
		}
	case 12:
		for {
			lo, hi := g.lexBound(), g.lexBound()
			if LexRangeAccepted(lo, hi) {
				return g.op("zremrangebylex", k, lo, hi)
			}
		}
	case 13:
		return g.op("zclear", k)
	case 14:
		return g.op("zcard", k)
	case 15:
		return g.op("zscore", k, g.member())
	case 16, 17:
		a := []string{g.index(), g.index()}
		if r.Intn(2) == 0 {
			a = append(a, pick(r, []string{"withscores", "WITHSCORES"}))
		}
		return g.op(pick(r, []string{"zrange", "zrevrange"}), k, a...)
	case 18, 19, 20:
		a := []string{pick(r, poolScoreBounds), pick(r, poolScoreBounds)}
		if r.Intn(2) == 0 {
			a = append(a, "withscores")
		}
		return g.op(pick(r, []string{"zrangebyscore", "zrevrangebyscore"}), k, limit(a)...)
	case 21:
		return g.op("zcount", k, pick(r, poolScoreBounds), pick(r, poolScoreBounds))
	case 22, 23:
		return g.op("zrangebylex", k, limit([]string{g.lexBound(), g.lexBound()})...)
	case 24:
		return g.op("zlexcount", k, g.lexBound(), g.lexBound())
	case 25:
		return g.op("zrank", k, g.member())
	case 26:
		return g.op("zrevrank", k, g.member())
	case 27:
		return g.op("zkeyexist", k)
	case 28:
		if r.Intn(4) == 0 {
			return g.op("zfixkey", k)
		}
		return g.op("zrange", k, "0", "-1", "withscores")
	default:
		// equal scores, so that the lex commands are specified
		ms := g.someMembers(3)
		var a []string
		for _, m := range ms {
			a = append(a, "0", m)
		}
		return g.op("zadd", k, a...)
	}
}
