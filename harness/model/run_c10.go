package model

import (
	"fmt"
	"strings"
	"time"

	"github.com/youzan/ZanRedisDB/rockredis"
)

// entry returns the stored expiry and the current members of a model key (the
// entry may be expired on either clock; it exists until something rewrites it).
func (m *Model) entry(typ, tk string) (exp int64, members []string, ok bool) {
	switch typ {
	case "kv":
		if e := m.kv[tk]; e != nil {
			return e.exp, nil, true
		}
	case "hash":
		if e := m.hash[tk]; e != nil {
			return e.exp, sortedKeys(e.f), true
		}
	case "list":
		if e := m.list[tk]; e != nil {
			return e.exp, e.l, true
		}
	case "set":
		if e := m.set[tk]; e != nil {
			return e.exp, sortedKeys(e.m), true
		}
	case "zset":
		if e := m.zset[tk]; e != nil {
			return e.exp, sortedKeys(e.m), true
		}
	}
	return 0, nil, false
}

func dtOfType(typ string) byte {
	if typ == "kv" {
		return rockredis.KVType
	}
	return dtOf(typ)
}

// c10pre is what the runner notes about the keys of a write before applying it.
type c10pre struct {
	expired bool  // some key of the command had a model entry that is expired at the command's log timestamp
	alive   bool  // the (first) key had a live entry
	exp     int64 // its expiry
}

func (r *runner) c10Before(o Op) c10pre {
	var p c10pre
	typ := typeOf(o.Name)
	for i, k := range o.Keys() {
		exp, _, ok := r.m.entry(typ, o.T+":"+k)
		if !ok {
			continue
		}
		if r.m.expiredW(exp, o.Ts) {
			p.expired = true
		} else if i == 0 {
			p.alive, p.exp = true, exp
		}
		if exp != 0 && r.cfg.Policy != PolicyLocal {
			rel := "before"
			if sec := o.Ts / 1e9; sec == exp {
				rel = "at"
			} else if sec > exp {
				rel = "after"
			}
			r.st.C10Cells[typ+"/"+o.Name+"/"+rel]++
		} else if r.cfg.Policy == PolicyLocal && r.m.EarliestRec(typ, o.T+":"+k) != 0 {
			r.st.C10Cells[typ+"/"+o.Name+"/local-record"]++
		}
	}
	return p
}

var overwriteCmds = map[string]bool{"set": true, "setex": true, "getset": true, "mset": true, "setnx": true,
	"persist": true, "hpersist": true, "lpersist": true, "spersist": true, "zpersist": true}

var expireCmds = map[string]bool{"expire": true, "hexpire": true, "lexpire": true, "sexpire": true, "zexpire": true}

// genCollision: the command re-created a collection at exactly the log
// timestamp at which an earlier generation of it had been created. The stored
// generation number IS that timestamp, so the two generations share their
// element keys; every symptom of it (old members back, "should not override"
// list errors) gets one signature.
func (r *runner) genCollision(o Op) string {
	typ := typeOf(o.Name)
	if typ == "kv" || r.cfg.Policy == PolicyLocal {
		return ""
	}
	if r.m.GenCollision(typ, o.tk()) {
		return "predecessor-members-visible/" + typ + "/same-ns"
	}
	return ""
}

// classifyC10Reply signs a reply disagreement of command o.
func (r *runner) classifyC10Reply(at int, o Op, e Exp, g Reply) string {
	if !r.cfg.C10 {
		return ""
	}
	if s := r.genCollision(o); s != "" {
		return s
	}
	cmd := strings.ToUpper(o.Name)
	if e.TTL || strings.HasSuffix(o.Name, "ttl") {
		return "ttl-out-of-range"
	}
	if r.pre.expired && IsWrite(o.Name) {
		return "expired-content-visible/" + cmd
	}
	return ""
}

func replyMembers(typ string, g Reply) []string {
	if g.Kind != "array" {
		return nil
	}
	var out []string
	step := 1
	if typ == "hash" || typ == "zset" {
		step = 2
	}
	for i := 0; i < len(g.Arr); i += step {
		if g.Arr[i].Kind == "bulk" {
			out = append(out, string(g.Arr[i].Bulk))
		}
	}
	return out
}

func isAbsent(g Reply) bool {
	switch g.Kind {
	case "nil":
		return true
	case "array":
		return len(g.Arr) == 0
	case "int":
		return g.Int == 0
	}
	return false
}

// classifyC10 signs a state disagreement seen by read ro on key tk after the
// command (or harness action) at index at.
func (r *runner) classifyC10(at int, tk touchKey, ro Op, e Exp, g Reply) string {
	if !r.cfg.C10 {
		return ""
	}
	o := r.ops[at]
	if !o.IsCtl() {
		if s := r.genCollision(o); s != "" {
			return s
		}
	}
	// members of an earlier generation that the current one does not have
	if tk.typ != "kv" && g.Kind == "array" {
		cur := map[string]bool{}
		if ent := r.m.Apply(ro); ent.R.Kind == "array" {
			for _, x := range replyMembers(tk.typ, ent.R) {
				cur[x] = true
			}
		}
		prev := r.m.PrevMembers(tk.typ, tk.t+":"+tk.k)
		for _, x := range replyMembers(tk.typ, g) {
			if !cur[x] && prev[x] {
				return "predecessor-members-visible/" + tk.typ
			}
		}
	}
	modelPresent := !isAbsent(e.R)
	if o.IsCtl() {
		if modelPresent && (isAbsent(g) || g.Canon() != e.R.Canon()) {
			return "removed-before-expiry/" + r.cfg.Policy
		}
		return ""
	}
	if r.pre.expired && IsWrite(o.Name) {
		return "expired-content-visible/" + strings.ToUpper(o.Name)
	}
	return ""
}

// checkExpiry compares the expiry the store holds for the keys of a write with
// the model's (independent of any clock: value header / expire index).
func (r *runner) checkExpiry(at int, o Op) *Failure {
	typ := typeOf(o.Name)
	cmd := strings.ToUpper(o.Name)
	for _, k := range o.Keys() {
		tk := o.T + ":" + k
		implExp, found, err := r.lab.DB().VerifExpireAt(dtOfType(typ), []byte(tk))
		if err != nil {
			continue
		}
		if r.cfg.Policy == PolicyLocal {
			want := r.m.EarliestRec(typ, tk)
			if !found {
				implExp = 0
			}
			if implExp != want {
				return r.fail(at, "c10", "expiry-mismatch/"+cmd, fmt.Sprintf("%s %q: earliest expire record in the store %d, model %d", typ, tk, implExp, want))
			}
			continue
		}
		modelExp, _, ok := r.m.entry(typ, tk)
		if !ok || !found {
			continue
		}
		if implExp == modelExp {
			continue
		}
		// An expire time at or before the epoch cannot be stored in the header's
		// unsigned second; the property only demands that the key is dead, which
		// any stored second in [1, second of the command] gives (0 = no expiry).
		if modelExp <= 0 && implExp >= 1 && implExp <= o.Ts/1e9 {
			continue
		}
		detail := fmt.Sprintf("%s %q: stored expire time %d, model %d (log second of the command %d)", typ, tk, implExp, modelExp, o.Ts/1e9)
		switch {
		case modelExp == 0 && implExp != 0 && (overwriteCmds[o.Name] || r.pre.expired):
			return r.fail(at, "c10", "expiry-not-cleared/"+cmd, detail)
		case modelExp != 0 && implExp == 0 && !expireCmds[o.Name]:
			return r.fail(at, "c10", "expiry-cleared-by-modify/"+cmd, detail)
		}
		return r.fail(at, "c10", "expiry-mismatch/"+cmd, detail)
	}
	return nil
}

// ctl executes a harness action.
func (r *runner) ctl(at int, o Op) *Failure {
	r.st.CtlOps[o.Ctl]++
	r.pre = c10pre{}
	r.class = ""
	if !r.cfg.C08 && !r.cfg.C10 {
		return r.ctlModelFree(at, o)
	}
	switch o.Ctl {
	case "compact":
		db := r.lab.DB()
		db.CompactAllRange()
		db.CompactOldExpireData()
		if r.cfg.Policy != PolicyLocal {
			_, dropped, err := db.VerifRunCompactFilter()
			if err == nil {
				r.st.CtlOps["compact_filter_dropped_keys"] += int64(dropped)
			}
		}
	case "ttlcheck":
		if r.cfg.Policy != PolicyLocal {
			return nil
		}
		before := time.Now().Unix()
		if r.cfg.Engine == "mem" {
			// The checker keeps one open write batch per data type
			// (newLocalBatchedBuffer); a mem-engine write batch holds the store's
			// exclusive write transaction from its first Delete on, so a pass with
			// due records of two types blocks itself forever on this engine (the
			// real background goroutine would too). Run the pass on mem only when
			// at most one type is due.
			types := map[string]bool{}
			for key, recs := range r.m.recs {
				for _, w := range recs {
					if w <= before+1 {
						types[key[:strings.IndexByte(key, '|')]] = true
					}
				}
			}
			if len(types) > 1 {
				r.st.CtlOps["ttlcheck_skipped_on_mem_two_types_due"]++
				return nil
			}
		}
		n, err := r.lab.DB().VerifTTLCheckOnce()
		after := time.Now().Unix()
		if err != nil {
			return nil
		}
		r.st.CtlOps["ttlcheck_expired_records"] += int64(n)
		// records due before the pass started have fired; records later than its
		// end have not; the generator leaves nothing in between.
		for key, recs := range r.m.recs {
			i := strings.IndexByte(key, '|')
			typ, tk := key[:i], key[i+1:]
			var keep []int64
			due := false
			ambiguous := false
			for _, w := range recs {
				switch {
				case w <= before:
					due = true
				case w > after:
					keep = append(keep, w)
				default:
					ambiguous = true
					keep = append(keep, w)
				}
			}
			if ambiguous {
				r.st.Skipped["ttlcheck: expire record inside the pass window"]++
				return &Failure{At: at, Kind: "abort"}
			}
			if !due {
				continue
			}
			r.m.recs[key] = keep
			// the key may or may not be gone ("不保证删除的实时性"): adopt what is observed
			t, k := splitTK(tk)
			present := false
			if typ == "kv" {
				present = r.rd("exists", t, k).Int == 1
			} else {
				present = r.rd(typ[:1]+"keyexist", t, k).Int == 1
			}
			r.st.LocalObs++
			if !present {
				r.m.deleteEntry(typ, tk)
				r.st.CtlOps["ttlcheck_keys_removed_when_due"]++
			} else if _, _, ok := r.m.entry(typ, tk); ok {
				r.st.CtlOps["ttlcheck_keys_kept_although_due"]++
			}
		}
	default:
		return nil
	}
	// every key named so far must still show exactly what the model shows
	for _, tk := range r.order {
		r.st.LocalObs++
		if f := r.checkState(at, tk); f != nil {
			return f
		}
	}
	return nil
}

func splitTK(tk string) (string, string) {
	i := strings.IndexByte(tk, ':')
	return tk[:i], tk[i+1:]
}

func (m *Model) deleteEntry(typ, tk string) {
	switch typ {
	case "kv":
		delete(m.kv, tk)
	case "hash":
		m.hashDrop(tk)
	case "list":
		m.listDrop(tk)
	case "set":
		m.setDrop(tk)
	case "zset":
		m.zsetDrop(tk)
	}
}

// clockAmbiguous: the key's expiry is closer to the node's wall clock than the
// margins the generator keeps (3 s past / 1 h future), so a read's visibility
// cannot be predicted; never produced on purpose (a run would have to stall).
func (r *runner) clockAmbiguous(typ, tk string) bool {
	if r.cfg.Policy == PolicyLocal {
		return false
	}
	exp, _, ok := r.m.entry(typ, tk)
	if !ok || exp == 0 {
		return false
	}
	now := time.Now().Unix()
	return exp > now-3 && exp < now+3600
}

// ctlModelFree: harness action in a C09 execution (no model): run it, then the
// identities and the structural walk (the orphan clause needs per-command
// bookkeeping under wait_compact, so it is evaluated under local_deletion).
func (r *runner) ctlModelFree(at int, o Op) *Failure {
	switch o.Ctl {
	case "ttlcheck":
		if r.cfg.Policy != PolicyLocal {
			return nil
		}
		if _, err := r.lab.DB().VerifTTLCheckOnce(); err != nil {
			return nil
		}
	case "compact":
		r.lab.DB().CompactAllRange()
	default:
		return nil
	}
	if r.cfg.C09 {
		if f := r.identitiesAll(at); f != nil {
			return f
		}
		return r.structWalkOpt(at, o, nil, true)
	}
	return nil
}
