package model

import (
	"sort"
	"strconv"

	"verif/harness/smlab"
)

// ---------------------------------------------------------------------------
// DEVIATIONS FROM REDIS THAT THE MODEL GRANTS
//
// Every entry names the justification in /repo (doc line or code). Anything
// not listed here is modelled as real Redis behaves; a disagreement is a
// finding, not a model adjustment.
//
//  D1  per-type keyspaces: SET k / HSET k / LPUSH k / SADD k / ZADD k on the
//      same key coexist; DEL, EXISTS, EXPIRE, PERSIST, TTL act on the KV
//      keyspace only; collections use hclear/hexpire/httl/hpersist/hkeyexist
//      (l*, s*, z* alike).               doc/user-guide.md:9 ("del, expire,
//      persist, ttl, exists 操作仅用于kv类型数据")
//  D2  SPOP and SRANDMEMBER take members in byte order, not at random.
//      doc/user-guide.md:82 ("srandmember √, 按顺序返回"); rockredis/t_set.go:286
//      ("we do not use rand here"), SPop = sMembersN + SRem.
//  D3  SRANDMEMBER without count answers an array of at most one member (not a
//      bulk); a count < 1 is an error ("Invalid count") instead of Redis'
//      negative-count form. node/set.go:44-73 (srandmembersCommand); the
//      repository's own API test expects exactly that:
//      server/redis_api_setlistzset_test.go:612 (goredis.Values(srandmember
//      key)) and :989-995 (count 0 and -1 must fail).
//  D4  a single value / field value larger than 8 MB is refused
//      (SETRANGE/APPEND: offset+len > 8 MB -> error). doc/user-guide.md:7
//      ("单个value大小不能大于8MB"); rockredis/t_kv.go checkValueSize, SetRange.
//  D5  TTL/HTTL/LTTL/STTL/ZTTL of a missing (or expired) key answer -1 (Redis
//      < 2.8 convention), not -2.   rockredis/t_ttl_compact.go:285-289 (ttl():
//      "if rawValue == nil return -1"); rockredis/t_ttl_compact_test.go asserts
//      -1 after expiry.
//  D6  local_deletion policy: TTL commands always answer -1, PERSIST fails,
//      an expiry once given is never changed or removed by later SET/SETEX/
//      PERSIST/DEL; data disappears only when the background checker runs.
//      doc/user-guide.md:8 ("不支持使用TTL指令获取数据生存时间，和persist指令...
//      过期时间一旦确定, 不能变更").
//  D7  extension commands (no Redis counterpart, semantics from the code):
//      HCLEAR/LCLEAR/SCLEAR/ZCLEAR answer 1 if the collection existed else 0;
//      HKEYEXIST/LKEYEXIST/SKEYEXIST/ZKEYEXIST answer 1/0; LFIXKEY/ZFIXKEY
//      answer OK and change nothing on a consistent collection.
//      doc/user-guide.md:50-54 ("扩展命令"); rockredis/t_hash.go HClear,
//      t_collections.go collKeyExists.
//  D8  reads are evaluated on the node's wall clock, writes on the log
//      timestamp of their entry (rockredis/t_ttl_compact.go:48,64 "should not
//      use time now to check ttl, since it may be different on different
//      nodes"; read API uses time.Now()). The model therefore has two
//      visibility functions; the generator keeps every expiry >= 3 s in the
//      real past or >= 1 h in the real future so both are unambiguous.
//  D9  enumeration order of HGETALL/HKEYS/HVALS/SMEMBERS is byte order of the
//      field/member (Redis: unspecified). Compared as multisets.
//  D10 collection commands refuse an empty key part ("t:") with an error
//      (common/limit.go CheckKeySubKey len(key)==0 via checkCollKFSize); the
//      KV family accepts it. Empty collection keys are not generated.
//  D11 leader-side argument validation (node/*.go *Command functions, argument
//      counts, integer/float syntax of indexes, scores, ranges, SPOP count>=1)
//      answers without writing to the log; smlab applies log entries, so the
//      generator emits only commands that pass that validation (mirrored in
//      gen.go) and the model never sees them.
//  D12 write replies are compared at the apply level after the documented
//      leader-side rewrite (node/keys.go setCommand: 1 -> OK, 0 -> nil;
//      checkOKRsp for setex/hmset/lset/ltrim/mset/lfixkey/zfixkey; zincrby
//      float64 -> bulk 'g' format).
//  D13 ZRANGEBYLEX / ZLEXCOUNT / ZREMRANGEBYLEX are only specified (by Redis)
//      when all scores are equal; with mixed scores the model does not judge
//      the reply of the two read commands, and a ZREMRANGEBYLEX on mixed scores
//      ends the evaluation of that sequence (Exp.Abort; not a failure).
//  D14 refused argument spellings (an error instead of Redis' empty result or
//      Redis' acceptance): score range bounds accept "-inf" only as min and
//      "+inf" only as max, otherwise a finite number strictly inside
//      (-2^63, 2^63) with optional "(" - so "inf", "infinity", "+inf" as min,
//      "-inf" as max, 1e19 are errors (node/zset.go getScoreRange: special
//      cases only for left=="-inf" / right=="+inf", then "leftRange <=
//      common.MinScore || >= common.MaxScore -> errInvalidRange"); lex ranges
//      accept "-" only as min and "+" only as max (node/zset.go getLexRange).
//      The same functions run on the leader before a ZREMRANGEBY* is proposed
//      (D11), so the generator emits only accepted ranges for those writes.
//  D15 a table counter is kept per table (not modelled, not compared: C12).
//  D17 wait_compact stores the expiry as uint32 seconds: an absolute expiry
//      second >= 2^32-2 is refused with an error ("expiration time overflow",
//      rockredis/t_ttl_compact.go:270 rawExpireAt), the key is left unchanged.
//      The largest accepted expiry second is 2^32-3.
//  D16 bulk reads refuse more than 5000 elements with an error: HGETALL/HKEYS/
//      HVALS/SMEMBERS of a larger collection, LRANGE/ZRANGE/ZREVRANGE windows
//      and ZRANGEBYSCORE/ZRANGEBYLEX results longer than that.
//      doc/user-guide.md:10 ("服务端目前配置最大一次性获取5000, 超过会直接返回
//      错误信息"); rockredis MAX_BATCH_NUM.
// ---------------------------------------------------------------------------

type Reply = smlab.Reply

func rInt(n int64) Reply   { return Reply{Kind: "int", Int: n} }
func rBulk(s string) Reply { return Reply{Kind: "bulk", Bulk: []byte(s)} }
func rNil() Reply          { return Reply{Kind: "nil", Nil: true} }
func rOK() Reply           { return Reply{Kind: "status", Bulk: []byte("OK")} }
func rErr(s string) Reply  { return Reply{Kind: "error", Err: s} }
func rArr(rs ...Reply) Reply {
	if rs == nil {
		rs = []Reply{}
	}
	return Reply{Kind: "array", Arr: rs}
}
func rBulks(ss []string) Reply {
	r := Reply{Kind: "array", Arr: make([]Reply, 0, len(ss))}
	for _, s := range ss {
		r.Arr = append(r.Arr, rBulk(s))
	}
	return r
}

// Exp is what the model expects: the reply, plus flags telling the comparator
// how to normalise.
type Exp struct {
	R Reply
	// Unordered: array elements are compared as a multiset (D9); Pairs: in
	// units of two (field,value).
	Unordered bool
	Pairs     bool
	// Float: bulk elements at odd positions (WithScores) or the single bulk are
	// compared numerically.
	Float       bool
	FloatStride int // 0: single bulk; 2: every second element of the array
	// NilIsEmpty: nil and empty bulk are the same (GETRANGE).
	NilIsEmpty bool
	// Skip: the reply is not judged (unspecified by Redis, or clock-ambiguous).
	Skip string
	// TTL: the reply must be an int in [Lo,Hi] (wall-clock dependent).
	TTL    bool
	Lo, Hi int64
	// Alt: alternative acceptable replies (accept-both situations).
	Alt []Reply
	// Class names a special input class the command belongs to (int-overflow,
	// empty-value, neg-offset, excl-score-bound, ...). A disagreement on such a
	// command is signed "<class>/<CMD>" instead of "<family>/<CMD>/<kind>", so
	// that a known finding is identified by its input class and cannot mask
	// other disagreements of the same command.
	Class string
	// Abort: the command leaves the domain in which Redis specifies a result
	// (D13); the rest of the sequence is not evaluated (not a failure).
	Abort bool
}

const (
	PolicyCompact = "wait_compact"
	PolicyLocal   = "local_deletion"
)

const maxValueSize = 8 * 1024 * 1024

// maxWhen is D17's first refused absolute expiry second.
const maxWhen = int64(1)<<32 - 2

// maxBulkRead is D16's limit (rockredis.MAX_BATCH_NUM).
const maxBulkRead = 5000

type kvEnt struct {
	v   string
	exp int64
}
type hashEnt struct {
	f   map[string]string
	exp int64
	gen int
}
type listEnt struct {
	l   []string
	exp int64
	gen int
}
type setEnt struct {
	m   map[string]struct{}
	exp int64
	gen int
}
type zsetEnt struct {
	m   map[string]float64
	exp int64
	gen int
}

// Model is the reference state: five independent keyspaces (D1).
type Model struct {
	Policy string
	kv     map[string]*kvEnt
	hash   map[string]*hashEnt
	list   map[string]*listEnt
	set    map[string]*setEnt
	zset   map[string]*zsetEnt

	// Wall is the node's wall clock in unix seconds at the time of a read
	// (set by the runner around each read; D8).
	Wall int64
	// generation counters and members of earlier generations per type+key, to
	// classify a mismatch as predecessor-members-visible.
	gens map[string]int
	prev map[string]map[string]bool
	// ever: per type+key, member -> generation counter at its latest insertion;
	// genTs: log timestamps at which generations of the key were created
	ever  map[string]map[string]int
	genTs map[string][]int64
	// local deletion: expire records ever given per type+"|"+tk (D6)
	recs map[string][]int64
	// deviations exercised (evidence)
	Dev map[string]int
	// Ambiguous is set by a read/write whose outcome depends on which clock is
	// used while the two clocks disagree (never generated on purpose).
	Ambiguous string
}

func NewModel(policy string) *Model {
	if policy == "" {
		policy = PolicyCompact
	}
	return &Model{Policy: policy,
		kv: map[string]*kvEnt{}, hash: map[string]*hashEnt{}, list: map[string]*listEnt{},
		set: map[string]*setEnt{}, zset: map[string]*zsetEnt{},
		gens: map[string]int{}, prev: map[string]map[string]bool{}, recs: map[string][]int64{}, Dev: map[string]int{},
		ever: map[string]map[string]int{}, genTs: map[string][]int64{}}
}

func (m *Model) dev(id string) { m.Dev[id]++ }

// expiredW: write-path visibility (log timestamp), wait_compact only.
// rockredis headerMetaValue.isExpired: ExpireAt != 0 && ts != 0 && ExpireAt - ts/1e9 <= 0.
func (m *Model) expiredW(exp int64, ts int64) bool {
	if m.Policy != PolicyCompact || exp == 0 || ts == 0 {
		return false
	}
	return ts/1e9 >= exp
}

// expiredR: read-path visibility (wall clock).
func (m *Model) expiredR(exp int64) bool {
	if m.Policy != PolicyCompact || exp == 0 {
		return false
	}
	return m.Wall >= exp
}

// newExp computes the absolute expiry a write at ts with ttl seconds stores.
func newExp(ts int64, ttl int64) int64 { return ts/1e9 + ttl }

func (m *Model) addRec(typ, tk string, when int64) {
	k := typ + "|" + tk
	m.recs[k] = append(m.recs[k], when)
	sort.Slice(m.recs[k], func(i, j int) bool { return m.recs[k][i] < m.recs[k][j] })
}

// EarliestRec returns the earliest expiry ever given to the key under the
// local-deletion policy (0 = none).
func (m *Model) EarliestRec(typ, tk string) int64 {
	r := m.recs[typ+"|"+tk]
	if len(r) == 0 {
		return 0
	}
	return r[0]
}

func (m *Model) remember(typ, tk string, members []string) {
	k := typ + "|" + tk
	m.gens[k]++
	if m.prev[k] == nil {
		m.prev[k] = map[string]bool{}
	}
	for _, x := range members {
		m.prev[k][x] = true
	}
}

// noteAdd records that member x was inserted into the current generation.
func (m *Model) noteAdd(typ, tk, x string) {
	k := typ + "|" + tk
	if m.ever[k] == nil {
		m.ever[k] = map[string]int{}
	}
	m.ever[k][x] = m.gens[k]
}

// noteGen records the log timestamp at which a new generation was created.
func (m *Model) noteGen(typ, tk string, ts int64) {
	k := typ + "|" + tk
	m.genTs[k] = append(m.genTs[k], ts)
}

// GenCollision: was the CURRENT generation of the key created at exactly the
// log timestamp at which an earlier generation of it had been created? (the
// stored generation number is the creating entry's log timestamp:
// rockredis/t_ttl_compact.go renewOnExpired "oldh.ValueVersion = ts"; the two
// generations then share their element keys)
func (m *Model) GenCollision(typ, tk string) bool {
	g := m.genTs[typ+"|"+tk]
	if len(g) < 2 {
		return false
	}
	cur := g[len(g)-1]
	for i := 0; i+1 < len(g); i++ {
		if g[i] == cur {
			return true
		}
	}
	return false
}

// PrevMembers returns the members/fields/elements that only earlier
// generations of the key held (inserted before the current generation began).
func (m *Model) PrevMembers(typ, tk string) map[string]bool {
	k := typ + "|" + tk
	out := map[string]bool{}
	for x, g := range m.ever[k] {
		if g < m.gens[k] {
			out[x] = true
		}
	}
	return out
}

func parseInt(s string) (int64, bool) {
	n, err := strconv.ParseInt(s, 10, 64)
	return n, err == nil
}

// redisInt is Redis' string2ll: canonical decimal only (no '+', no leading
// zeros, no spaces, no "-0").
func redisInt(s string) (int64, bool) {
	n, err := strconv.ParseInt(s, 10, 64)
	if err != nil {
		return 0, false
	}
	if strconv.FormatInt(n, 10) != s {
		return 0, false
	}
	return n, true
}

func addOverflows(a, b int64) bool {
	c := a + b
	return (b > 0 && c < a) || (b < 0 && c > a)
}

func sortedKeys[V any](m map[string]V) []string {
	ks := make([]string, 0, len(m))
	for k := range m {
		ks = append(ks, k)
	}
	sort.Strings(ks)
	return ks
}

// normIndex is Redis' start/stop normalisation for LRANGE/LTRIM/ZRANGE/
// ZREMRANGEBYRANK: returns ok=false for an empty range.
func normIndex(start, stop, n int64) (int64, int64, bool) {
	if start < 0 {
		start = n + start
	}
	if stop < 0 {
		stop = n + stop
	}
	if start < 0 {
		start = 0
	}
	if start > stop || start >= n {
		return 0, 0, false
	}
	if stop >= n {
		stop = n - 1
	}
	return start, stop, true
}

// Apply executes one command on the model and returns the expectation.
func (m *Model) Apply(o Op) Exp {
	m.Ambiguous = ""
	switch family(o.Name) {
	case "kv":
		return m.applyKV(o)
	case "hash":
		return m.applyHash(o)
	case "list":
		return m.applyList(o)
	case "set":
		return m.applySet(o)
	case "zset":
		return m.applyZSet(o)
	}
	return Exp{Skip: "no model for " + o.Name}
}

// ---- generic expiry commands, shared by the five types ----

// expireCmd models EXPIRE/HEXPIRE/...: exists = write-visible existence.
func (m *Model) expireCmd(o Op, typ string, exists bool, setExp func(int64)) Exp {
	if len(o.A) != 1 {
		return Exp{R: rErr("args")}
	}
	ttl, err := strconv.Atoi(o.A[0]) // node/ttl.go: strconv.Atoi
	if err != nil {
		return Exp{R: rErr("not an integer")}
	}
	if !exists {
		return Exp{R: rInt(0)}
	}
	when := newExp(o.Ts, int64(ttl))
	if m.Policy == PolicyLocal {
		if when == 0 {
			return Exp{R: rErr("change ttl not supported")}
		}
		m.addRec(typ, o.tk(), when)
		m.dev("D6")
		return Exp{R: rInt(1)}
	}
	if when >= maxWhen {
		m.dev("D17")
		return Exp{R: rErr("expiration time overflow")}
	}
	cls := ""
	if when < 0 {
		cls = "negative-when" // |ttl| larger than the log second: the absolute expiry second is negative
	}
	setExp(when)
	return Exp{R: rInt(1), Class: cls}
}

// persistCmd models PERSIST/HPERSIST/...: Redis answers 1 only if a timeout
// was removed.
func (m *Model) persistCmd(o Op, exists bool, cur int64, clear func()) Exp {
	if !exists {
		return Exp{R: rInt(0)}
	}
	if m.Policy == PolicyLocal {
		m.dev("D6")
		return Exp{R: rErr("change ttl is not supported in current expire policy")}
	}
	if cur == 0 {
		return Exp{R: rInt(0), Class: "persist-without-ttl"}
	}
	clear()
	return Exp{R: rInt(1)}
}

// ttlCmd models TTL/HTTL/...: exists = read-visible existence.
func (m *Model) ttlCmd(exists bool, exp int64) Exp {
	if m.Policy == PolicyLocal {
		m.dev("D6")
		return Exp{R: rInt(-1)}
	}
	if !exists {
		m.dev("D5")
		return Exp{R: rInt(-1)}
	}
	if exp == 0 {
		return Exp{R: rInt(-1)}
	}
	// remaining whole seconds on the node's clock: the runner fills Lo/Hi from
	// the clock read before and after the call.
	return Exp{TTL: true, Lo: exp, Hi: exp}
}
