package model

import (
	"fmt"
	"path/filepath"
	"strconv"
	"strings"
	"sync"
	"time"

	"verif/harness/inproc"
	"verif/harness/smlab"
	"verif/harness/vc"
)

// Protocol path of C08 (DESIGN.md C08 "two paths"): a seed-determined sample
// of the generator's sequences is sent over TCP, in the redis protocol, to a
// REAL single-replica server (verif/harness/inproc.StartHost: server.Server +
// raft node + state machine), so that the leader-side part of every write
// handler (argument validation, the node-local pre-checks that answer without
// proposing: node/keys.go setnxCommand, node/set.go saddCommand/sremCommand/
// spopCommand, node/zset.go zremCommand, node/list.go preCheckListLength/
// ltrimCommand, the server-level merge of DEL/EXISTS) and the reply rewrite are
// executed. Every reply and, after every command, the state of the keys it
// names are compared with the same reference model. One server per engine
// serves the whole sample (namespace "lc" = local_deletion, "wc" =
// wait_compact); every sequence gets its own table names. Signatures carry the
// prefix proto/.

// ProtoTarget is one namespace of a running host.
type ProtoTarget struct {
	Addr   string
	NS     string
	Engine string
	Policy string
}

type protoExec struct {
	conn *inproc.Conn
	ns   string
	err  error
}

func (o Op) argsNS(ns string) [][]byte {
	key := func(k string) []byte { return smlab.NsKey(ns, []byte(o.T), []byte(k)) }
	out := [][]byte{[]byte(o.Name)}
	switch o.Name {
	case "del", "exists", "mget":
		for _, k := range o.Keys() {
			out = append(out, key(k))
		}
	case "mset", "plset":
		all := append([]string{o.K}, o.A...)
		for i, s := range all {
			if i%2 == 0 {
				out = append(out, key(s))
			} else {
				out = append(out, []byte(s))
			}
		}
	default:
		out = append(out, key(o.K))
		for _, a := range o.A {
			out = append(out, []byte(a))
		}
	}
	return out
}

func fromWire(r inproc.Reply) Reply {
	switch r.Kind {
	case '+':
		return Reply{Kind: "status", Bulk: r.Str}
	case '-':
		return Reply{Kind: "error", Err: string(r.Str)}
	case ':':
		return rInt(r.Int)
	case '$':
		return Reply{Kind: "bulk", Bulk: r.Str}
	case 'n':
		return rNil()
	case '*':
		out := Reply{Kind: "array", Arr: make([]Reply, 0, len(r.Arr))}
		for _, e := range r.Arr {
			out.Arr = append(out.Arr, fromWire(e))
		}
		return out
	}
	return Reply{Kind: "other"}
}

func (p *protoExec) do(o Op) Reply {
	if p.err != nil {
		return Reply{Kind: "unanswered"}
	}
	r, err := p.conn.Do(o.argsNS(p.ns)...)
	if err != nil {
		p.err = err
		return Reply{Kind: "unanswered"}
	}
	return fromWire(r)
}

// protoHosts are started once per process.
var (
	protoMu      sync.Mutex
	protoStarted map[string]*inproc.Host
)

func protoHost(c *vc.Ctx, engine string) (*inproc.Host, error) {
	protoMu.Lock()
	defer protoMu.Unlock()
	if h := protoStarted[engine]; h != nil {
		return h, nil
	}
	if protoStarted == nil {
		protoStarted = map[string]*inproc.Host{}
		inproc.RouteLogs(filepath.Join(c.Scratch, "proto-server.log"))
	}
	id := uint64(1)
	if engine == "pebble" {
		id = 2
	}
	h, err := inproc.StartHost(inproc.HostConf{Dir: filepath.Join(c.Scratch, "proto-"+engine), Engine: engine, NodeID: id,
		ClusterID: "verif-c08-" + engine, Namespaces: []inproc.NSSpec{
			{Name: "lc", PartNum: 1},
			{Name: "wc", PartNum: 1, ExpPolicy: "wait_compact", DataVersion: "value_header_v1"},
		}})
	if err != nil {
		return nil, err
	}
	if err := h.WaitLeaders(60 * time.Second); err != nil {
		return nil, err
	}
	protoStarted[engine] = h
	return h, nil
}

func protoTargets(c *vc.Ctx) ([]ProtoTarget, error) {
	var out []ProtoTarget
	for _, eng := range []string{"mem", "pebble"} {
		h, err := protoHost(c, eng)
		if err != nil {
			return nil, fmt.Errorf("protocol path: cannot start the %s server: %v", eng, err)
		}
		out = append(out, ProtoTarget{h.Addr(), "lc", eng, PolicyLocal}, ProtoTarget{h.Addr(), "wc", eng, PolicyCompact})
	}
	return out, nil
}

// retable gives a sequence its own tables on the shared server: t -> <p>t,
// t1 -> <p>t1, tt -> <p>tt (the prefix relations between the names survive).
func retable(ops []Op, prefix string) []Op {
	out := make([]Op, len(ops))
	for i, o := range ops {
		o.T = prefix + o.T
		out[i] = o
	}
	return out
}

func untable(ops []Op, prefix string) []Op {
	out := make([]Op, len(ops))
	for i, o := range ops {
		o.T = strings.TrimPrefix(o.T, prefix)
		out[i] = o
	}
	return out
}

// leaderLogic are the write commands whose node handler does more than
// validate before proposing; the protocol sample draws them more often.
func (g *Gen) leaderLogicOp() Op {
	r := g.r
	k := g.key()
	switch pick(r, g.fams) {
	case "kv":
		switch r.Intn(4) {
		case 0:
			return g.op("setnx", g.kvKey(), g.value())
		case 1:
			ks := g.manyKeys()
			return Op{Name: "del", T: g.table(), K: ks[0], A: ks[1:]}
		case 2:
			ks := g.manyKeys()
			return Op{Name: "exists", T: g.table(), K: ks[0], A: ks[1:]}
		default:
			return g.op("incrby", g.kvKey(), g.intArg())
		}
	case "hash":
		return g.op("hdel", k, g.someMembers(3)...)
	case "list":
		switch r.Intn(3) {
		case 0:
			return g.op("lpop", k)
		case 1:
			return g.op("rpop", k)
		default:
			return g.op("ltrim", k, "0", pick(r, []string{"-1", "0", "1"}))
		}
	case "set":
		switch r.Intn(4) {
		case 0:
			return g.op("sadd", k, g.someMembers(4)...)
		case 1:
			return g.op("srem", k, g.someMembers(4)...)
		case 2:
			return g.op("spop", k)
		default:
			return g.op("spop", k, pick(r, []string{"1", "2", "100"}))
		}
	default:
		return g.op("zrem", k, g.someMembers(4)...)
	}
}

// protoSeq generates protocol-path sequence i.
func protoSeq(c *vc.Ctx, i int) []Op {
	r := c.Rand(12*1000003 + int64(i))
	g := NewGen(r, nil, 0)
	// stay out of the input classes with known conformance deviations: they are
	// the fast path's business and would only end sequences early here
	g.benign = true
	n := 20 + r.Intn(81)
	ops := make([]Op, 0, n)
	for len(ops) < n {
		var o Op
		if r.Intn(3) == 0 {
			o = g.leaderLogicOp()
		} else {
			o = g.Next()
		}
		switch o.Name {
		case "mset":
			continue // no client handler registered (coverage_gaps)
		case "setex":
			// A batchable command that fails at apply time (SETEX with a bad TTL
			// passes the leader's checks) aborts the shared write batch and answers
			// the OTHER connections' SETs of that batch with its error (DESIGN.md
			// 1.6 #2, known finding of C07/C11). The sample shares one server among
			// 16 connections, so such a command would make unrelated sequences
			// fail at random: not generated here (the fast path has it).
			if ttl, err := strconv.Atoi(o.A[0]); err != nil || ttl <= 0 {
				continue
			}
		}
		o.Ts = 0 // the server stamps the entry
		ops = append(ops, o)
	}
	return ops
}

// runProtoSample runs the protocol-path sample of C08.
func runProtoSample(c *vc.Ctx, cp *campaign, n int) error {
	targets, err := protoTargets(c)
	if err != nil {
		return err
	}
	cp.run(n, func(i int) caseSpec {
		tg := targets[i%len(targets)]
		prefix := fmt.Sprintf("p%d", i)
		return caseSpec{Name: fmt.Sprintf("proto-%d", i), Ops: retable(protoSeq(c, i), prefix), Store: storeCfg{tg.Engine, tg.Policy},
			Proto: &tg, TablePrefix: prefix}
	})
	return nil
}
