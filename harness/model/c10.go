package model

import (
	"fmt"
	"math/rand"
	"time"

	"verif/harness/smlab"
	"verif/harness/vc"
)

func init() {
	vc.Register("C10", "exploration", runC10)
}

// Log-time layouts (model.go D8). W = wall clock (unix s) when the run starts.
//
//	future: log origin W+30d, TTLs of seconds  -> every expiry >= 1 h in the
//	        real future: reads (wall clock) see everything, writes (log time)
//	        meet expired values at chosen instants.
//	past:   log origin W-30d, TTLs of seconds  -> every expiry >= 3 s in the
//	        real past: reads hide a key as soon as it has an expiry, writes
//	        before the expiry instant in LOG time still build on it. A TTL of
//	        60 d lands at W+30d: alive on both clocks.
//	local (local_deletion): log origin W-30d; TTLs of seconds are due at the
//	        next checker pass, 2593800 s lands ~30 min in the real future
//	        (inside the checker's one-hour scan window), 60 d far away.
const (
	day          = int64(86400)
	c10Offset    = 30 * day
	ttlFarStr    = "5184000" // 60 d
	ttlSoonLocal = "2593800" // 30 d + 30 min
)

type c10Layout struct {
	name string
	base int64 // log origin, unix seconds
	ttls []string
}

func layoutFor(name string, wall int64) c10Layout {
	switch name {
	case "future":
		return c10Layout{name, wall + c10Offset, []string{"1", "2", "5", "10", "10", "100", "0", "-3"}}
	case "past":
		return c10Layout{name, wall - c10Offset, []string{"1", "2", "5", "10", "10", "100", ttlFarStr}}
	}
	return c10Layout{"local", wall - c10Offset, []string{"1", "5", "100", ttlSoonLocal, ttlSoonLocal, ttlFarStr}}
}

// ---- boundary matrix -------------------------------------------------------

type rmw struct {
	typ  string
	name string
	args []string
}

func rmwCommands() []rmw {
	return []rmw{
		{"kv", "append", []string{"z"}}, {"kv", "setrange", []string{"1", "Q"}}, {"kv", "incr", nil}, {"kv", "incrby", []string{"7"}},
		{"kv", "getset", []string{"9"}}, {"kv", "setnx", []string{"8"}}, {"kv", "set", []string{"8", "xx"}}, {"kv", "set", []string{"8", "nx"}},
		{"kv", "set", []string{"8"}}, {"kv", "expire", []string{"100"}}, {"kv", "persist", nil}, {"kv", "del", nil},
		{"kv", "mset", []string{"8"}}, {"kv", "setex", []string{"100", "8"}},
		{"hash", "hset", []string{"h", "9"}}, {"hash", "hset", []string{"f", "9"}}, {"hash", "hsetnx", []string{"f", "9"}}, {"hash", "hmset", []string{"h", "9", "i", "8"}},
		{"hash", "hincrby", []string{"f", "5"}}, {"hash", "hdel", []string{"f"}}, {"hash", "hexpire", []string{"100"}}, {"hash", "hpersist", nil},
		{"list", "lpush", []string{"z"}}, {"list", "rpush", []string{"z"}}, {"list", "lpop", nil}, {"list", "rpop", nil}, {"list", "lset", []string{"0", "z"}},
		{"list", "ltrim", []string{"0", "0"}}, {"list", "lclear", nil}, {"list", "lexpire", []string{"100"}}, {"list", "lpersist", nil},
		{"set", "sadd", []string{"z"}}, {"set", "sadd", []string{"a"}}, {"set", "srem", []string{"a"}}, {"set", "spop", nil}, {"set", "sclear", nil},
		{"set", "sexpire", []string{"100"}}, {"set", "spersist", nil},
		{"zset", "zadd", []string{"9", "z"}}, {"zset", "zadd", []string{"9", "a"}}, {"zset", "zincrby", []string{"5", "a"}}, {"zset", "zrem", []string{"a"}},
		{"zset", "zremrangebyrank", []string{"0", "0"}}, {"zset", "zremrangebyscore", []string{"1", "1"}}, {"zset", "zclear", nil},
		{"zset", "zexpire", []string{"100"}}, {"zset", "zpersist", nil},
	}
}

func createOps(typ, t, k string, variant int) []Op {
	switch typ {
	case "kv":
		switch variant % 3 {
		case 1:
			return []Op{{Name: "setex", T: t, K: k, A: []string{"10", "5"}}}
		case 2:
			return []Op{{Name: "set", T: t, K: k, A: []string{"5", "ex", "10"}}}
		}
		return []Op{{Name: "set", T: t, K: k, A: []string{"5"}}, {Name: "expire", T: t, K: k, A: []string{"10"}}}
	case "hash":
		return []Op{{Name: "hmset", T: t, K: k, A: []string{"f", "1", "g", "2"}}, {Name: "hexpire", T: t, K: k, A: []string{"10"}}}
	case "list":
		return []Op{{Name: "rpush", T: t, K: k, A: []string{"a", "b", "c"}}, {Name: "lexpire", T: t, K: k, A: []string{"10"}}}
	case "set":
		return []Op{{Name: "sadd", T: t, K: k, A: []string{"a", "b", "c"}}, {Name: "sexpire", T: t, K: k, A: []string{"10"}}}
	case "zset":
		return []Op{{Name: "zadd", T: t, K: k, A: []string{"1", "a", "2", "b", "3", "c"}}, {Name: "zexpire", T: t, K: k, A: []string{"10"}}}
	}
	return nil
}

func ttlCmdOf(typ string) string {
	if typ == "kv" {
		return "ttl"
	}
	return typ[:1] + "ttl"
}

type matrixCell struct {
	cmd     rmw
	off     int64 // -1, 0, +1 seconds relative to the expiry instant
	frac    int64 // nanoseconds inside that second
	layout  string
	variant int
}

func matrixCells() []matrixCell {
	var cells []matrixCell
	for _, layout := range []string{"future", "past"} {
		for ci, c := range rmwCommands() {
			for _, off := range []int64{-1, 0, 1} {
				for fi, frac := range []int64{0, 999999999} {
					cells = append(cells, matrixCell{cmd: c, off: off, frac: frac, layout: layout, variant: ci + fi})
				}
			}
		}
	}
	return cells
}

// seq builds the commands of one cell: create with TTL 10, the command under
// test at (expiry+off) seconds, the reads, the command once more one second
// later, reads.
func (mc matrixCell) seq(wall int64) []Op {
	lay := layoutFor(mc.layout, wall)
	t, k := "t", "k"
	ts0 := lay.base * 1e9
	var ops []Op
	for i, o := range createOps(mc.cmd.typ, t, k, mc.variant) {
		o.Ts = ts0 + int64(i)
		ops = append(ops, o)
	}
	e := lay.base + 10
	under := Op{Name: mc.cmd.name, T: t, K: k, A: mc.cmd.args, Ts: (e+mc.off)*1e9 + mc.frac}
	if under.Ts < ops[len(ops)-1].Ts {
		under.Ts = ops[len(ops)-1].Ts
	}
	ops = append(ops, under)
	ops = append(ops, Op{Name: ttlCmdOf(mc.cmd.typ), T: t, K: k})
	again := under
	again.Ts += 1e9
	ops = append(ops, again)
	ops = append(ops, Op{Name: ttlCmdOf(mc.cmd.typ), T: t, K: k})
	return ops
}

func (mc matrixCell) name() string {
	return fmt.Sprintf("matrix/%s/%s/%s%v/off%+d/frac%d", mc.layout, mc.cmd.typ, mc.cmd.name, mc.cmd.args, mc.off, mc.frac)
}

// ---- expiry second boundary values -------------------------------------------

// ttlBoundaryCase: a key of every type is given an expiry whose ABSOLUTE second
// is a boundary value of the stored uint32 (D17), then the compaction filter
// and the local-deletion checker run, the key must stay fully visible with the
// right TTL, a modifying write must build on it and keep the expiry, and the
// passes run again.
type ttlBoundaryCase struct {
	typ     string
	variant int   // kv: how the expiry is given (EXPIRE / SETEX / SET EX)
	when    int64 // absolute expiry second aimed at (0: use ttl literally)
	ttl     int64
	label   string
}

func ttlBoundaryCases() []ttlBoundaryCase {
	const largest = int64(1)<<32 - 3
	const lazy = 48 * 3600
	whens := []struct {
		w int64
		l string
	}{
		{largest, "largest"}, {largest - 1, "largest-1"}, {largest + 1, "largest+1(refused)"},
		{largest - lazy - 1, "largest-48h-1"}, {largest - lazy, "largest-48h"}, {largest - lazy + 1, "largest-48h+1"},
		{1<<31 - 1, "2^31-1"}, {1 << 31, "2^31"}, {1<<31 + 1, "2^31+1"},
	}
	var out []ttlBoundaryCase
	for _, typ := range []string{"kv", "hash", "list", "set", "zset"} {
		variants := 1
		if typ == "kv" {
			variants = 3
		}
		for v := 0; v < variants; v++ {
			for _, w := range whens {
				out = append(out, ttlBoundaryCase{typ: typ, variant: v, when: w.w, label: w.l})
			}
			out = append(out, ttlBoundaryCase{typ: typ, variant: v, ttl: 1, label: "ttl=1"})
			if v == 0 {
				out = append(out, ttlBoundaryCase{typ: typ, variant: v, ttl: 0, label: "ttl=0"},
					ttlBoundaryCase{typ: typ, variant: v, ttl: -3, label: "ttl=-3"},
					ttlBoundaryCase{typ: typ, variant: v, when: -5, label: "when=-5(ttl below -now)"})
			}
		}
	}
	return out
}

func (bc ttlBoundaryCase) name() string {
	return fmt.Sprintf("ttl-boundary/%s/v%d/%s", bc.typ, bc.variant, bc.label)
}

func (bc ttlBoundaryCase) seq(wall int64) []Op {
	// log time 30 days behind the wall clock: generations are older than the
	// filter's 48 h young-generation guard
	base := wall - c10Offset
	t, k := "t", "k"
	ts := base * 1e9
	next := func() int64 { ts += 1e9; return ts }
	ttlAt := func(at int64) string {
		if bc.when != 0 {
			return fmt.Sprint(bc.when - at/1e9)
		}
		return fmt.Sprint(bc.ttl)
	}
	var ops []Op
	exp := map[string]string{"kv": "expire", "hash": "hexpire", "list": "lexpire", "set": "sexpire", "zset": "zexpire"}[bc.typ]
	switch {
	case bc.typ == "kv" && bc.variant == 1:
		at := next()
		ops = append(ops, Op{Name: "setex", T: t, K: k, A: []string{ttlAt(at), "5"}, Ts: at})
	case bc.typ == "kv" && bc.variant == 2:
		at := next()
		ops = append(ops, Op{Name: "set", T: t, K: k, A: []string{"5", "ex", ttlAt(at)}, Ts: at})
	default:
		c := createOps(bc.typ, t, k, 0)[0]
		c.Ts = next()
		at := next()
		ops = append(ops, c, Op{Name: exp, T: t, K: k, A: []string{ttlAt(at)}, Ts: at})
	}
	passes := func() {
		ops = append(ops, Op{Ctl: "compact", Ts: ts}, Op{Ctl: "ttlcheck", Ts: ts}, Op{Name: ttlCmdOf(bc.typ), T: t, K: k})
	}
	passes()
	mod := map[string]Op{
		"kv":   {Name: "append", T: t, K: k, A: []string{"z"}},
		"hash": {Name: "hset", T: t, K: k, A: []string{"h", "9"}},
		"list": {Name: "rpush", T: t, K: k, A: []string{"z"}},
		"set":  {Name: "sadd", T: t, K: k, A: []string{"z"}},
		"zset": {Name: "zadd", T: t, K: k, A: []string{"9", "z"}},
	}[bc.typ]
	mod.Ts = next()
	ops = append(ops, mod)
	passes()
	return ops
}

// ---- clear + re-create in the same second / nanosecond ---------------------

type recreateCase struct {
	typ     string
	remove  Op     // how the predecessor goes away
	pattern string // relation of the three timestamps
}

func recreateCases() []recreateCase {
	var out []recreateCase
	removers := map[string][]Op{
		"hash": {{Name: "hclear"}, {Name: "hdel", A: []string{"a", "b"}}},
		"list": {{Name: "lclear"}, {Name: "ltrim", A: []string{"5", "9"}}, {Name: "lpop"}},
		"set":  {{Name: "sclear"}, {Name: "srem", A: []string{"a", "b"}}, {Name: "spop", A: []string{"5"}}},
		"zset": {{Name: "zclear"}, {Name: "zremrangebyrank", A: []string{"0", "-1"}}, {Name: "zrem", A: []string{"a", "b"}}, {Name: "zremrangebyscore", A: []string{"-inf", "+inf"}}},
	}
	for _, typ := range []string{"hash", "list", "set", "zset"} {
		for _, rm := range removers[typ] {
			for _, p := range []string{"same-ns", "same-ns-clear-recreate", "same-second", "next-second"} {
				out = append(out, recreateCase{typ, rm, p})
			}
		}
	}
	return out
}

func (rc recreateCase) seq(base int64) []Op {
	t, k := "t", "k"
	var first, second Op
	switch rc.typ {
	case "hash":
		first = Op{Name: "hmset", T: t, K: k, A: []string{"a", "1", "b", "2"}}
		second = Op{Name: "hmset", T: t, K: k, A: []string{"c", "3"}}
	case "list":
		first = Op{Name: "rpush", T: t, K: k, A: []string{"a"}}
		second = Op{Name: "rpush", T: t, K: k, A: []string{"c", "d"}}
	case "set":
		first = Op{Name: "sadd", T: t, K: k, A: []string{"a", "b"}}
		second = Op{Name: "sadd", T: t, K: k, A: []string{"c"}}
	case "zset":
		first = Op{Name: "zadd", T: t, K: k, A: []string{"1", "a", "2", "b"}}
		second = Op{Name: "zadd", T: t, K: k, A: []string{"3", "c"}}
	}
	rm := rc.remove
	rm.T, rm.K = t, k
	a := base * 1e9
	var b, c int64
	switch rc.pattern {
	case "same-ns":
		b, c = a, a
	case "same-ns-clear-recreate":
		b, c = a+1e9+5, a+1e9+5
	case "same-second":
		b, c = a+1000, a+2000
	default:
		b, c = a+1e9, a+2e9
	}
	first.Ts, rm.Ts, second.Ts = a, b, c
	third := second
	third.Ts = c + 1e9
	return []Op{first, rm, second, third}
}

func (rc recreateCase) name() string {
	return fmt.Sprintf("recreate/%s/%s%v/%s", rc.typ, rc.remove.Name, rc.remove.A, rc.pattern)
}

// ---- random sequences with expiry ------------------------------------------

func c10RandomSeq(r *rand.Rand, lay c10Layout, policy string) []Op {
	g := NewGen(r, nil, lay.base*1e9)
	g.expiry, g.benign, g.ttls = true, true, lay.ttls
	g.shadow = NewModel(PolicyCompact)
	short := func(ttl string) bool { return ttl != ttlFarStr && ttl != ttlSoonLocal }
	g.tsStep = func(g *Gen) int64 {
		// half of the steps aim at a known expiry instant: one second before, at, one second after
		if len(g.exps) > 0 && g.r.Intn(2) == 0 {
			e := g.exps[g.r.Intn(len(g.exps))]
			target := (e+int64(g.r.Intn(3))-1)*1e9 + []int64{0, 1, 500000000, 999999999}[g.r.Intn(4)]
			if target >= g.ts {
				return target
			}
		}
		switch g.r.Intn(6) {
		case 0:
			return g.ts
		case 1:
			return g.ts + 1
		case 2:
			return g.ts + 300000000
		case 3:
			return g.ts + 2500000000
		default:
			return g.ts + 1e9
		}
	}
	n := 20 + r.Intn(121)
	var ops []Op
	for len(ops) < n {
		o := g.Next()
		// remember the expiry instants short TTLs produce (boundary targets)
		var ttl string
		switch o.Name {
		case "expire", "hexpire", "lexpire", "sexpire", "zexpire", "setex":
			ttl = o.A[0]
		case "set":
			for i := 1; i+1 < len(o.A); i++ {
				if o.A[i] == "ex" || o.A[i] == "EX" {
					ttl = o.A[i+1]
				}
			}
		}
		if ttl != "" && short(ttl) {
			if v, ok := parseInt(ttl); ok {
				g.exps = append(g.exps, o.Ts/1e9+v)
			}
		}
		ops = append(ops, o)
		if r.Intn(25) == 0 {
			if policy == PolicyLocal {
				ops = append(ops, Op{Ctl: "ttlcheck"})
			} else {
				// quiescent point: move log time past every short expiry given so far,
				// so that what the filter may drop is dead on both clocks
				maxE := int64(0)
				for _, e := range g.exps {
					if e > maxE {
						maxE = e
					}
				}
				if t := (maxE + 1) * 1e9; t > g.ts {
					g.ts = t
				}
				ops = append(ops, Op{Ctl: "compact", Ts: g.ts})
			}
		}
	}
	return ops
}

// shiftOps moves every log timestamp by d seconds (replay at another wall time).
func shiftOps(ops []Op, d int64) []Op {
	out := make([]Op, len(ops))
	for i, o := range ops {
		if o.Ts != 0 {
			o.Ts += d * 1e9
		}
		out[i] = o
	}
	return out
}

func runC10(c *vc.Ctx) error {
	base := RunCfg{C10: true}
	if c.Replay != "" {
		return replayWitness(c, base, func(w *Witness, ops []Op) []Op {
			if w.BaseWall == 0 {
				return ops
			}
			return shiftOps(ops, time.Now().Unix()-w.BaseWall)
		})
	}
	smlab.QuietLogs(c.Scratch)
	wall := time.Now().Unix()
	cp := newCampaign(c, "C10", base)
	cp.nontriv = func(spec caseSpec, info SeqInfo, st *Stats) []string {
		var out []string
		for k := range st.C10Cells {
			out = append(out, k)
		}
		return out
	}
	compactStores := []storeCfg{{"mem", PolicyCompact}, {"pebble", PolicyCompact}}
	localStores := []storeCfg{{"mem", PolicyLocal}, {"pebble", PolicyLocal}}
	// (1) boundary matrix, both engines
	cells := matrixCells()
	cp.run(len(cells)*2, func(i int) caseSpec {
		mc := cells[i/2]
		return caseSpec{Name: mc.name(), Ops: mc.seq(wall), Store: compactStores[i%2], BaseWall: wall}
	})
	// (2) predecessor generations: clear/remove + re-create, all four stores
	rcs := recreateCases()
	cp.run(len(rcs)*4*2, func(i int) caseSpec {
		rc := rcs[i/8]
		st := storeCfgs[i%4]
		b := wall + c10Offset
		if (i/4)%2 == 1 {
			b = wall - c10Offset
		}
		return caseSpec{Name: rc.name(), Ops: rc.seq(b), Store: st, BaseWall: wall}
	})
	// (2b) expiry second boundary values, all four stores
	tbs := ttlBoundaryCases()
	cp.run(len(tbs)*4, func(i int) caseSpec {
		bc := tbs[i/4]
		st := storeCfgs[i%4]
		if bc.when < 0 && st.Policy == PolicyLocal {
			// a negative absolute second has no meaning in the local-deletion time
			// index (it sorts as a huge unsigned value): wait_compact only
			return caseSpec{}
		}
		return caseSpec{Name: bc.name(), Ops: bc.seq(wall), Store: st, BaseWall: wall}
	})
	// (3) random sequences
	nRand := c.Pick(3000, 250000)
	cp.run(nRand, func(i int) caseSpec {
		r := c.Rand(10*1000003 + int64(i))
		switch i % 3 {
		case 0:
			lay := layoutFor("future", wall)
			return caseSpec{Name: fmt.Sprintf("random-future-%d", i), Ops: c10RandomSeq(r, lay, PolicyCompact), Store: compactStores[(i/3)%2], BaseWall: wall}
		case 1:
			lay := layoutFor("past", wall)
			return caseSpec{Name: fmt.Sprintf("random-past-%d", i), Ops: c10RandomSeq(r, lay, PolicyCompact), Store: compactStores[(i/3)%2], BaseWall: wall}
		}
		lay := layoutFor("local", wall)
		return caseSpec{Name: fmt.Sprintf("random-local-%d", i), Ops: c10RandomSeq(r, lay, PolicyLocal), Store: localStores[(i/3)%2], BaseWall: wall}
	})
	cp.finish()
	ev := c.Ev
	st := cp.stats
	ev.Rule = "cases: (1) boundary matrix: for every (type x read-modify-write command) of rmwCommands() a key is created with TTL 10 (KV: SET+EXPIRE, SETEX, SET EX), the command is applied at log second expireAt-1, expireAt, expireAt+1 (first and last nanosecond of that second), then TTL is read and the command is applied again one second later; twice: log time 30 days ahead of the wall clock (reads see everything) and 30 days behind (reads hide everything that has an expiry); mem and pebble. (2) per collection type: create, remove everything (CLEAR / element-wise / trim / rank range), re-create with other members - at one and the same nanosecond, clear+re-create at the same nanosecond, same second, next second; all four stores. (2b) expiry-second boundary values: for every type (KV via EXPIRE, SETEX and SET EX) the absolute expiry second is set to the largest accepted value 2^32-3, one below, one above (refused), 48 h below it -1/0/+1 s, 2^31-1/2^31/2^31+1, and TTL 1, 0, -3 and a TTL below -now (negative absolute second); then compaction-filter pass + local-deletion checker pass + TTL read, a modifying write, the passes and TTL again; all four stores. (3) random sequences (20-140 commands, PRNG(seed,i)) mixing the C08 command set with EXPIRE/PERSIST/TTL/SETEX/SET EX of every type; half of the log-time steps aim at expireAt-1/expireAt/expireAt+1 of an earlier expiry; compaction (real CompactAllRange/CompactOldExpireData + the real compaction filter applied to every key) resp. a synchronous pass of the local-deletion checker every ~25 commands. The model is driven by the log timestamps (writes) and the wall clock (reads); after every write the stored absolute expire time is compared too. distinct_nontrivial = number of distinct cells (type, command, position of the command's log second relative to the key's expireAt: before/at/after) in which a command met a key that carried an expiry."
	ev.Set("boundary_matrix_cells", len(cells))
	ev.Set("boundary_matrix_executions", len(cells)*2)
	ev.Set("recreate_cases_executed", len(rcs)*8)
	ev.Set("ttl_boundary_cases_executed", len(tbs)*4)
	ev.Set("random_sequences", nRand)
	ev.Set("commands_meeting_a_key_with_expiry_by_cell", st.C10Cells)
	ev.Set("harness_actions", st.CtlOps)
	ev.Set("ttl_replies_checked_against_clock_window", st.TTLChecked)
	ev.Set("observations_after_compaction_or_checker_pass", st.LocalObs)
	ev.Set("log_time_layouts", map[string]string{"future": "log origin = wall+30d, TTL seconds", "past": "log origin = wall-30d, TTL seconds (60d = alive on both clocks)", "local": "local_deletion, log origin = wall-30d; TTL seconds are due, 30d+30min is ~30 min ahead, 60d far"})
	ev.Assume("engines mem and pebble only; neither implements SetCompactionFilter, so the compaction filter (rockCompactFilter.Filter) is executed through the hook VerifRunCompactFilter, which applies its decisions to every key like a full RocksDB compaction would")
	ev.Assume("a read is judged only while the key's expiry is >= 3 s in the real past or >= 1 h in the real future (the generator guarantees it; a stalled run stops the sequence instead of judging)")
	ev.Assume("ZFIXKEY (repair command) compares a size read with the log time against ZRange, which filters with the wall clock: when the two clocks disagree about the set being expired its effect is not judged and the sequence ends there (model.go D8)")
	ev.Assume("under local_deletion a key whose expire record is due may or may not be gone after a checker pass (the documentation promises no promptness); the model adopts what it observes for due keys only")
	ev.Assume("the input classes with known conformance deviations (C08) are not generated here")
	return nil
}
