package model

func (m *Model) listW(tk string, ts int64) *listEnt {
	e := m.list[tk]
	if e == nil || m.expiredW(e.exp, ts) {
		return nil
	}
	return e
}

func (m *Model) listR(tk string) *listEnt {
	e := m.list[tk]
	if e == nil || m.expiredR(e.exp) {
		return nil
	}
	return e
}

func (m *Model) listDrop(tk string) {
	if old := m.list[tk]; old != nil {
		m.remember("list", tk, old.l)
		delete(m.list, tk)
	}
}

func (m *Model) listForWrite(tk string, ts int64) *listEnt {
	if e := m.listW(tk, ts); e != nil {
		return e
	}
	m.listDrop(tk)
	e := &listEnt{}
	m.list[tk] = e
	m.noteGen("list", tk, ts)
	return e
}

func (m *Model) applyList(o Op) Exp {
	tk := o.tk()
	switch o.Name {
	case "lpush", "rpush":
		if len(o.A) == 0 {
			return Exp{R: rErr("args")}
		}
		e := m.listForWrite(tk, o.Ts)
		for _, v := range o.A {
			m.noteAdd("list", tk, v)
			if o.Name == "lpush" {
				e.l = append([]string{v}, e.l...)
			} else {
				e.l = append(e.l, v)
			}
		}
		return Exp{R: rInt(int64(len(e.l)))}
	case "lpop", "rpop":
		e := m.listW(tk, o.Ts)
		if e == nil || len(e.l) == 0 {
			return Exp{R: rNil()}
		}
		var v string
		if o.Name == "lpop" {
			v, e.l = e.l[0], e.l[1:]
		} else {
			v, e.l = e.l[len(e.l)-1], e.l[:len(e.l)-1]
		}
		if len(e.l) == 0 {
			m.listDrop(tk)
		}
		return Exp{R: rBulk(v)}
	case "llen":
		if e := m.listR(tk); e != nil {
			return Exp{R: rInt(int64(len(e.l)))}
		}
		return Exp{R: rInt(0)}
	case "lindex":
		idx, ok := parseInt(o.A[0])
		if !ok {
			return Exp{R: rErr("value is not an integer or out of range")}
		}
		e := m.listR(tk)
		if e == nil {
			return Exp{R: rNil()}
		}
		n := int64(len(e.l))
		if idx < 0 {
			idx += n
		}
		if idx < 0 || idx >= n {
			return Exp{R: rNil()}
		}
		return Exp{R: rBulk(e.l[idx])}
	case "lrange":
		if len(o.A) != 2 {
			return Exp{R: rErr("args")}
		}
		start, ok1 := parseInt(o.A[0])
		stop, ok2 := parseInt(o.A[1])
		if !ok1 || !ok2 {
			return Exp{R: rErr("value is not an integer or out of range")}
		}
		e := m.listR(tk)
		if e == nil {
			return Exp{R: rArr()}
		}
		s, t, ok := normIndex(start, stop, int64(len(e.l)))
		if !ok {
			return Exp{R: rArr()}
		}
		if t-s+1 > maxBulkRead {
			m.dev("D16")
			return Exp{R: rErr("too much batch size")}
		}
		return Exp{R: rBulks(e.l[s : t+1])}
	case "lset":
		idx, ok := parseInt(o.A[0])
		if !ok {
			return Exp{R: rErr("value is not an integer or out of range")}
		}
		e := m.listW(tk, o.Ts)
		if e == nil {
			return Exp{R: rErr("no such key")}
		}
		n := int64(len(e.l))
		if idx < 0 {
			idx += n
		}
		if idx < 0 || idx >= n {
			return Exp{R: rErr("index out of range")}
		}
		e.l[idx] = o.A[1]
		m.noteAdd("list", tk, o.A[1])
		return Exp{R: rOK()}
	case "ltrim":
		start, ok1 := parseInt(o.A[0])
		stop, ok2 := parseInt(o.A[1])
		if !ok1 || !ok2 {
			return Exp{R: rErr("value is not an integer or out of range")}
		}
		e := m.listW(tk, o.Ts)
		if e == nil {
			return Exp{R: rOK()}
		}
		s, t, ok := normIndex(start, stop, int64(len(e.l)))
		if !ok {
			cls := ""
			if stop < -int64(len(e.l)) {
				cls = "stop-below-head" // stop index before the first element
			}
			m.listDrop(tk)
			return Exp{R: rOK(), Class: cls}
		}
		e.l = append([]string{}, e.l[s:t+1]...)
		return Exp{R: rOK()}
	case "lclear":
		m.dev("D7")
		if e := m.listW(tk, o.Ts); e != nil {
			m.listDrop(tk)
			return Exp{R: rInt(1)}
		}
		return Exp{R: rInt(0)}
	case "lkeyexist":
		m.dev("D7")
		if m.listR(tk) != nil {
			return Exp{R: rInt(1)}
		}
		return Exp{R: rInt(0)}
	case "lfixkey":
		m.dev("D7")
		return Exp{R: rOK()}
	case "lexpire":
		e := m.listW(tk, o.Ts)
		return m.expireCmd(o, "list", e != nil, func(w int64) { e.exp = w })
	case "lpersist":
		e := m.listW(tk, o.Ts)
		cur := int64(0)
		if e != nil {
			cur = e.exp
		}
		return m.persistCmd(o, e != nil, cur, func() { e.exp = 0 })
	case "lttl":
		e := m.listR(tk)
		if e == nil {
			return m.ttlCmd(false, 0)
		}
		return m.ttlCmd(true, e.exp)
	}
	return Exp{Skip: "no model for " + o.Name}
}
