package model

import (
	"strconv"
	"strings"
)

func (m *Model) kvW(tk string, ts int64) *kvEnt {
	e := m.kv[tk]
	if e == nil || m.expiredW(e.exp, ts) {
		return nil
	}
	return e
}

func (m *Model) kvR(tk string) *kvEnt {
	e := m.kv[tk]
	if e == nil || m.expiredR(e.exp) {
		return nil
	}
	return e
}

// kvStore writes a whole new value (SET semantics: expiry replaced).
func (m *Model) kvStore(tk, v string, exp int64) {
	if m.Policy == PolicyLocal {
		// D6: the stored expire record is separate and permanent
		if exp != 0 {
			m.addRec("kv", tk, exp)
			m.dev("D6")
		}
		exp = 0
	}
	m.kv[tk] = &kvEnt{v: v, exp: exp}
}

// kvModify writes the result of a read-modify-write command: expiry kept if
// the old value was alive at ts, a fresh key otherwise.
func (m *Model) kvModify(tk string, old *kvEnt, v string) {
	if old != nil {
		old.v = v
		return
	}
	m.kv[tk] = &kvEnt{v: v}
}

// parseSetOpts mirrors Redis' SET options [NX|XX] [EX seconds] (the subset the
// tree implements: node/keys.go getExNxXXArgs).
func parseSetOpts(opts []string) (ex int64, nx, xx bool, ok bool) {
	for i := 0; i < len(opts); i++ {
		switch strings.ToLower(opts[i]) {
		case "nx":
			if nx || xx {
				return 0, false, false, false
			}
			nx = true
		case "xx":
			if nx || xx {
				return 0, false, false, false
			}
			xx = true
		case "ex":
			if i+1 >= len(opts) {
				return 0, false, false, false
			}
			n, err := strconv.ParseInt(opts[i+1], 10, 64)
			if err != nil || n <= 0 {
				return 0, false, false, false
			}
			ex = n
			i++
		default:
			return 0, false, false, false
		}
	}
	return ex, nx, xx, true
}

func (m *Model) applyKV(o Op) Exp {
	tk := o.tk()
	switch o.Name {
	case "get", "getnolock":
		if e := m.kvR(tk); e != nil {
			return Exp{R: rBulk(e.v)}
		}
		return Exp{R: rNil()}
	case "set":
		if len(o.A) < 1 {
			return Exp{R: rErr("args")}
		}
		ex, nx, xx, ok := parseSetOpts(o.A[1:])
		if !ok {
			return Exp{R: rErr("syntax")}
		}
		if len(o.A[0]) > maxValueSize {
			m.dev("D4")
			return Exp{R: rErr("value too large")}
		}
		old := m.kvW(tk, o.Ts)
		if nx && old != nil {
			return Exp{R: rNil()}
		}
		if xx && old == nil {
			return Exp{R: rNil()}
		}
		exp := int64(0)
		if ex > 0 {
			exp = newExp(o.Ts, ex)
			if m.Policy == PolicyCompact && exp >= maxWhen {
				m.dev("D17")
				return Exp{R: rErr("expiration time overflow"), Class: "expiry-overflow"}
			}
		}
		m.kvStore(tk, o.A[0], exp)
		return Exp{R: rOK()}
	case "setnx":
		if m.kvW(tk, o.Ts) != nil {
			return Exp{R: rInt(0)}
		}
		m.kvStore(tk, o.A[0], 0)
		return Exp{R: rInt(1)}
	case "setex":
		ttl, err := strconv.Atoi(o.A[0])
		if err != nil || ttl <= 0 {
			return Exp{R: rErr("invalid expire time")}
		}
		if m.Policy == PolicyCompact && newExp(o.Ts, int64(ttl)) >= maxWhen {
			m.dev("D17")
			return Exp{R: rErr("expiration time overflow"), Class: "expiry-overflow"}
		}
		m.kvStore(tk, o.A[1], newExp(o.Ts, int64(ttl)))
		return Exp{R: rOK()}
	case "getset":
		old := m.kvW(tk, o.Ts)
		r := rNil()
		if old != nil {
			r = rBulk(old.v)
		}
		m.kvStore(tk, o.A[0], 0)
		return Exp{R: r}
	case "mget":
		var out []Reply
		for _, k := range o.Keys() {
			if e := m.kvR(o.T + ":" + k); e != nil {
				out = append(out, rBulk(e.v))
			} else {
				out = append(out, rNil())
			}
		}
		return Exp{R: rArr(out...)}
	case "mset", "plset":
		all := append([]string{o.K}, o.A...)
		if len(all)%2 != 0 {
			return Exp{R: rErr("args")}
		}
		for i := 0; i < len(all); i += 2 {
			m.kvStore(o.T+":"+all[i], all[i+1], 0)
		}
		return Exp{R: rOK()}
	case "incr", "incrby":
		delta := int64(1)
		if o.Name == "incrby" {
			d, ok := parseInt(o.A[0])
			if !ok {
				return Exp{R: rErr("value is not an integer or out of range")}
			}
			delta = d
		}
		old := m.kvW(tk, o.Ts)
		n := int64(0)
		if old != nil {
			v, ok := redisInt(old.v)
			if !ok {
				cls := ""
				if _, lenient := parseInt(old.v); lenient {
					cls = "lenient-int" // "01", "+1", "-0": Go's ParseInt accepts, Redis' string2ll does not
				}
				return Exp{R: rErr("value is not an integer or out of range"), Class: cls}
			}
			n = v
		}
		if addOverflows(n, delta) {
			return Exp{R: rErr("increment or decrement would overflow"), Class: "int-overflow"}
		}
		n += delta
		m.kvModify(tk, old, strconv.FormatInt(n, 10))
		return Exp{R: rInt(n)}
	case "append":
		old := m.kvW(tk, o.Ts)
		cur := ""
		if old != nil {
			cur = old.v
		}
		if len(cur)+len(o.A[0]) > maxValueSize {
			m.dev("D4")
			return Exp{R: rErr("value too large")}
		}
		nv := cur + o.A[0]
		m.kvModify(tk, old, nv)
		if len(o.A[0]) == 0 {
			return Exp{R: rInt(int64(len(nv))), Class: "empty-value"}
		}
		return Exp{R: rInt(int64(len(nv)))}
	case "setrange":
		off, ok := parseInt(o.A[0])
		if !ok {
			return Exp{R: rErr("value is not an integer or out of range")}
		}
		if off < 0 {
			return Exp{R: rErr("offset is out of range"), Class: "neg-offset"}
		}
		v := o.A[1]
		old := m.kvW(tk, o.Ts)
		cur := ""
		if old != nil {
			cur = old.v
		}
		if len(v) == 0 {
			// Redis: nothing to set, answer the current length (0 if missing)
			return Exp{R: rInt(int64(len(cur))), Class: "empty-value"}
		}
		if off+int64(len(v)) > maxValueSize {
			m.dev("D4")
			return Exp{R: rErr("string exceeds maximum allowed size")}
		}
		b := []byte(cur)
		if need := int(off) + len(v); need > len(b) {
			b = append(b, make([]byte, need-len(b))...)
		}
		copy(b[off:], v)
		m.kvModify(tk, old, string(b))
		return Exp{R: rInt(int64(len(b)))}
	case "getrange":
		if len(o.A) != 2 {
			return Exp{R: rErr("args")}
		}
		start, ok1 := parseInt(o.A[0])
		end, ok2 := parseInt(o.A[1])
		if !ok1 || !ok2 {
			return Exp{R: rErr("value is not an integer or out of range")}
		}
		cur := ""
		if e := m.kvR(tk); e != nil {
			cur = e.v
		}
		n := int64(len(cur))
		// Redis getrangeCommand
		if start < 0 && end < 0 && start > end {
			return Exp{R: rBulk(""), NilIsEmpty: true, Class: "neg-reversed-range"}
		}
		if start < 0 {
			start = n + start
		}
		if end < 0 {
			end = n + end
		}
		if start < 0 {
			start = 0
		}
		if end < 0 {
			end = 0
		}
		if end >= n {
			end = n - 1
		}
		if start > end || n == 0 {
			return Exp{R: rBulk(""), NilIsEmpty: true}
		}
		return Exp{R: rBulk(cur[start : end+1]), NilIsEmpty: true}
	case "strlen":
		if e := m.kvR(tk); e != nil {
			return Exp{R: rInt(int64(len(e.v)))}
		}
		return Exp{R: rInt(0)}
	case "exists":
		n := int64(0)
		for _, k := range o.Keys() {
			if m.kvR(o.T+":"+k) != nil {
				n++
			}
		}
		return Exp{R: rInt(n)}
	case "del":
		n := int64(0)
		for _, k := range o.Keys() {
			ktk := o.T + ":" + k
			if m.kvW(ktk, o.Ts) != nil {
				n++
			}
			delete(m.kv, ktk)
		}
		return Exp{R: rInt(n)}
	case "expire":
		e := m.kvW(tk, o.Ts)
		return m.expireCmd(o, "kv", e != nil, func(w int64) { e.exp = w })
	case "persist":
		e := m.kvW(tk, o.Ts)
		cur := int64(0)
		if e != nil {
			cur = e.exp
		}
		return m.persistCmd(o, e != nil, cur, func() { e.exp = 0 })
	case "ttl":
		e := m.kvR(tk)
		if e == nil {
			return m.ttlCmd(false, 0)
		}
		return m.ttlCmd(true, e.exp)
	}
	return Exp{Skip: "no model for " + o.Name}
}
