package model

import (
	"fmt"
	"math"
	"sort"
	"strconv"
	"strings"
)

// adaptWrite applies the documented leader-side reply rewrite (D12) to the raw
// value an apply-side handler answered with, so that it can be compared with
// the client-level reply the model produces.
func adaptWrite(o Op, r Reply) Reply {
	if r.Kind == "error" {
		return r
	}
	switch o.Name {
	case "set":
		// node/keys.go setCommand: int64(0) -> nil, everything else -> "OK"
		if r.Kind == "int" && r.Int == 0 {
			return rNil()
		}
		if r.Kind == "int" {
			return rOK()
		}
	case "setex", "hmset", "mset", "plset", "lset", "ltrim", "lfixkey", "zfixkey":
		// checkOKRsp
		if r.Kind == "nil" {
			return rOK()
		}
	case "zincrby":
		// node/zset.go zincrbyCommand: float64 -> FormatFloat 'g'
		if r.Kind == "other" && strings.HasPrefix(string(r.Bulk), "float64:") {
			f, err := strconv.ParseFloat(strings.TrimPrefix(string(r.Bulk), "float64:"), 64)
			if err == nil {
				return rBulk(strconv.FormatFloat(f, 'g', -1, 64))
			}
		}
	}
	return r
}

func floatEq(a, b string) bool {
	fa, ea := strconv.ParseFloat(a, 64)
	fb, eb := strconv.ParseFloat(b, 64)
	if ea != nil || eb != nil {
		return a == b
	}
	if math.IsNaN(fa) || math.IsNaN(fb) {
		return math.IsNaN(fa) && math.IsNaN(fb)
	}
	return fa == fb
}

// canonUnordered renders an array reply as a sorted multiset (of single
// elements or of pairs).
func canonUnordered(r Reply, pairs bool) string {
	if r.Kind != "array" {
		return r.Canon()
	}
	var items []string
	if pairs {
		if len(r.Arr)%2 != 0 {
			return "odd:" + r.Canon()
		}
		for i := 0; i < len(r.Arr); i += 2 {
			items = append(items, r.Arr[i].Canon()+"="+r.Arr[i+1].Canon())
		}
	} else {
		for _, e := range r.Arr {
			items = append(items, e.Canon())
		}
	}
	sort.Strings(items)
	return "{" + strings.Join(items, " ") + "}"
}

func replyEq(want, got Reply, e *Exp) bool {
	if e.NilIsEmpty {
		if want.Kind == "nil" {
			want = rBulk("")
		}
		if got.Kind == "nil" {
			got = rBulk("")
		}
	}
	if e.Unordered {
		return canonUnordered(want, e.Pairs) == canonUnordered(got, e.Pairs)
	}
	if e.Float {
		if e.FloatStride == 0 {
			if want.Kind == "bulk" && got.Kind == "bulk" {
				return floatEq(string(want.Bulk), string(got.Bulk))
			}
			return want.Canon() == got.Canon()
		}
		if want.Kind != "array" || got.Kind != "array" || len(want.Arr) != len(got.Arr) {
			return false
		}
		for i := range want.Arr {
			if i%e.FloatStride == e.FloatStride-1 {
				if want.Arr[i].Kind != "bulk" || got.Arr[i].Kind != "bulk" || !floatEq(string(want.Arr[i].Bulk), string(got.Arr[i].Bulk)) {
					return false
				}
			} else if want.Arr[i].Canon() != got.Arr[i].Canon() {
				return false
			}
		}
		return true
	}
	return want.Canon() == got.Canon()
}

// match compares the implementation's reply with the expectation. kind is ""
// when they agree, else "reply-mismatch" or "error-class-mismatch".
func match(e Exp, got Reply) (kind string, detail string) {
	if e.Skip != "" {
		return "", ""
	}
	if e.TTL {
		if got.Kind != "int" || got.Int < e.Lo || got.Int > e.Hi {
			return "reply-mismatch", fmt.Sprintf("ttl %s not in [%d,%d]", got.Canon(), e.Lo, e.Hi)
		}
		return "", ""
	}
	wantErr := e.R.Kind == "error"
	gotErr := got.Kind == "error"
	if wantErr || gotErr {
		if wantErr == gotErr {
			return "", "" // errors are compared by class, not by text
		}
		for _, a := range e.Alt {
			if (a.Kind == "error") == gotErr && (gotErr || replyEq(a, got, &e)) {
				return "", ""
			}
		}
		return "error-class-mismatch", fmt.Sprintf("model %s, implementation %s", e.R.Canon(), got.Canon())
	}
	if replyEq(e.R, got, &e) {
		return "", ""
	}
	for _, a := range e.Alt {
		if replyEq(a, got, &e) {
			return "", ""
		}
	}
	return "reply-mismatch", fmt.Sprintf("model %s, implementation %s", e.R.Canon(), got.Canon())
}
