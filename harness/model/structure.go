package model

import (
	"encoding/binary"
	"fmt"
	"math"
	"sort"

	"github.com/youzan/ZanRedisDB/rockredis"
)

// C09 structural walk over the raw engine content, with the codecs exported by
// /repo/rockredis/verif_export.go:
//   size-vs-elements   stored size in the meta key == number of element keys
//                      of the live generation (list: head..tail contiguous)
//   zset-bijection     every zset member key has exactly one score-index key
//                      (same key, generation, member, score) and vice versa
//   zero-size-meta     a meta key with size 0 (must be deleted at zero)
//   orphan-elements    element keys whose generation has no live meta key.
//                      local_deletion: never allowed (clear deletes elements).
//                      wait_compact: *CLEAR, LTRIM, ZREMRANGEBYRANK/-BYLEX
//                      (zRemAll/lDelete/hDeleteAll: "for compact ttl, we can
//                      just delete the meta") and the renewal of an expired
//                      generation legitimately leave the old generation behind
//                      for the compaction filter; an element-wise removal
//                      (HDEL, SREM, SPOP, ZREM, ZREMRANGEBYSCORE, LPOP, RPOP)
//                      must delete what it counts, so a generation that loses
//                      its meta through one of those must have no element left.

type metaInfo struct {
	typ        string
	tk         string
	ver        int64
	exp        int64
	size       int64
	head, tail int64
}

type elemGroup struct {
	n       int64
	members map[string]float64   // zset member -> score (member keys)
	scores  map[string][]float64 // zset member -> scores in the score index
	seqs    []int64
}

type structSnap struct {
	typ, tk string
	had     bool
	ver     int64
	exp     int64
}

func typOfMeta(b byte) string {
	switch b {
	case rockredis.HSizeType:
		return "hash"
	case rockredis.SSizeType:
		return "set"
	case rockredis.ZSizeType:
		return "zset"
	case rockredis.LMetaType:
		return "list"
	}
	return ""
}

func dtOf(typ string) byte {
	switch typ {
	case "hash":
		return rockredis.HashType
	case "set":
		return rockredis.SetType
	case "zset":
		return rockredis.ZSetType
	case "list":
		return rockredis.ListType
	}
	return 0
}

func (r *runner) compactPolicy() bool { return r.cfg.Policy != PolicyLocal }

// decodeMeta parses a collection meta value.
func (r *runner) decodeMeta(typ string, v []byte) (mi metaInfo, err error) {
	payload := v
	if r.compactPolicy() {
		h, herr := rockredis.VerifDecodeHeader(v)
		if herr != nil {
			return mi, herr
		}
		mi.ver, mi.exp, payload = h.ValueVersion, int64(h.ExpireAt), h.UserData
	}
	switch typ {
	case "list":
		mi.head, mi.tail, mi.size, _, err = rockredis.VerifParseListMeta(payload)
	case "zset":
		mi.size, _, err = rockredis.VerifParseZMeta(payload)
	default:
		mi.size, _, err = rockredis.VerifParseSizeMeta(payload)
	}
	return mi, err
}

// liveMeta reads the meta key of one collection straight from the engine.
func (r *runner) liveMeta(typ, tk string) (metaInfo, bool) {
	mk, err := rockredis.VerifEncodeMetaKey(dtOf(typ), []byte(tk))
	if err != nil {
		return metaInfo{}, false
	}
	v, err := r.lab.DB().VerifEngine().GetBytesNoLock(mk)
	if err != nil || v == nil {
		return metaInfo{}, false
	}
	mi, err := r.decodeMeta(typ, v)
	if err != nil {
		return metaInfo{}, false
	}
	mi.typ, mi.tk = typ, tk
	return mi, true
}

func (r *runner) structBefore(o Op) *structSnap {
	typ := typeOf(o.Name)
	if typ == "kv" {
		return nil
	}
	s := &structSnap{typ: typ, tk: o.tk()}
	if mi, ok := r.liveMeta(typ, s.tk); ok {
		s.had, s.ver, s.exp = true, mi.ver, mi.exp
	}
	return s
}

var wholesaleRemoval = map[string]bool{
	"hclear": true, "lclear": true, "sclear": true, "zclear": true,
	"ltrim": true, "zremrangebyrank": true, "zremrangebylex": true,
	"hmclear": true, "lmclear": true, "smclear": true, "zmclear": true,
}

func groupKey(typ, tk string, ver int64) string { return fmt.Sprintf("%s|%s|%d", typ, tk, ver) }

func (r *runner) structWalk(at int, o Op, pre *structSnap) *Failure {
	return r.structWalkOpt(at, o, pre, false)
}

// structWalkOpt: batched=true means several commands were applied since the
// last walk, so the per-command generation bookkeeping is not available and
// the orphan clause is evaluated only where it needs none (local_deletion).
func (r *runner) structWalkOpt(at int, o Op, pre *structSnap, batched bool) *Failure {
	r.st.Walks++
	// bookkeeping: did this command retire a generation, and was it entitled to
	if pre != nil && pre.had && r.compactPolicy() {
		now, ok := r.liveMeta(pre.typ, pre.tk)
		if !ok || now.ver != pre.ver {
			expired := pre.exp != 0 && o.Ts != 0 && o.Ts/1e9 >= pre.exp
			if wholesaleRemoval[o.Name] || expired {
				r.retired[groupKey(pre.typ, pre.tk, pre.ver)] = true
			}
		}
	}
	raw := r.lab.RawDumpNoFlush()
	metas := map[string]metaInfo{} // typ|tk -> live meta
	groups := map[string]*elemGroup{}
	grp := func(typ, tk string, ver int64) *elemGroup {
		k := groupKey(typ, tk, ver)
		g := groups[k]
		if g == nil {
			g = &elemGroup{}
			groups[k] = g
		}
		return g
	}
	split := func(table, verKey []byte) (string, int64, bool) {
		rk, ver := verKey, int64(0)
		if r.compactPolicy() {
			var err error
			rk, ver, err = rockredis.VerifDecodeVerKey(verKey)
			if err != nil {
				return "", 0, false
			}
		}
		return string(rockredis.VerifPackRedisKey(table, rk)), ver, true
	}
	bad := func(which, f string, a ...interface{}) *Failure {
		return r.fail(at, "structure", which, fmt.Sprintf(f, a...))
	}
	for _, kv := range raw {
		if len(kv.K) == 0 {
			continue
		}
		b := kv.K[0]
		switch b {
		case rockredis.HSizeType, rockredis.SSizeType, rockredis.ZSizeType, rockredis.LMetaType:
			typ := typOfMeta(b)
			_, tk, err := rockredis.VerifDecodeAnyMetaKey(kv.K)
			if err != nil {
				return bad("undecodable-key", "meta key %q: %v", kv.K, err)
			}
			mi, err := r.decodeMeta(typ, kv.V)
			if err != nil {
				return bad("undecodable-meta", "%s meta of %q: value %q: %v", typ, tk, kv.V, err)
			}
			mi.typ, mi.tk = typ, string(tk)
			metas[typ+"|"+string(tk)] = mi
		case rockredis.HashType, rockredis.SetType, rockredis.ZSetType:
			_, table, vk, sub, err := rockredis.VerifDecodeCollSubKey(kv.K)
			if err != nil {
				return bad("undecodable-key", "element key %q: %v", kv.K, err)
			}
			tk, ver, ok := split(table, vk)
			if !ok {
				return bad("undecodable-key", "element key %q: bad versioned key", kv.K)
			}
			typ := map[byte]string{rockredis.HashType: "hash", rockredis.SetType: "set", rockredis.ZSetType: "zset"}[b]
			g := grp(typ, tk, ver)
			g.n++
			if typ == "zset" {
				if g.members == nil {
					g.members = map[string]float64{}
				}
				if len(kv.V) != 8 {
					return bad("undecodable-value", "zset member key of %q member %q holds %d bytes", tk, sub, len(kv.V))
				}
				g.members[string(sub)] = math.Float64frombits(binary.BigEndian.Uint64(kv.V))
			}
		case rockredis.ZScoreType:
			table, vk, member, score, err := rockredis.VerifZDecodeScoreKey(kv.K)
			if err != nil {
				return bad("undecodable-key", "score key %q: %v", kv.K, err)
			}
			tk, ver, ok := split(table, vk)
			if !ok {
				return bad("undecodable-key", "score key %q: bad versioned key", kv.K)
			}
			g := grp("zset", tk, ver)
			if g.scores == nil {
				g.scores = map[string][]float64{}
			}
			g.scores[string(member)] = append(g.scores[string(member)], score)
		case rockredis.ListType:
			table, vk, seq, err := rockredis.VerifLDecodeListKey(kv.K)
			if err != nil {
				return bad("undecodable-key", "list key %q: %v", kv.K, err)
			}
			tk, ver, ok := split(table, vk)
			if !ok {
				return bad("undecodable-key", "list key %q: bad versioned key", kv.K)
			}
			g := grp("list", tk, ver)
			g.n++
			g.seqs = append(g.seqs, seq)
		}
	}
	// deterministic order
	mkeys := make([]string, 0, len(metas))
	for k := range metas {
		mkeys = append(mkeys, k)
	}
	sort.Strings(mkeys)
	live := map[string]bool{}
	for _, k := range mkeys {
		mi := metas[k]
		r.st.WalkKeys++
		gk := groupKey(mi.typ, mi.tk, mi.ver)
		live[gk] = true
		g := groups[gk]
		if g == nil {
			g = &elemGroup{}
		}
		if mi.size <= 0 {
			return bad("zero-size-meta", "%s %q: meta key present with size %d", mi.typ, mi.tk, mi.size)
		}
		if g.n != mi.size {
			return bad("size-vs-elements", "%s %q (generation %d): meta says %d elements, engine holds %d element keys", mi.typ, mi.tk, mi.ver, mi.size, g.n)
		}
		if mi.typ == "list" {
			sort.Slice(g.seqs, func(i, j int) bool { return g.seqs[i] < g.seqs[j] })
			for i, s := range g.seqs {
				if s != mi.head+int64(i) {
					return bad("list-sequence", "list %q: meta head=%d tail=%d but element %d has sequence %d", mi.tk, mi.head, mi.tail, i, s)
				}
			}
		}
		if mi.typ == "zset" {
			if f := zsetBijection(g); f != "" {
				return bad("zset-bijection", "zset %q (generation %d): %s", mi.tk, mi.ver, f)
			}
		}
	}
	gkeys := make([]string, 0, len(groups))
	for k := range groups {
		gkeys = append(gkeys, k)
	}
	sort.Strings(gkeys)
	for _, gk := range gkeys {
		if live[gk] {
			continue
		}
		g := groups[gk]
		cnt := g.n
		for _, ss := range g.scores {
			cnt += int64(len(ss))
		}
		if cnt == 0 {
			continue
		}
		if r.compactPolicy() && (r.retired[gk] || batched) {
			continue // left for the compaction filter on purpose
		}
		return bad("orphan-elements", "%d element/index keys of generation %s exist without a live meta key of that generation", cnt, gk)
	}
	return nil
}

func zsetBijection(g *elemGroup) string {
	for m, s := range g.members {
		ss := g.scores[m]
		if len(ss) != 1 {
			return fmt.Sprintf("member %q (score %v) has %d score-index keys %v", m, s, len(ss), ss)
		}
		if ss[0] != s && !(ss[0] == 0 && s == 0) {
			return fmt.Sprintf("member %q has score %v but its score-index key says %v", m, s, ss[0])
		}
	}
	for m, ss := range g.scores {
		if _, ok := g.members[m]; !ok {
			return fmt.Sprintf("score-index key(s) %v for %q without member key", ss, m)
		}
	}
	return ""
}
