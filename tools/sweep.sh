#!/bin/bash
# sweep.sh <tier> <seeds...> : runs every registered check at the given seeds, one line per run (keeps the committed seed-1 evidence files).
tier="$1"; shift
cd /verif
mkdir -p /tmp/sweep-ev; cp evidence/*.json /tmp/sweep-ev/ 2>/dev/null
ids=$(python3 -c "import json;print(' '.join(c['property_id'] for c in json.load(open('/verif/MANIFEST.json'))['checks']))")
for seed in "$@"; do for id in $ids; do
  out=$(VERIF_SEED=$seed ./check $id $tier 2>&1); rc=$?
  echo "seed=$seed $id rc=$rc $(echo "$out" | grep '^SUMMARY' | cut -d' ' -f5-12)"
  [ $rc -ne 0 ] && echo "$out" | grep -E "^(VIOLATION|INCONCLUSIVE)|signature" | head -6
done; done
cp /tmp/sweep-ev/*.json evidence/ 2>/dev/null; rm -rf /tmp/sweep-ev
