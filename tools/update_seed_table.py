#!/usr/bin/env python3
"""Regenerates the seeded-changes table of DESIGN.md section 6.5 between the SEED_TABLE markers."""
import subprocess,re
t=subprocess.check_output(['python3','/verif/tools/seed_table.py'],text=True)
s=open('/verif/DESIGN.md').read()
block="<!-- SEED_TABLE_BEGIN -->\n"+t+"<!-- SEED_TABLE_END -->"
if 'SEED_TABLE_PLACEHOLDER' in s:
    s=s.replace('SEED_TABLE_PLACEHOLDER',block)
else:
    s=re.sub(r'<!-- SEED_TABLE_BEGIN -->.*?<!-- SEED_TABLE_END -->',lambda m:block,s,flags=re.S)
open('/verif/DESIGN.md','w').write(s)
print('rows',t.count('\n')-2)
