#!/bin/bash
# ingest_seed.sh <id> <i> <pkgdir> : confirm seed i of /tmp/seed/<id> and store it under /verif/seeded/<id>-<i>/
id="$1"; i="$2"; pkg="$3"; re="${4:-TestSeedDemo}"
out=$(/verif/tools/confirm_seed.sh /tmp/seed/$id $i $pkg "$re" 2>&1)
echo "$out" | tail -4
if echo "$out" | grep -q '^CONFIRMED'; then
  d=/verif/seeded/$id-$i; mkdir -p $d; cp -r /tmp/seed/$id/OUT/$i/* $d/
  res=$(echo "$out" | grep '^RESULT')
  python3 - "$d" "$id" "$pkg" "$res" <<'PY'
import json,sys
d,id,pkg,res=sys.argv[1:5]
m=json.load(open(d+'/meta.json'))
m['confirmed_by_lead']={'ran':'tools/confirm_seed.sh in a scratch worktree: demo on clean tree, then git apply patch.diff, go build ./..., pinned baseline suite (common pkg metric settings slow internal), demo again','result':res,'demo_location':pkg+'/zz_seed_demo_test.go (go test -run TestSeedDemo ./'+pkg+'/)'}
m.setdefault('detected_by', 'pending')
json.dump(m,open(d+'/meta.json','w'),indent=1)
PY
  echo "INGESTED $d"
fi
