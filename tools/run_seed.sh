#!/bin/bash
# run_seed.sh <seed-dir-name> <property-id> [tier] : runs a check against a scratch worktree of /repo HEAD with the seeded patch applied.
# (While builder agents compile against /repo the patch is not applied to /repo itself; VERIF_REPO gives the same build.)
seed="$1"; id="$2"; tier="${3:-quick}"
wt=/tmp/seedrun-$seed-$$
git -C /repo worktree add -q --detach $wt HEAD || exit 2
tag=$(echo "$wt" | md5sum | cut -c1-8)
trap 'git -C /repo worktree remove --force '$wt' 2>/dev/null; rm -f /verif/bin/vcheck*-alt-'$tag'* /verif/harness/.alt/'$tag'.*' EXIT
pf=/verif/seeded/$seed/patch.diff
# a seed whose context was changed by a later fix: commit has a re-based copy of the same change
[ -f /verif/seeded/$seed/patch.current.diff ] && pf=/verif/seeded/$seed/patch.current.diff
if ! git -C $wt apply $pf; then echo "SEED-APPLY-FAILED $seed"; exit 3; fi
cd /verif
out=$(VERIF_REPO=$wt VERIF_NO_EVIDENCE=1 ./check $id $tier 2>&1); rc=$?
echo "$out" | grep -E "^(VIOLATION|KNOWN-FINDING|SUMMARY|INCONCLUSIVE|BUILD-FAILED)" | cut -c1-300 | head -12
echo "$out" | grep -A2 "^VIOLATION" | grep signature | sort | uniq -c | head -5
echo "SEEDRUN seed=$seed check=$id tier=$tier rc=$rc"
