#!/usr/bin/env python3
"""Generates /verif/MANIFEST.json from tools/checks.json (one record per claimed
property) so that the manifest is always schema-valid and consistent."""
import json, os, subprocess, sys
here = os.path.dirname(os.path.abspath(__file__))
root = os.path.dirname(here)
spec = json.load(open(os.path.join(here, "checks.json")))
props = [json.loads(l)["id"] for l in open(os.path.join(root, "properties.jsonl")) if l.strip()]
checks = []
claimed = set()
for c in spec["checks"]:
    pid = c["id"]
    claimed.add(pid)
    checks.append({
        "property_id": pid,
        "quick_cmd": "./check %s quick" % pid,
        "thorough_cmd": "./check %s thorough" % pid,
        "evidence_file": "/verif/evidence/%s.json" % pid,
        "replay_cmd_template": "./check %s --replay {path}" % pid,
        "engine": c["engine"],
        "level_claimed": {"category": c["level"], "text": c["text"], "design_ref": c.get("design_ref", "DESIGN.md section 3, " + pid)},
        "level_note": c["note"],
        "technique": c["technique"],
    })
na = []
for pid in props:
    if pid not in claimed:
        na.append({"property_id": pid, "reason": spec["not_applicable"].get(pid, "check not built yet in this session (planned in DESIGN.md section 3); no claim is made")})
try:
    commits = subprocess.check_output(["git", "-C", "/repo", "log", "--format=%H %s", "1d61b08..HEAD"], text=True).splitlines()
except Exception:
    commits = []
hooks = [l.split()[0] for l in commits if " verif hook" in l or l.split(" ", 1)[1].startswith("verif hook")]
m = {
    "version": 1,
    "setup_cmd": "./setup.sh",
    "hooks": {
        "guard": "verif",
        "enable": "go build -tags verif (the harness module /verif/harness replaces github.com/youzan/ZanRedisDB => /repo and builds with -tags verif; see ./check)",
        "baseline_off_cmd": "cd /repo && GOFLAGS=-mod=mod GOPROXY=off GOSUMDB=off go test -mod=mod -json -vet=off -count=1 -timeout 25m ./...",
        "source_commits": hooks,
        "add_only": True,
    },
    "engines": spec["engines"],
    "checks": checks,
    "notes": spec["notes"],
    "not_applicable": na,
}
json.dump(m, open(os.path.join(root, "MANIFEST.json"), "w"), indent=1)
print("MANIFEST.json: %d checks, %d not_applicable, %d hook commits" % (len(checks), len(na), len(hooks)))
