#!/bin/bash
# refresh_evidence.sh: runs every registered check once (quick, seed 1) against /repo and keeps the evidence it writes.
cd /verif
ids=$(python3 -c "import json;print(' '.join(c['property_id'] for c in json.load(open('/verif/MANIFEST.json'))['checks']))")
for id in $ids; do
  out=$(VERIF_SEED=1 ./check $id quick 2>&1); rc=$?
  echo "$id rc=$rc $(echo "$out" | grep '^SUMMARY' | cut -d' ' -f5-12)"
  [ $rc -ne 0 ] && echo "$out" | grep -E "^(VIOLATION|INCONCLUSIVE)|signature" | head -6
done
