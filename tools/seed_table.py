#!/usr/bin/env python3
"""Prints the markdown table of independently seeded changes and which check detects them (from seeded/*/meta.json)."""
import json,glob,os
rows=[]
for d in sorted(glob.glob('/verif/seeded/*/')):
    n=os.path.basename(d.rstrip('/'))
    m=json.load(open(d+'meta.json'))
    title=(m.get('title') or '')[:110].replace('|','/')
    files=','.join(os.path.basename(f) for f in m.get('files_changed',[]))[:40]
    db=m.get('detected_by')
    if not isinstance(db,list): db=[]
    det='; '.join("%s %s: **%s** (%s)"%(e['check'],e['tier'],e['result'],e['note'][:120].replace('|','/')) for e in db) or 'pending'
    rows.append("| %s | %s | %s | %s |"%(n,files,title,det))
print("| seed | file | change | result |\n|---|---|---|---|")
print("\n".join(rows))
