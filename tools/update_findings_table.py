#!/usr/bin/env python3
"""Regenerates the complete findings lists in DESIGN.md (section 1.6.1) from known_findings.json and the fix: commits of /repo."""
import json,subprocess,re
d=json.load(open('/verif/known_findings.json'))['findings']
subjects={}
for l in subprocess.check_output(['git','-C','/repo','log','--format=%h\t%s','1d61b08..HEAD'],text=True).splitlines():
    h,s=l.split('\t',1)
    if s.startswith('fix:'): subjects[h]=s
byc={}
for f in d:
    if f['kind']=='fixed':
        byc.setdefault(f['commit'],[]).append(f)
out="### 1.6.1 Complete lists (generated from known_findings.json and the `fix:` commits of /repo)\n\n"
out+="**%d `fix:` commits** (oldest first; every one has at least one `fixed` entry naming the property whose check found it and the witness):\n\n| commit | subject | found by (property: signature or witness) |\n|---|---|---|\n"%len(subjects)
for h in reversed(list(subjects.keys())):
    fs=byc.get(h,[])
    who='; '.join("%s"%(f['property']) for f in fs) or '-'
    wit=(fs[0]['what'][:160].replace('|','/').replace('\n',' ')+'…') if fs else ''
    out+="| %s | %s | %s: %s |\n"%(h,subjects[h][5:].strip().replace('|','/'),who,wit)
known=[f for f in d if f['kind']=='known']
out+="\n**%d known findings** (genuine, not repaired):\n\n| id | property | signature (regex) | what |\n|---|---|---|---|\n"%len(known)
for f in known:
    out+="| %s | %s | `%s` | %s… |\n"%(f['id'],f['property'],f['signature'].replace('|','\\|'),f['what'][:200].replace('|','/').replace('\n',' '))
s=open('/verif/DESIGN.md').read()
block="<!-- FINDINGS_BEGIN -->\n"+out+"<!-- FINDINGS_END -->\n"
if '<!-- FINDINGS_BEGIN -->' in s:
    s=re.sub(r'<!-- FINDINGS_BEGIN -->.*?<!-- FINDINGS_END -->\n',lambda m:block,s,flags=re.S)
else:
    s=s.replace('### 1.7 Trusting the monitors',block+'\n### 1.7 Trusting the monitors',1)
open('/verif/DESIGN.md','w').write(s)
missing=[h for h in subjects if h not in byc]
print('fix commits',len(subjects),'known',len(known),'fix commits without fixed entry:',missing)
