#!/usr/bin/env python3
"""mark_seed.py <seed> <check> <tier> <caught|missed> <signature/notes>: records in seeded/<seed>/meta.json which check detects the seeded change."""
import json,sys
seed,check,tier,res,note=sys.argv[1:6]
p='/verif/seeded/%s/meta.json'%seed
m=json.load(open(p))
db=m.get('detected_by')
if not isinstance(db,list): db=[]
db=[e for e in db if not (e['check']==check and e['tier']==tier)]
db.append({'check':check,'tier':tier,'result':res,'note':note})
m['detected_by']=db
json.dump(m,open(p,'w'),indent=1)
