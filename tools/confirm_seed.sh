#!/bin/bash
# confirm_seed.sh <worktree> <i> <pkgdir> <test-run-regex> [demo files glob, default zz_seed_demo_test.go]
# Confirms a seeded change: demo passes on clean code; with the patch: builds,
# pinned baseline passes, demo fails. Leaves the worktree clean.
set -u
export GOFLAGS=-mod=mod GOPROXY=off GOSUMDB=off GOTOOLCHAIN=local CGO_ENABLED=1
wt="$1"; i="$2"; pkg="$3"; re="$4"; demo="${5:-zz_seed_demo_test.go}"
cd "$wt" || exit 2
git checkout -- . ; rm -f "$pkg"/zz_seed_demo*_test.go
cp OUT/$i/$demo "$pkg"/ || exit 2
echo "== clean: demo"
go test -modfile=alt.mod -vet=off -count=1 -run "$re" ./$pkg/ > /tmp/cs.$$.log 2>&1; c=$?; tail -3 /tmp/cs.$$.log
echo "== patched: apply"
git apply OUT/$i/patch.diff || { echo APPLY-FAILED; exit 2; }
echo "== patched: build"; go build -modfile=alt.mod ./... ; b=$?
echo "== patched: baseline"
go test -modfile=alt.mod -vet=off -count=1 ./common/... ./pkg/... ./metric/... ./settings/... ./slow/... ./internal/... > /tmp/cs.$$.base 2>&1; bl=$?; grep -v '^ok\|no test files' /tmp/cs.$$.base | tail -5
echo "== patched: demo"
go test -modfile=alt.mod -vet=off -count=1 -run "$re" ./$pkg/ > /tmp/cs.$$.log 2>&1; p=$?; tail -8 /tmp/cs.$$.log
git checkout -- . ; rm -f "$pkg"/zz_seed_demo*_test.go /tmp/cs.$$.*
echo "RESULT clean_demo_rc=$c build_rc=$b baseline_rc=$bl patched_demo_rc=$p"
[ $c -eq 0 ] && [ $b -eq 0 ] && [ $bl -eq 0 ] && [ $p -ne 0 ] && echo CONFIRMED || echo NOT-CONFIRMED
